"""C15 — deferred work (spans, deferred captures) is completed exactly once, inside its own invocation, on its own
thread (real TriggerHandler under real sys.settrace / threading.settrace over generated host programs)."""
import os
import random

import core
import tracehost as th
from props import c15_tl as tlx
from props import c15_cb as cbx

ID = 'C15'
EXTRACT = ['locations', 'threadlocal', 'deferred']
LEAN_TARGETS = ['DeepModel.Props.C15']
AUDIT = 'DeepModel/Audit/C15.lean'
DRIVER = 'DeepModel/Driver/C15.lean'
BUDGET = {'quick': 420, 'thorough': 5600}
TIME = {'quick': 75, 'thorough': 840}
RULE = ('a case = a generated host program (nested calls across modules, if/else, loops, try/except/finally, raising '
        'functions, generators consumed fully / partially and closed, a method) x entry points on 1-3 real threads '
        '(sys.settrace via rig.run_traced; threading.settrace + threads started afterwards under a forced schedule; '
        'threads run one after the other so that thread idents are reused) x 2-7 tracepoints: method spans '
        '(span=method + method_name), line spans (40% / 40% of them with an explicit stage method_start|method_end / '
        'line_start|line_end), deferred method / line captures (directly constructed '
        'LocationAction with a *_capture stage), several on one function / line (several callbacks per context), '
        'plain snapshot/log tracepoints in between; fire_count=-1 fire_period=0; 40% of the span / capture '
        'tracepoints have a scripted condition (arbitrary open/not-open per hit). Main stream: the reference stream '
        'satisfies NoClash and NoStack (checked by the generator). Stream deep (SCALE, 1 of 28 + a corpus case): recursion 130-260 deep (thorough up to 420) with an '
        'unlimited method span / deferred method capture on the recursive function, every level opening its own '
        'context (more than a hundred pending on one thread, no name confusion: judged like main). '
        'Stream rec-ok: self-recursive functions with the deferred-work tracepoints thinned out until no invocation '
        'runs while an enclosing same-named one has work pending (NoClash violated, NoClashW holds: c15_weak_partial), '
        'judged like main. Separate labelled streams kf-rec (self-recursive '
        'functions with spans) and kf-stack (method + line span pending at a function end) are instances of the two '
        'known findings; stream cfg-emptied: the host program calls a hook that empties the installed tracepoint list '
        '(handler.new_config([]) / handler.shutdown()) in the middle of a function with deferred work open; stream fault: '
        'spans + deferred method captures (any order) registered by one event, the recording push service raises at chosen '
        'completions (after recording the attempt): every item still completes exactly once. Stream tl (3 of every 14 '
        'cases): the per-thread store itself — 1-2 real deep.thread_local.ThreadLocal instances (providers: the '
        'handler\'s fresh-empty-list, the class default None, stateful ones whose every call differs, ones that '
        'sometimes return None) x 2-6 real threads (started before their first and joined after their last operation: '
        'idents are reused) x a forced global schedule of get / set / clear / is_set / value / value= / '
        'get().append(x), sequential, interleaved or in waves, threads mostly ending with a value left behind; '
        'non-trivial there = a thread starts on an instance on which another thread has left a value. Stream cb (1 of '
        'every 14): direct calls of the real TriggerContext.__exit__ (results handing back a callback / None / raising, '
        'real SpanResult and LogActionResult among them), SpanResult.process + SpanActionCallback.process (0-6 spans '
        'whose close() fails with an Exception anywhere or a BaseException at the last position), '
        'DeferredSnapshotActionCallback.process per event kind over recording stand-ins, _is_deferred per stage value; '
        'non-trivial there = a failing item is followed by another item; every third cb case is of the separate labelled '
        'stream cb-kf-base (known finding C15/baseexception-skips-rest): a BaseException in the MIDDLE of the spans / '
        'results. Non-trivial = at least two contexts opened on some thread and one of them nested in or '
        'overlapping another. Distinct = distinct canonical JSON.')
TRUSTED = ['CPython 3.12 trace-event discipline (the model and the oracle consume the recorded reference stream; the '
           'invocation-tree flattening of the model is compared with the recorded stream on every case)',
           'frame identity = a per-thread invocation number each host function receives as an argument (read from '
           'frame.f_locals under the plugin call; no frames are kept alive)',
           'effects are attributed to events by (thread, file, line, function, bytecode offset, frame) and by order']
ASSUMPTIONS = ['threading.local() keeps one attribute namespace per (local object, thread object) and a new thread '
               'object starts with an empty one also when it receives the ident of a finished thread (CPython; the tl '
               'stream observes it on real threads with reused idents)',
               'host programs are deterministic (same events under the recorder and under the agent)',
               'callbacks do not raise (a failing span.close / push is C01/C20\'s subject)',
               'the gate (fire_count/fire_period/condition) is an oracle: scripted conditions realise arbitrary '
               'decisions per hit; shared per-action state between threads is not used (unlimited actions)',
               'suspended generators are closed by the program (their finalisation time is not part of the model)']

FID_REC = 'C15/recursion-name-match'
FID_STACK = 'C15/top-only-stacked-contexts'
FID_CAUGHT = 'C15/caught-exception-completes'
CLOSES = ('span-close', 'cap-close')
OPENS = ('span-open', 'cap-open')

REC_SRC = ('def rec(n, k):\n'                                   # 1
           '    x = n\n'                                        # 2
           '    if n > 0:\n'                                    # 3
           '        x = x + rec(n - 1, next(_TL.ctr))\n'        # 4
           '    r = x\n'                                        # 5
           '    return r\n')                                    # 6
STACK_SRC = ('def f(x, k):\n'                                   # 1
             '    y = x + 1\n'                                  # 2
             '    r = y\n'                                      # 3
             '    return r\n'                                   # 4
             '\n'
             '\n'
             'def g(x, k):\n'                                   # 7
             '    a = f(x, next(_TL.ctr))\n'                    # 8
             '    r = a + 1\n'                                  # 9
             '    return r\n')                                  # 10


HOOK_SRC = ('def h(n, k):\n'                                    # 1
            '    x = n + 1\n'                                   # 2
            "    _HOOK('%s')\n"                                 # 3
            '    x = x + 1\n'                                   # 4
            '    r = x\n'                                       # 5
            '    return r\n'                                    # 6
            '\n'
            '\n'
            'def f(n, k):\n'                                    # 9
            '    y = h(n, next(_TL.ctr))\n'                     # 10
            '    r = y + h(n, next(_TL.ctr))\n'                 # 11
            '    return r\n')                                   # 12


def span_tp(n, path, line=0, method=None, scripted=False, via='resp', stage=None):
    args = dict(th.UNLIMITED)
    args.update(snapshot='no_collect', span='method' if method else 'line')
    if method:
        args['method_name'] = method
    if stage:
        # an explicit stage of the same family (method_start / method_end, line_start / line_end): the position of a
        # location is not part of where it is — the span still opens when the function is entered / the line reached
        args['stage'] = ('method_' if method else 'line_') + stage
    tp = {'id': 'tp%d' % n, 'path': path, 'line': line, 'args': args, 'metrics': [], 'via': via}
    if scripted:
        tp['scripted'] = True
        args['condition'] = "_dec('%s')" % tp['id']
    return tp


def cap_tp(n, path, line=0, method=None, scripted=False):
    tp = {'id': 'tp%d' % n, 'path': path, 'line': line, 'capture': 'method' if method else 'line', 'args': {}}
    if method:
        tp['method_name'] = method
    if scripted:
        tp['scripted'] = True
        tp['args'] = {'condition': "_dec('%s')" % tp['id']}
    return tp


def plain_tp(rng, n, path, line):
    args = dict(th.UNLIMITED)
    if rng.random() < 0.5:
        args.update(snapshot='no_collect', log_msg='hit')
    return {'id': 'tp%d' % n, 'path': path, 'line': line, 'args': args, 'metrics': [], 'via': rng.choice(['resp', 'custom'])}


def rec_case():
    return {'kind': 'prog', 'mode': 'sys', 'files': {'m0.py': REC_SRC}, 'entries': [['m0', 'rec', 2]],
            'tps': [span_tp(0, 'm0.py', method='rec', scripted=True)],
            'scripts': {'T0': {'tp0': [True, False, False]}}, 'sched': [], 'model_seed': 0, 'stream': 'kf-rec'}


CAUGHT_SRC = ('def g(n, k):\n'                                 # 1
              '    raise ValueError(n)\n'                       # 2
              '\n'
              '\n'
              'def f(n, k):\n'                                  # 5
              '    x = n\n'                                     # 6
              '    try:\n'                                      # 7
              '        x = x + g(x, next(_TL.ctr))\n'           # 8
              '    except ValueError:\n'                        # 9
              '        x = x - 1\n'                             # 10
              '    r = x + 7\n'                                 # 11
              '    return r\n')                                 # 12


def caught_case():
    return {'kind': 'prog', 'mode': 'sys', 'files': {'m0.py': CAUGHT_SRC}, 'entries': [['m0', 'f', 1]],
            'tps': [cap_tp(0, 'm0.py', method='f')], 'scripts': {}, 'sched': [], 'model_seed': 0,
            'stream': 'kf-caught'}


def method_cap_opens(case, events, t):
    """indices of the call events at which a deferred METHOD capture is opened (by the statement's rule)"""
    groups, _ = th.reference(case['tps'], events, case.get('scripts', {}).get(t, {}), upto=th.emptied_at(case, events))
    caps = {tp['id'] for tp in case['tps'] if tp.get('capture') == 'method'}
    return {g['i'] for g in groups if any(k == 'cap-open' and tp in caps for k, tp in g['effects'])}


def stack_case():
    return {'kind': 'prog', 'mode': 'sys', 'files': {'m0.py': STACK_SRC}, 'entries': [['m0', 'g', 1]],
            'tps': [span_tp(0, 'm0.py', method='f'), span_tp(1, 'm0.py', line=4)],
            'scripts': {}, 'sched': [], 'model_seed': 0, 'stream': 'kf-stack'}


def fault_case():
    # two deferred captures and a span registered by one event; the push of the FIRST capture fails at completion:
    # the span and the second capture of the same context are still completed, once (fixed in d5aa530)
    return {'kind': 'prog', 'mode': 'sys', 'files': {'m0.py': HOOK_SRC % 'none'}, 'entries': [['m0', 'f', 1]],
            'tps': [cap_tp(0, 'm0.py', method='h'), span_tp(1, 'm0.py', method='h'), cap_tp(2, 'm0.py', method='h')],
            'push_fail': [0], 'scripts': {}, 'sched': [], 'model_seed': 7, 'stream': 'fault'}


def known_replays():
    return [(FID_REC, 'rec(2) with a method span that fires once: the span opened in rec(2) is closed at rec(0)\'s '
                      'return (callbacks match by file + function name, not by frame)', rec_case()),
            (FID_CAUGHT, 'f has a deferred method capture, catches the ValueError of g and returns 7: the capture is '
                         'completed at the caught exception event and attaches the ValueError, the return value is never '
                         'attached', caught_case()),
            (FID_STACK, 'method span on f and line span on f\'s last line: at f\'s return only the top context is '
                        'examined, the method span is never closed and stays pending on the thread', stack_case())] + \
        cbx.known_replays()


# --------------------------------------------------------------------------------------- generation
def opens_of(case, events, t):
    groups, _ = th.reference(case['tps'], events, case.get('scripts', {}).get(t, {}), upto=th.emptied_at(case, events))
    return {g['i'] for g in groups if any(k in OPENS for k, _ in g['effects'])}


def clash_w(events, opens):
    """NoClashW violated (Model/CallbacksW): some invocation starts while an ENCLOSING invocation with the same (file
    name, function name) has a context pending (m: opened at its call event, l: opened at its latest line event —
    tracked as in th.stacked)."""
    st = []     # per invocation [key, m, l]
    for i, e in enumerate(events):
        k = e['kind']
        if k == 'call':
            key = (os.path.basename(e['path']), e['func'])
            if any(f[0] == key and (f[1] or f[2]) for f in st):
                return True
            st.append([key, i in opens, False])
        elif not st:
            continue
        elif k == 'line':
            st[-1][2] = i in opens
        elif k == 'exception':
            st[-1][1:] = [st[-1][1] and st[-1][2], False]
        elif k == 'return':
            st.pop()
    return False


def reference_streams(case):
    """the reference streams of a case (recorder only) — used by the generator to classify the case."""
    host = th.Host(case['files'], case.get('nosource', ()))
    try:
        rec = th.Recorder(host)
        th.run_program(host, [tuple(e) for e in case['entries']], 'sys', rec.trace)
        return {t: th.canon_events(host, ev) for t, ev in rec.events.items()}
    finally:
        host.close()


def hypotheses(case, streams):
    """(clash, stacked) per thread, by the instance predicates of the two known findings."""
    out = {}
    for t, events in streams.items():
        op = opens_of(case, events, t)
        out[t] = (th.clash(events), th.stacked(events, op) or th.stacked_strict(events, op),
                  th.caught_completes(events, method_cap_opens(case, events, t)), clash_w(events, op))
    return out


def gen_tps(rng, prog, entries, want_stack=False):
    meta = prog['meta']
    ex_lines, ex_calls = th.executed(prog['files'], entries)
    ex_lines = [(os.path.basename(f), l) for f, l in ex_lines]
    ex_calls = [(os.path.basename(f), fn) for f, fn in ex_calls]
    tps = []
    n = rng.randint(2, 7)
    guard = 0
    while len(tps) < n and guard < 50:
        guard += 1
        r = rng.random()
        scripted = rng.random() < 0.4
        if r < 0.35 and ex_calls:
            f, fn = rng.choice(ex_calls)
            tps.append(span_tp(len(tps), f, method=fn, scripted=scripted, via=rng.choice(['resp', 'custom']),
                               stage=rng.choice([None, None, 'end', 'end', 'start'])))
            if rng.random() < 0.3:       # a second callback in the same context
                tps.append(cap_tp(len(tps), f, method=fn, scripted=rng.random() < 0.3))
        elif r < 0.65 and ex_lines:
            f, l = rng.choice(ex_lines)
            tps.append(span_tp(len(tps), f, line=l, scripted=scripted, via=rng.choice(['resp', 'custom']),
                               stage=rng.choice([None, None, None, 'end', 'start'])))
            if rng.random() < 0.2:
                tps.append(span_tp(len(tps), f, line=l, via='custom'))
        elif r < 0.80 and ex_calls:
            f, fn = rng.choice(ex_calls)
            tps.append(cap_tp(len(tps), f, method=fn, scripted=scripted))
        elif r < 0.87 and ex_lines:
            f, l = rng.choice(ex_lines)
            tps.append(cap_tp(len(tps), f, line=l, scripted=scripted))
        elif ex_lines:
            f, l = rng.choice(ex_lines)
            tps.append(plain_tp(rng, len(tps), f, l))
    return tps


def gen_case(rng, tier, stream='main'):
    mode = rng.choice(['sys', 'sys', 'threads', 'threads', 'seq'])
    nthreads = rng.randint(2, 3) if mode != 'sys' else rng.choice([1, 1, 2])
    hook = None
    fault = stream == 'fault'
    if fault:
        fault = rng.choice(['exc', 'exc', 'base'])
        mode, nthreads, stream = rng.choice(['sys', 'threads']), rng.choice([1, 2]), 'main'
    if stream == 'cfg-emptied':
        # the installed tracepoint list is emptied (a poll without tracepoints / a shutdown) by a hook the host
        # program calls in the middle of a function that has deferred work open
        mode, nthreads, hook, stream = 'sys', 1, rng.choice(['empty', 'shutdown']), 'main'
    for _attempt in range(20):
        prog = th.gen_program(rng, nmods=rng.randint(1, 3), nfuncs=rng.randint(3, 5),
                              recursion=(stream in ('kf-rec', 'rec-ok')),
                              sync=(mode == 'threads'), big=(tier == 'thorough' and rng.random() < 0.3), hook=hook)
        entries = [[rng.choice(prog['meta']['mods']), 'f0', rng.randint(0, 3)] for _ in range(nthreads)]
        if hook:
            entries = [['m0', 'f0', rng.randint(0, 3)]]
        tps = gen_tps(rng, prog, entries)
        if fault:
            # several deferred items registered by ONE event: spans and deferred method captures in any order, on
            # functions that are called; the push of some deferred snapshots fails exactly at their completion.
            # (All on function entries: they complete at return / exception events, where no tracepoint is.)
            _, ex_calls = th.executed(prog['files'], entries)
            ex_calls = sorted({(os.path.basename(f), fn) for f, fn in ex_calls if fn.startswith('f') or fn == 'meth'})
            tps = []
            for f, fn in rng.sample(ex_calls, min(len(ex_calls), rng.randint(1, 3))):
                items = [('span', None)] * rng.randint(1, 2) + [('cap', None)] * rng.randint(1, 2)
                rng.shuffle(items)           # the failing completion may be at any position of the context
                if fault == 'base':
                    # a failure that is not an `Exception` leaves CallbackContext.process: only as the LAST item of
                    # its context (what it does to the items after it is not the property's subject)
                    items = [('span', None)] * rng.randint(1, 2) + [('cap', None)]
                for kind, _ in items:
                    if kind == 'span':
                        tps.append(span_tp(len(tps), f, method=fn, via=rng.choice(['resp', 'custom'])))
                    else:
                        tps.append(cap_tp(len(tps), f, method=fn))
        if hook:
            info = prog['meta']['lines']['m0']
            fn = info.get('hook_fn', 'f0')
            # deferred work that is open when the hook runs: on the function that calls it and on its callers
            front = [span_tp(0, 'm0.py', method=fn, scripted=rng.random() < 0.2)]
            if rng.random() < 0.6:
                front.append(cap_tp(0, 'm0.py', method=fn))
            if rng.random() < 0.5:
                front.append(span_tp(0, 'm0.py', line=info['hook']))
            if fn != 'f0' and rng.random() < 0.6:
                front.append(rng.choice([span_tp, cap_tp])(0, 'm0.py', method='f0'))
            tps = front + tps[:4]
            for i, tp in enumerate(tps):
                tp['id'] = 'tp%d' % i
                if tp.get('scripted'):
                    tp['args']['condition'] = "_dec('%s')" % tp['id']
        scripts = {}
        for t in range(nthreads):
            scripts['T%d' % t] = {tp['id']: [rng.random() < 0.6 for _ in range(rng.randint(0, 6))]
                                  for tp in tps if tp.get('scripted')}
        case = {'kind': 'prog', 'mode': 'threads' if mode == 'seq' else mode, 'files': prog['files'],
                'entries': entries, 'tps': tps, 'scripts': scripts,
                'sched': [rng.randrange(nthreads) for _ in range(rng.randint(0, 12))] if mode == 'threads' else [],
                'model_seed': rng.randrange(10 ** 6), 'stream': stream}
        if hook:
            case['hook'] = {'file': 'm0.py', 'line': prog['meta']['lines']['m0']['hook'], 'what': hook}
            case['stream'] = 'cfg-emptied'
        if fault:
            case['push_fail'] = sorted(rng.sample(range(5), rng.randint(1, 3)))
            case['stream'] = 'fault'
            if fault == 'base':
                case['push_fail_kind'] = 'base'
        if mode == 'seq':
            case['sequential'] = True
        streams = reference_streams(case)
        hyp = hypotheses(case, streams)
        any_clash = any(h[0] for h in hyp.values())
        any_stack = any(h[1] for h in hyp.values())
        any_caught = any(h[2] for h in hyp.values())
        if stream == 'main':
            # repair: no deferred method capture on an invocation that catches an exception
            while any_caught:
                cand = [i for i, tp in enumerate(case['tps']) if tp.get('capture') == 'method']
                if not cand:
                    break
                del case['tps'][rng.choice(cand)]
                hyp = hypotheses(case, streams)
                any_caught = any(h[2] for h in hyp.values())
                any_stack = any(h[1] for h in hyp.values())
            # repair: drop line openings until no invocation ends with two of its own contexts pending
            while any_stack and case['tps']:
                cand = [i for i, tp in enumerate(case['tps'])
                        if th.tp_location(tp)[0] == 'line' and (tp.get('capture') or 'span' in tp.get('args', {}))]
                if not cand:
                    break
                del case['tps'][rng.choice(cand)]
                hyp = hypotheses(case, streams)
                any_stack = any(h[1] for h in hyp.values())
            if not any_clash and not any_stack and not any_caught and case['tps']:
                return case
        elif stream == 'kf-rec' and any_clash:
            return case
        elif stream == 'rec-ok':
            # recursion (NoClash violated) in which no invocation runs while an enclosing same-named one has deferred
            # work pending (NoClashW holds): drop deferred-work tracepoints until that is so; judged like `main`
            def opening(tp):
                return bool(tp.get('capture') or 'span' in tp.get('args', {}))
            while any(h[3] or h[1] or h[2] for h in hyp.values()):
                cand = [i for i, tp in enumerate(case['tps']) if opening(tp)]
                if not cand:
                    break
                del case['tps'][rng.choice(cand)]
                hyp = hypotheses(case, streams)
            if any(h[0] for h in hyp.values()) and not any(h[3] or h[1] or h[2] for h in hyp.values()) \
                    and any(opening(tp) for tp in case['tps']):
                return case
        elif stream == 'kf-caught':
            if any_caught and not any_clash:
                return case
            # force it: a deferred method capture on every called function that sees a caught exception
            for t, events in streams.items():
                inv = th.invocations(events)
                for i, e in enumerate(events):
                    if e['kind'] == 'call' and e['path'].startswith('/host/') and e['func'].startswith('f'):
                        if th.caught_completes(events, {i}):
                            case['tps'] = [cap_tp(0, os.path.basename(e['path']), method=e['func'])] + \
                                [tp for tp in case['tps'] if not tp.get('capture')][:3]
                            for q, tp in enumerate(case['tps']):
                                tp['id'] = 'tp%d' % q
                                if tp.get('scripted'):
                                    tp['args']['condition'] = "_dec('%s')" % tp['id']
                            case['scripts'] = {}
                            for tp in case['tps']:
                                tp.pop('scripted', None)
                                tp.get('args', {}).pop('condition', None)
                            hyp = hypotheses(case, streams)
                            if any(h[2] for h in hyp.values()) and not any(h[0] for h in hyp.values()):
                                return case
        elif stream == 'kf-stack':
            if any_stack and not any_clash:
                return case
            # force it: a method span and a line span on the last line of an executed function
            ex_lines, ex_calls = th.executed(prog['files'], entries)
            if ex_calls:
                f, fn = rng.choice(ex_calls)
                m = [k for k, p in prog['meta']['relpaths'].items() if p == f][0]
                info = prog['meta']['lines'][m]
                if fn in info['def'] and fn.startswith('f'):
                    # the `return r` line of fn: the last statement line before the next def
                    later = [l for l in info['def'].values() if l > info['def'][fn]]
                    end = min(later) if later else info['nlines']
                    ret = max(l for l in info['stmt'] if info['def'][fn] < l < end)
                    b = os.path.basename(f)
                    case['tps'] = [span_tp(0, b, method=fn), span_tp(1, b, line=ret)]
                    case['scripts'] = {}
                    hyp = hypotheses(case, streams)
                    if any(h[1] for h in hyp.values()) and not any(h[0] for h in hyp.values()):
                        return case
    if stream == 'rec-ok':
        # rec(2) with a method span whose scripted condition refuses the two outer calls: only the innermost opens
        return dict(rec_case(), scripts={'T0': {'tp0': [False, False, True]}}, stream='rec-ok')
    return rec_case() if stream == 'kf-rec' else stack_case() if stream == 'kf-stack' else \
        caught_case() if stream == 'kf-caught' else dict(stack_case(), tps=[
        span_tp(0, 'm0.py', method='f')], stream='main')


def deep_case(rng, tier):
    """SCALE: recursion 130-260 deep (thorough: up to 420) with an unlimited method span / deferred method capture on the
    recursive function — EVERY level opens its own context, so more than a hundred contexts are pending on one thread
    at once; on the unwind each return finds its own context on top (no name confusion: judged like `main`), every
    span is closed and every capture pushed exactly once, nothing is left pending."""
    depth = rng.randint(130, 260) if tier == 'quick' else rng.randint(130, 420)
    tps = [rng.choice([span_tp, cap_tp])(0, 'm0.py', method='rec')]
    if rng.random() < 0.4:
        tps.append(rng.choice([span_tp, cap_tp])(1, 'm0.py', method='rec'))      # two callbacks per context
    if rng.random() < 0.3:
        tps.append(plain_tp(rng, len(tps), 'm0.py', rng.choice([2, 5])))
    n = rng.choice([1, 1, 2])
    entries = [['m0', 'rec', depth]] + [['m0', 'rec', rng.choice([3, depth // 2])] for _ in range(n - 1)]
    return {'kind': 'prog', 'mode': 'sys' if n == 1 else 'threads', 'files': {'m0.py': REC_SRC}, 'entries': entries,
            'tps': tps, 'scripts': {}, 'sched': [rng.randrange(n) for _ in range(rng.randint(0, 8))] if n > 1 else [],
            'model_seed': rng.randrange(10 ** 6), 'stream': 'deep'}


def gen(rng, tier):
    k = j = 0
    while True:
        j += 1
        if j % 14 in (4, 8, 12):
            yield tlx.gen_case(rng, tier)
            continue
        if j % 28 == 6:
            yield deep_case(rng, tier)
            continue
        if j % 14 == 0:
            yield cbx.gen_base_case(rng, tier) if (j // 14) % 3 == 2 else cbx.gen_case(rng, tier)
            continue
        k += 1
        if k % 10 == 0:
            yield gen_case(rng, tier, 'kf-rec')
        elif k % 10 in (3, 7):
            yield gen_case(rng, tier, 'cfg-emptied')
        elif k % 10 == 1:
            yield gen_case(rng, tier, 'kf-caught')
        elif k % 10 in (2, 8):
            yield gen_case(rng, tier, 'fault')
        elif k % 10 == 5:
            yield gen_case(rng, tier, 'kf-stack')
        elif k % 10 == 9:
            yield gen_case(rng, tier, 'rec-ok')
        else:
            yield gen_case(rng, tier, 'main')


def corpus():
    src = ('def gen(n, k):\n'                                   # 1
           '    i = 0\n'                                        # 2
           '    while i < n:\n'                                 # 3
           '        yield i\n'                                  # 4
           '        i = i + 1\n'                                # 5
           '\n'
           '\n'
           'def h(n, k):\n'                                     # 8
           '    if n > 1:\n'                                    # 9
           '        raise ValueError(n)\n'                      # 10
           '    r = n + 10\n'                                   # 11
           '    return r\n'                                     # 12
           '\n'
           '\n'
           'def f(n, k):\n'                                     # 15
           '    x = n\n'                                        # 16
           '    for v in gen(2, next(_TL.ctr)):\n'              # 17
           '        x = x + v\n'                                # 18
           '    try:\n'                                         # 19
           '        x = x + h(x, next(_TL.ctr))\n'              # 20
           '    except ValueError:\n'                           # 21
           '        x = x - 1\n'                                # 22
           '    x = x + h(0, next(_TL.ctr))\n'                  # 23
           '    r = x\n'                                        # 24
           '    return r\n')                                    # 25
    tps = [span_tp(0, 'm0.py', method='f'), cap_tp(1, 'm0.py', method='f'), span_tp(2, 'm0.py', method='h'),
           cap_tp(3, 'm0.py', method='h'), span_tp(4, 'm0.py', method='gen'), span_tp(5, 'm0.py', line=20),
           span_tp(6, 'm0.py', line=18), cap_tp(7, 'm0.py', line=23)]
    return tlx.corpus() + cbx.corpus() + [
        # SCALE: 140 nested invocations each with its own pending context (method span + deferred method capture)
        {'kind': 'prog', 'mode': 'sys', 'files': {'m0.py': REC_SRC}, 'entries': [['m0', 'rec', 140]],
         'tps': [span_tp(0, 'm0.py', method='rec'), cap_tp(1, 'm0.py', method='rec')], 'scripts': {}, 'sched': [],
         'model_seed': 9, 'stream': 'deep'},
        {'kind': 'prog', 'mode': 'sys', 'files': {'m0.py': src}, 'entries': [['m0', 'f', 2]], 'tps': tps,
         'scripts': {}, 'sched': [], 'model_seed': 1, 'stream': 'main'},
        {'kind': 'prog', 'mode': 'threads', 'files': {'m0.py': src}, 'entries': [['m0', 'f', 2], ['m0', 'f', 0]],
         'tps': tps, 'scripts': {}, 'sched': [], 'model_seed': 2, 'stream': 'main'},
        # the tracepoint list is emptied (poll without tracepoints / shutdown) while h has a method span and a deferred
        # method capture open and f a method span: they still complete at their returns
        {'kind': 'prog', 'mode': 'sys', 'files': {'m0.py': HOOK_SRC % 'empty'}, 'entries': [['m0', 'f', 1]],
         'tps': [span_tp(0, 'm0.py', method='h'), cap_tp(1, 'm0.py', method='h'), span_tp(2, 'm0.py', method='f'),
                 span_tp(3, 'm0.py', line=3)],
         'hook': {'file': 'm0.py', 'line': 3, 'what': 'empty'}, 'scripts': {}, 'sched': [], 'model_seed': 4,
         'stream': 'cfg-emptied'},
        {'kind': 'prog', 'mode': 'sys', 'files': {'m0.py': HOOK_SRC % 'shutdown'}, 'entries': [['m0', 'f', 1]],
         'tps': [cap_tp(0, 'm0.py', method='h'), span_tp(1, 'm0.py', line=2)],
         'hook': {'file': 'm0.py', 'line': 3, 'what': 'shutdown'}, 'scripts': {}, 'sched': [], 'model_seed': 5,
         'stream': 'cfg-emptied'},
        # a span and a deferred method capture registered by one event (two callbacks in one context); the push of the
        # deferred snapshot fails at its first completion: the span is closed once, the push attempted once, and the
        # second invocation of h completes its own items
        {'kind': 'prog', 'mode': 'sys', 'files': {'m0.py': HOOK_SRC % 'none'}, 'entries': [['m0', 'f', 1]],
         'tps': [span_tp(0, 'm0.py', method='h'), cap_tp(1, 'm0.py', method='h')], 'push_fail': [0],
         'scripts': {}, 'sched': [], 'model_seed': 6, 'stream': 'fault'},
        # a failure that is not an Exception (BaseException) at the completion of the last item of a context: the
        # context is done, nothing is completed a second time
        {'kind': 'prog', 'mode': 'sys', 'files': {'m0.py': HOOK_SRC % 'none'}, 'entries': [['m0', 'f', 1]],
         'tps': [span_tp(0, 'm0.py', method='h'), cap_tp(1, 'm0.py', method='h')], 'push_fail': [0],
         'push_fail_kind': 'base', 'scripts': {}, 'sched': [], 'model_seed': 8, 'stream': 'fault'},
        # the probe p_c15_failed_completion_skips_rest: the first of three deferred items fails at completion
        fault_case(),
        # a polluter first (method + line span pending at f's return: the method span stays pending when the thread
        # ends, known finding), then fresh threads one after the other (thread idents are reused): nothing may be
        # inherited by them
        {'kind': 'prog', 'mode': 'threads', 'sequential': True, 'files': {'m0.py': STACK_SRC, 'm1.py': src},
         'entries': [['m0', 'g', 1], ['m1', 'h', 0], ['m1', 'h', 1]],
         'tps': [span_tp(0, 'm0.py', method='f'), span_tp(1, 'm0.py', line=4), span_tp(2, 'm1.py', method='h')],
         'scripts': {}, 'sched': [], 'model_seed': 3, 'stream': 'kf-stack'},
    ]


# --------------------------------------------------------------------------------------- implementation
SUB = {'tl': tlx, 'cb': cbx}


def sub(case):
    """the module of a direct-call stream (tl: ThreadLocal on real threads; cb: registration / completion below a context)"""
    return SUB.get(case.get('kind'))


def run_impl(case):
    if sub(case):
        return sub(case).run_impl(case)
    return th.run_case(case, hooks=True)


def threads_of(case):
    return ['T%d' % i for i in range(len(case['entries']))]


def cap_matches(cap, e):
    """does the value attached to a deferred capture describe the arg of reference event e?"""
    if e['kind'] == 'line':
        return cap is None
    if cap is None or cap.get('val') is None:
        return False
    if e['kind'] == 'return':
        return cap['expr'] == 'return' and cap['val']['value'] == e['argtext']
    if e['kind'] == 'exception':
        vals = [cap['val']['value']] + list(cap['val'].get('children', []))
        return cap['expr'] == 'exception' and any(e['argtext'] in str(x) for x in vals)
    return False


def oracle_thread(case, obs, t):
    """the statement on one thread.  Returns a list of violation texts."""
    v = []
    events = obs['ref'].get(t, [])
    observed = obs['effects'].get(t, [])
    fired = [o for o in observed if o['kind'] in th.FIRED]
    groups, inv = th.reference(case['tps'], events, case.get('scripts', {}).get(t, {}),
                               upto=th.emptied_at(case, events))
    vv, paired = th.align(groups, fired, events, what='the statement')
    v += vv
    if obs.get('start_set', {}).get(t):
        v.append('pending callbacks were already set when the thread started its work (inherited)')
    if vv:
        return v
    at = {}
    for g, got in paired:
        for o in got:
            at[o['seq']] = g['i']
    tp_by_id = {tp['id']: tp for tp in case['tps']}
    closed = {}
    ctxs = []           # [opening event index, callbacks still open]
    for o in observed:
        if o['kind'] in OPENS:
            i = at.get(o['seq'])
            if ctxs and ctxs[-1][0] == i and ctxs[-1][1] > 0:
                ctxs[-1][1] += 1
            else:
                ctxs.append([i, 1])
        if o['kind'] not in CLOSES:
            continue
        ot, oseq = o['open']
        if ot != t:
            v.append('%s of %s opened on thread %s was completed on thread %s' % (o['kind'], o['tp'], ot, t))
            continue
        closed[oseq] = closed.get(oseq, 0) + 1
        if closed[oseq] > 1 or o.get('nclose', 1) > 1:
            v.append('%s of %s completed more than once' % (o['kind'], o['tp']))
            continue
        op = observed[oseq]
        i_open = at.get(oseq)
        if i_open is None:
            v.append('completion of work that was never opened: %s' % o['tp'])
            continue
        if o.get('token') != op.get('token'):
            v.append('%s of %s opened in frame %s (%s, line %s) was completed in frame %s (%s:%s in %s)' % (
                o['kind'], o['tp'], op.get('token'), op.get('func'), op.get('line'), o.get('token'),
                os.path.basename(o.get('path') or '?'), o.get('line'), o.get('func')))
            continue
        method = th.tp_location(tp_by_id[o['tp']])[0] == 'func'
        window, _first = th.close_window(events, inv, i_open, method)
        cands = [j for j in window if th.fp(events[j]) == th.fp(o)]
        if not cands:
            v.append('%s of %s opened at event %d (%s:%s) was completed at %s:%s (offset %s), which is not an event of '
                     'the invocation that opened it after the opening' % (
                         o['kind'], o['tp'], i_open, os.path.basename(events[i_open]['path']), events[i_open]['line'],
                         os.path.basename(o.get('path') or '?'), o.get('line'), o.get('lasti')))
            continue
        x = th.exit_event(events, inv, i_open) if (method and events[i_open]['kind'] == 'call') else None
        if o['kind'] == 'cap-close' and x is not None and x not in cands and \
                [j for j in cands if events[j]['kind'] != 'line']:
            e = events[cands[0]]
            v.append('deferred method capture of %s was completed at an own %s event (%s:%s, %s) that is not the end of '
                     'the invocation: the value it returned / the exception it raised (%s at line %s) is not attached' % (
                         o['tp'], e['kind'], os.path.basename(e['path']), e['line'], e['argtext'],
                         events[x]['argtext'], events[x]['line']))
        elif o['kind'] == 'cap-close' and method and not [j for j in cands if events[j]['kind'] != 'line']:
            v.append('deferred method capture of %s was completed at a line event (%s:%s): it carries no result of the '
                     'invocation' % (o['tp'], os.path.basename(o.get('path') or '?'), o.get('line')))
        elif o['kind'] == 'cap-close' and not any(cap_matches(o.get('cap'), events[j]) for j in cands):
            e = events[cands[0]]
            v.append('deferred capture of %s completed at a %s event with %s but attached %s' % (
                o['tp'], e['kind'], e['argtext'], o.get('cap')))
        # LIFO between contexts (a context = the openings of one event): the completion must belong to the most
        # recently opened context that is still open
        while ctxs and ctxs[-1][1] == 0:
            ctxs.pop()
        if ctxs and ctxs[-1][0] == i_open:
            ctxs[-1][1] -= 1
        else:
            v.append('%s of %s (opened at event %d) was completed while a context opened later was still open '
                     '(not LIFO)' % (o['kind'], o['tp'], i_open))
            for c in ctxs:
                if c[0] == i_open:
                    c[1] -= 1
    for o in observed:
        if o['kind'] in OPENS and closed.get(o['seq'], 0) == 0:
            v.append('%s of %s opened at %s:%s in %s (frame %s) was never completed' % (
                o['kind'], o['tp'], os.path.basename(o.get('path') or '?'), o.get('line'), o.get('func'),
                o.get('token')))
    if obs.get('end_set', {}).get(t):
        v.append('callbacks are still pending after the thread\'s work has ended')
    return v


def oracle(case, obs):
    if sub(case):
        return sub(case).oracle(case, obs)
    if 'raised' in obs:
        return ['the agent raised: ' + obs['raised']]
    v = []
    if not obs['host_same']:
        v.append('the host program behaved differently under the agent: %s' % obs['host'])
    if not obs['trace_kept']:
        v.append('the trace function was removed during the run')
    for t in threads_of(case):
        v += ['thread %s: %s' % (t, x) for x in oracle_thread(case, obs, t)]
    for t in obs['effects']:
        if t not in threads_of(case):
            v.append('effects outside the threads\' work: %s' % [(o['kind'], o['tp']) for o in obs['effects'][t]][:4])
    return v[:12]


def thread_flags(case, obs):
    out = {}
    for t in threads_of(case):
        events = obs['ref'].get(t, [])
        out[t] = (th.clash(events), th.stacked(events, opens_of(case, events, t)))
    return out


def known_finding(case, obs):
    """instance predicates (structural, per thread): a context is pending (by frame identity) on top of the stack while
    ANOTHER invocation with the same (file name, function name) gets an event that completes it by name
    (th.name_confusion — this implies that the tree violates NoClash; recursion in which every level opens its own
    context is not an instance and is judged normally), resp. NoStack (some invocation
    reaches an own exception event / the end of its body with both its call-opened and a line-opened context
    pending).  The case is an instance only if every violated thread is one."""
    if sub(case):
        kf = getattr(sub(case), 'known_finding', None)
        return kf(case, obs) if kf else None
    if 'raised' in obs or 'ref' not in obs:
        return None
    flags, strict_only = {}, {}
    for t in threads_of(case):
        events = obs['ref'].get(t, [])
        op = opens_of(case, events, t)
        flags[t] = (th.name_confusion(events, op), th.stacked(events, op) or th.stacked_strict(events, op),
                    th.caught_completes(events, method_cap_opens(case, events, t)))
        strict_only[t] = not flags[t][0] and not flags[t][2] and not th.stacked(events, op)
    bad = [t for t in threads_of(case) if oracle_thread(case, obs, t)]
    if not bad or not obs['host_same'] or not obs['trace_kept']:
        return None
    for t in bad:
        # both kinds of context pending at an own EXCEPTION event only (NoStack holds, NoStackStrict does not): every
        # context is still completed inside its invocation (c15_partial / c15_weak_partial); the finding is only about
        # WHICH value a deferred method capture attaches (c15_capture_strict_witness).  Anything else — a span never
        # closed, work left pending — is not an instance.
        if strict_only[t] and flags[t][1] and \
                not all('deferred method capture' in x or 'deferred capture' in x for x in oracle_thread(case, obs, t)):
            return None
    if any(t not in threads_of(case) for t in obs['effects']):
        return None
    if not all(flags[t][0] or flags[t][1] or flags[t][2] for t in bad):
        return None
    return FID_REC if any(flags[t][0] for t in bad) else FID_STACK if any(flags[t][1] for t in bad) else FID_CAUGHT


def model_request(case, obs):
    if sub(case):
        return sub(case).model_request(case, obs)
    if 'raised' in obs:
        return None
    run = th.run_request(case, obs)
    reqs = [run]
    for k, t in enumerate(threads_of(case)):
        f = th.forest(obs['ref'].get(t, []))
        if f is None:
            reqs.append({'op': 'none'})
            continue
        fr = {'op': 'forest', 'resp': run['resp'], 'custom': run['custom'], 'forest': f,
              'script': run['threads'][k]['script']}
        if 'empty_at' in run['threads'][k]:
            fr['empty_at'] = run['threads'][k]['empty_at']
        reqs.append(fr)
    return {'op': 'batch', 'reqs': reqs}


def model_groups(case, effects):
    groups = []

    def add(i, effs):
        if not effs:
            return
        if groups and groups[-1]['i'] == i:
            groups[-1]['effects'] += effs
        else:
            groups.append({'i': i, 'effects': effs})
    for e in effects:
        if e['e'] == 'f':
            tp = case['tps'][e['a'][0]]
            add(e['i'], [(k, tp['id']) for k in th.model_effects(tp, e['a'][1])])
        elif e['e'] == 'c':
            add(e['i'], [('span-close' if k == 'span' else 'cap-close', case['tps'][i]['id']) for i, k in e['cbs']])
    return groups


def compare(case, obs, resp):
    if sub(case):
        return sub(case).compare(case, obs, resp)
    if 'error' in resp:
        return ['model error: ' + resp['error']]
    rs = resp['resps']
    run = rs[0]
    if 'error' in run:
        return ['model error: ' + run['error']]
    d = []
    if not run.get('global_agrees'):
        d.append('model: the interleaved machine disagrees with the per-thread runs')
    if not run.get('tl_agrees'):
        # a self-check of the driver (model vs model: it is the proven model lemma), not part of the tie
        d.append('model: the handler over the translated ThreadLocal store (HandlerTL.runGTL) disagrees with runG '
                 '(c15_handler_over_thread_local)')
    flags = thread_flags(case, obs)
    for k, t in enumerate(threads_of(case)):
        events = obs['ref'].get(t, [])
        observed = [o for o in obs['effects'].get(t, []) if o['kind'] in th.FIRED + CLOSES]
        meffs = run['threads'][k]['effects']
        groups = model_groups(case, meffs)
        vv, paired = th.align(groups, observed, events, what='the model')
        d += ['thread %s: %s' % (t, x) for x in vv]
        if not vv:
            # which opening each completion belongs to, and what it attached
            at = {}
            for g, got in paired:
                for o in got:
                    at[o['seq']] = g['i']
            want = {}
            for e in meffs:
                if e['e'] == 'c':
                    for i, kk in e['cbs']:
                        want[(case['tps'][i]['id'], e['i'])] = e
            for g, got in paired:
                for o in got:
                    if o['kind'] in CLOSES:
                        m = want.get((o['tp'], g['i']))
                        if m is None or at.get(o['open'][1]) != m['o']:
                            d.append('thread %s: %s of %s at event %d belongs to the opening at event %s; model: %s' % (
                                t, o['kind'], o['tp'], g['i'], at.get(o['open'][1]), m and m['o']))
                        elif o['kind'] == 'cap-close' and not cap_matches(o.get('cap'), events[g['i']]):
                            d.append('thread %s: capture of %s at event %d attached %s; the closing event carries %s' % (
                                t, o['tp'], g['i'], o.get('cap'), events[g['i']]['argtext']))
        pending = run['threads'][k]['slot']
        if (pending is not None) != bool(obs.get('end_set', {}).get(t)):
            d.append('thread %s: slot after the work: model %s, implementation set=%s' % (
                t, pending, obs.get('end_set', {}).get(t)))
        fr = rs[1 + k]
        if 'error' in fr:
            if fr['error'] != 'unknown op none':
                d.append('thread %s: model error (forest): %s' % (t, fr['error']))
            continue
        mev = [[e[0], e[1], e[2], e[3], e[4], e[5]] for e in fr['events']]
        if mev != th.model_events(events):
            d.append('thread %s: the model\'s flattening of the invocation tree differs from the recorded stream' % t)
        if not fr.get('decorated_ok'):
            d.append('thread %s: gate annotation of the tree differs from the stream annotation' % t)
        if (not fr['no_clash'], not fr['no_stack']) != flags[t]:
            d.append('thread %s: hypotheses: Lean (clash %s, stacked %s) vs harness predicates %s' % (
                t, not fr['no_clash'], not fr['no_stack'], flags[t]))
        cw = clash_w(events, opens_of(case, events, t))
        if (not fr.get('no_clash_w')) != cw:
            d.append('thread %s: hypothesis NoClashW: Lean %s vs harness predicate clash_w=%s' % (
                t, fr.get('no_clash_w'), cw))
        if fr['no_clash'] and not fr.get('no_clash_w'):
            d.append('thread %s: NoClash holds but NoClashW does not (c15_noclash_implies_weak)' % t)
        if fr.get('no_clash_w') and fr['no_stack'] and not fr['slot_unset']:
            d.append('thread %s: model leaves contexts pending although NoClashW and NoStack hold (c15_weak_partial)' % t)
    return d


def label(case, obs):
    if sub(case):
        return sub(case).label(case, obs)
    if 'raised' in obs:
        return 'raised'
    flags = thread_flags(case, obs)
    kf = 'clash' if any(c for c, _ in flags.values()) else 'stacked' if any(s for _, s in flags.values()) else 'ok'
    if kf == 'clash' and not any(clash_w(obs['ref'].get(t, []), opens_of(case, obs['ref'].get(t, []), t))
                                 for t in threads_of(case)):
        kf = 'clash-weak-ok'      # recursion, but no enclosing same-named invocation has work pending (NoClashW holds)
    n = sum(len([o for o in e if o['kind'] in OPENS]) for e in obs['effects'].values())
    reuse = ''
    if case.get('sequential'):
        ids = obs.get('idents', [])
        reuse = '/ident-reused' if len(set(ids)) < len(ids) else '/idents-distinct'
    mode = 'seq' if case.get('sequential') else case['mode']
    return '%s/%s/%dthr/%s%s' % (case.get('stream', '?'), mode, len(case['entries']),
                                 kf + ('/none' if n == 0 else '/few' if n < 5 else '/many'), reuse)


def nontrivial(case, obs):
    if sub(case):
        return sub(case).nontrivial(case, obs)
    if 'raised' in obs:
        return False
    for t, effs in obs['effects'].items():
        depth = best = 0
        for o in effs:
            if o['kind'] in OPENS:
                depth += 1
                best = max(best, depth)
            elif o['kind'] in CLOSES:
                depth -= 1
        if best >= 2:
            return True
    return False


def shrink(case):
    if sub(case):
        yield from sub(case).shrink(case)
        return
    tps = case['tps']
    for i in range(len(tps)):
        c = dict(case)
        c['tps'] = tps[:i] + tps[i + 1:]
        if c['tps']:
            yield c
    if len(case['entries']) > 1 and not case.get('sequential'):
        for i in range(len(case['entries'])):
            c = dict(case)
            c['entries'] = case['entries'][:i] + case['entries'][i + 1:]
            c['sched'] = []
            c['scripts'] = {'T%d' % k: v for k, v in enumerate(
                [case.get('scripts', {}).get('T%d' % j, {}) for j in range(len(case['entries'])) if j != i])}
            yield c
    for t, sc in case.get('scripts', {}).items():
        for tp, dec in sc.items():
            if dec and not all(dec):
                c = dict(case)
                c['scripts'] = dict(case['scripts'])
                c['scripts'][t] = dict(sc)
                c['scripts'][t][tp] = [True] * len(dec)
                yield c
