"""C11 — tracepoint configuration interpreted as documented, one tracepoint at a time.

Streams
  table     the EXHAUSTIVE abstract argument space (11 keys: absent / each distinguished constant / an unknown text,
            32 768 combinations) x metrics {none, one} on the real build_trigger and on the translated model;
  build     one tracepoint with arbitrary (unicode, odd, extra) keys and values;
  response  random lists of real protobuf TracePointConfig messages through the real convert_response, the result
            INSTALLED in a rig handler and driven with the matching line/call events (3 hits each, scripted clock):
            snapshot pushed / log emitted / metric call / span opened are observed per tracepoint id and per place;
  register  the same tracepoints registered in code (TracepointConfigService.add_custom) and driven the same way.
  scale     the installed-and-driven phase with 40-80 filler tracepoints (service and registered) around same-line pairs
            service+registered / registered+registered: per tracepoint effects as in `register`;
  regodd    registrations OUTSIDE the text-valued domain of the theorems (fire_count None / a list, fire_period inf,
            span a list, stage None, the caller's watches list mutated afterwards): labelled, known-finding candidates
            C11/register-non-text-limit and C11/register-aliases-watches, judged by the statement, not modelled;
  argint    argument VALUES read as integers: odd texts (' 3 ', non-ASCII digits, '1_0', '+2', '1e3', ''), None, bool, int,
            float, nan, inf, other objects through the real TracePointConfig.get_arg_int / fire_count and
            LocationAction.fire_count / fire_period, against the translated get_arg_int / __get_int and an int()-free
            reference;
  redeliver multi-action tracepoints x a SECOND UPDATE response that still contains them (same set / others added or
            removed / reordered) x hits after (and, where it cannot matter, before) the re-delivery, through the real
            convert_response + update_new_config; every action judged on its own fire count / fire period;
  both      one tracepoint through BOTH paths (convert_response of its protobuf message / add_custom): the same trigger;
  providers ONE tracepoint with 2-4 metric definitions, installed (from a response or registered) beside 2-3 recording
            metric providers, some of which RAISE for some definitions (the first, a middle one, the last, several):
            "one metric per metric definition" is judged per (definition, provider) pair.
The oracle is the table of the property statement written here in Python (spec_trigger / expected effects), it does
not call the model.
"""
import json
import struct
import sys

INT_DIGIT_LIMIT = sys.get_int_max_str_digits()     # taken BEFORE any agent code is imported (the setting is process-wide)

import core
from rig import Rig, MockFrame

ID = 'C11'
EXTRACT = ['trigger_table', 'tp_args']
LEAN_TARGETS = ['DeepModel.Props.C11']
AUDIT = 'DeepModel/Audit/C11.lean'
DRIVER = 'DeepModel/Driver/C11.lean'
EXHAUSTIVE = True
CHUNK = 1024
BUDGET = {'quick': 64 + 600, 'thorough': 64 + 30000}
TIME = {'quick': 70, 'thorough': 800}
RULE = ('table: every combination of stage{absent,6 stages,unknown} x method_name{absent,given} x span{absent,line,method,'
        'unknown} x snapshot{absent,collect,no_collect,unknown} x log_msg x condition x fire_count x fire_period x '
        'frame_type x stack_type x an unread key {absent,given} = 32768 argument maps, each with and without a metric definition, in '
        'chunks of 1024 (exhaustive every run). build: single tracepoints with arbitrary unicode/odd/extra keys. '
        'response/register: 1-7 tracepoints over 2 files x 3 lines x 2 methods (so locations collide), own condition '
        '(true/false/raising/absent), fire_count, fire_period, watches, 0-2 metric definitions with static/expression '
        'labels, unknown stages mixed in; installed and driven 3 times per place with a scripted clock. Non-trivial = '
        'two tracepoints share a location or an uninterpretable tracepoint sits next to interpretable ones. redeliver: 1-4 tracepoints, at least one '
        'with 2-4 actions (snapshot/log + metrics + span), delivered in two UPDATE responses (second: same set, added, removed, '
        'reordered), 0-2 hits before (only when a reset of the limits at the re-delivery could not change what is asked for) and 1-3 hits after the re-delivery; per action effects '
        'against that action\'s own limits; non-trivial = a tracepoint asks for two or more kinds of effect after the re-delivery. both: one '
        'tracepoint from a response and registered in code must give the same trigger (theorem c11_registered_as_service). providers: one '
        'tracepoint with 2-4 metric definitions and 2-3 metric providers of which 0-2 raise for 1-2 definitions each '
        '(first / middle / last), from a response or registered, driven once or twice: every (definition, provider) '
        'pair must be called exactly once per collection, the raising call included; non-trivial = some provider '
        'raises for a definition that is not the last. Distinct = distinct canonical JSON of the case.')
TRUSTED = ['protobuf runtime: a TracePointConfig built from the case, serialised and parsed (what convert_response is '
           'given), reads back the same args/watches/metrics',
           'rig.MockFrame events stand for CPython line/call events (location matching itself is C03)']
ASSUMPTIONS = ['argument values that are neither text nor numbers (None, an infinite float, other objects — possible only '
               'through register_tracepoint, whose args are typed Dict[str, str]) make int() raise TypeError/OverflowError, which '
               'the agent does not catch in fire_count/fire_period: modelled as an outcome and compared with the model, not judged',
               'START/END/CAPTURE positions are not interpreted by the agent (DESIGN §6); two tracepoints on one line '
               'with different stages share one trigger and the first position',
               'a method-stage tracepoint without method_name sits on the same driven files as the others; the frames have '
               'no source on disk (mock frames, like code compiled from a string), so it can never match: it is expected '
               'to produce nothing itself and every other tracepoint of the file must still act (fix f435761)',
               'method names are identifiers (an all-digit method_name would share the id of a line location: '
               'theorem c11_id_clash_witness)']

KEYS = [
    ['stage', [None, 'line_start', 'line_end', 'line_capture', 'method_start', 'method_end', 'method_capture', 'bogus']],
    ['method_name', [None, 'fn']],
    ['span', [None, 'line', 'method', 'other']],
    ['snapshot', [None, 'collect', 'no_collect', 'other']],
    ['log_msg', [None, 'msg {x}']],
    ['condition', [None, 'c()']],
    ['fire_count', [None, '5']],
    ['fire_period', [None, '7']],
    ['frame_type', [None, 'all_frame']],
    ['stack_type', [None, 'no_stack']],
    ['window_start', [None, '5']],          # a key none of the builders reads: must change nothing
]
SPACE = 1
for _k, _vs in KEYS:
    SPACE *= len(_vs)
assert SPACE == 32768

LINE_STAGES = ('line_start', 'line_end', 'line_capture')
METHOD_STAGES = ('method_start', 'method_end', 'method_capture')
POS = {'line_start': 'START', 'method_start': 'START', 'line_end': 'END', 'method_end': 'END',
       'line_capture': 'CAPTURE', 'method_capture': 'CAPTURE'}
ONE_METRIC = [{'name': 'm', 'type': 0, 'labels': [{'key': 'k', 'static': {'str': 'v'}, 'expression': ''}],
               'expression': '', 'namespace': '', 'help': '', 'unit': ''}]


def decode_args(idx, keys=KEYS):
    args = {}
    for k, vs in keys:
        v = vs[idx % len(vs)]
        idx //= len(vs)
        if v is not None:
            args[k] = v
    return args


# ------------------------------------------------------------------------------------- the statement, in Python
def ref_int(text, default):
    try:
        return int(text)
    except ValueError:
        return default


def convertible(tp):
    """the metric types are an OPEN enum: a number outside COUNTER..SUMMARY cannot be converted by this version"""
    return all(0 <= m['type'] <= 3 for m in tp['metrics'])


def spec_location(tp):
    if not convertible(tp):
        return None                  # a tracepoint the agent cannot convert is installed nowhere (and costs only itself)
    a = tp['args']
    stage = a.get('stage')
    if stage is None:
        stage = 'method_start' if ('method_name' in a or a.get('span') == 'method') else 'line_start'
    if stage in LINE_STAGES:
        return {'kind': 'line', 'path': tp['path'], 'line': tp['line'], 'pos': POS[stage]}
    if stage in METHOD_STAGES:
        return {'kind': 'method', 'path': tp['path'], 'name': a.get('method_name'), 'pos': POS[stage]}
    return None


def spec_metric(m):
    """definition as the agent must see it: name, type NAME, labels, expression, namespace, help, unit"""
    return {'name': m['name'], 'type': ['COUNTER', 'GAUGE', 'HISTOGRAM', 'SUMMARY'][m['type']],
            'labels': [{'key': lb['key'], 'static': lb['static'], 'expression': lb['expression']} for lb in m['labels']],
            'expression': m['expression'], 'namespace': m['namespace'], 'help': m['help'], 'unit': m['unit']}


def spec_actions(tp):
    a = tp['args']
    limits = {'fire_count': a.get('fire_count', '1'), 'fire_period': a.get('fire_period', '1000')}
    cond = a.get('condition')
    out = []
    collects = a.get('snapshot') != 'no_collect'
    if collects:
        out.append({'type': 'Snapshot', 'id': tp['id'], 'cond': cond,
                    'cfg': dict(limits, watches=list(tp['watches']), frame_type=a.get('frame_type', 'single_frame'),
                                stack_type=a.get('stack_type', 'stack'), log_msg=a.get('log_msg'))})
    elif 'log_msg' in a:
        out.append({'type': 'Log', 'id': tp['id'], 'cond': cond, 'cfg': dict(limits, log_msg=a['log_msg'])})
    if tp['metrics']:
        out.append({'type': 'Metric', 'id': tp['id'], 'cond': cond,
                    'cfg': dict(limits, metrics=[spec_metric(m) for m in tp['metrics']])})
    if 'span' in a:
        out.append({'type': 'Span', 'id': tp['id'], 'cond': cond, 'cfg': dict(limits, span=a['span'])})
    return out


def loc_id(loc):
    return '%s#%s' % (loc['path'], loc['line'] if loc['kind'] == 'line' else loc['name'])


def spec_trigger(tp):
    loc = spec_location(tp)
    if loc is None:
        return None
    return {'id': loc_id(loc), 'loc': loc, 'actions': spec_actions(tp)}


def place_of(loc):
    return [loc['kind'], loc['path'], loc['line'] if loc['kind'] == 'line' else loc['name']]


def act_key(a):
    return (a['id'], a['type'])


def norm_trigger(t, with_pos=True):
    if t is None:
        return None
    loc = dict(t['loc'])
    if not with_pos:
        loc.pop('pos', None)
    return {'id': t['id'], 'loc': loc, 'actions': sorted(t['actions'], key=act_key)}


def spec_response(tps):
    """tracepoints on the same place share one trigger holding all their actions; uninterpretable ones are absent"""
    groups = {}
    for tp in tps:
        t = spec_trigger(tp)
        if t is None:
            continue
        key = json.dumps(place_of(t['loc']))
        if key in groups:
            groups[key]['actions'] += t['actions']
        else:
            groups[key] = t
    return list(groups.values())


def limiter(fire_count, fire_period, tss):
    cnt, per = ref_int(fire_count, 1), ref_int(fire_period, 1000)
    made, last = 0, None
    for ts in tss:
        if (cnt == -1 or made < cnt) and (last is None or ts - last >= per * 1_000_000):
            made += 1
            last = ts
    return made


def phase_tss(place, phase):
    return place['tss'] if phase == 0 else place['more'][phase - 1]


def live_after(case, phase):
    """indices of the tracepoints that must act in `phase`: everything not unregistered so far"""
    gone = set(case.get('unregs', [])[:phase])
    return [i for i in range(len(case['tps'])) if i not in gone]


def expected_effects(case, phase=0, hist=None, live=None):
    """per driven place, per tracepoint index: how many snapshots / log lines / metric calls / spans.
    `hist[i]`: the hits tracepoint i has already seen while installed (its limits go on counting)"""
    out = []
    hist = hist if hist is not None else {}
    live = live_after(case, phase) if live is None else live
    for place in case['places']:
        per = {}
        for i, tp in enumerate(case['tps']):
            loc = spec_location(tp)
            if i not in live or loc is None or place_of(loc) != place['place']:
                continue
            a = tp['args']
            cond = case['conds'][i]
            before = hist.get(i, [])
            now = before + list(phase_tss(place, phase))
            fc, fp = a.get('fire_count', '1'), a.get('fire_period', '1000')
            fires = (limiter(fc, fp, now) - limiter(fc, fp, before)) if cond in (None, 'true') else 0
            hist[i] = now
            collects = a.get('snapshot') != 'no_collect'
            e = {'snap': fires if collects else 0, 'log': fires if 'log_msg' in a else 0,
                 'metric': fires * len(tp['metrics']), 'span': fires if 'span' in a else 0}
            if any(e.values()):
                per[str(i)] = e
        out.append(per)
    return out


# ------------------------------------------------------------------------------------- running the real code
def static_dump(v):
    if v is None:
        return None
    if isinstance(v, bool):
        return {'bool': v}
    if isinstance(v, str):
        return {'str': v}
    if isinstance(v, int):
        return {'int': v}
    if isinstance(v, float):
        return {'dbl': struct.unpack('>Q', struct.pack('>d', v))[0]}
    if isinstance(v, bytes):
        return {'bytes': list(v)}
    return {'msg': type(v).__name__}


def dump_metric(m):
    return {'name': m.name, 'type': m.type,
            'labels': [{'key': lb.key, 'static': static_dump(lb.static), 'expression': lb.expression} for lb in m.labels],
            'expression': m.expression, 'namespace': m.namespace, 'help': m.help, 'unit': m.unit}


def dump_cfg(v):
    if isinstance(v, list):
        return [dump_metric(x) if not isinstance(x, str) else x for x in v]
    return v


def dump_trigger(t):
    from deep.api.tracepoint.trigger import LineLocation, FunctionLocation
    if t is None:
        return None
    loc = t._Trigger__location
    if isinstance(loc, LineLocation):
        ld = {'kind': 'line', 'path': loc.path, 'line': loc.line, 'pos': loc.position.name}
    elif isinstance(loc, FunctionLocation):
        ld = {'kind': 'method', 'path': loc.path, 'name': loc.name, 'pos': loc.position.name}
    else:
        ld = {'kind': type(loc).__name__}
    acts = [{'type': a.action_type.name, 'id': a.id, 'cond': a.condition,
             'cfg': {k: dump_cfg(v) for k, v in a.config.items()}} for a in t._Trigger__actions]
    return {'id': t.id, 'loc': ld, 'actions': acts}


def proto_metric(m):
    from deepproto.proto.tracepoint.v1.tracepoint_pb2 import Metric, LabelExpression
    from deepproto.proto.common.v1.common_pb2 import AnyValue
    labels = []
    for lb in m['labels']:
        st = lb['static']
        if st is None:
            labels.append(LabelExpression(key=lb['key'], expression=lb['expression']))
        else:
            (k, v), = st.items()
            if k == 'dbl':
                av = AnyValue(double_value=struct.unpack('>d', struct.pack('>Q', v))[0])
            elif k == 'bytes':
                av = AnyValue(bytes_value=bytes(v))
            else:
                av = AnyValue(**{{'str': 'string_value', 'bool': 'bool_value', 'int': 'int_value'}[k]: v})
            labels.append(LabelExpression(key=lb['key'], static=av))
    kw = {}
    for f in ('expression', 'namespace', 'help', 'unit'):
        if m[f] != '':
            kw[f] = m[f]
    return Metric(name=m['name'], type=m['type'], labelExpressions=labels, **kw)


def fresh(x):
    """the same text as a NEW str object built at run time — what the agent gets from the wire or from computed
    configuration; never the interned literal of a source file (so `is` against a constant cannot pass by accident)"""
    if isinstance(x, str):
        return ''.join(list(x)) if len(x) > 1 else x
    if isinstance(x, dict):
        return {fresh(k): fresh(v) for k, v in x.items()}
    if isinstance(x, list):
        return [fresh(v) for v in x]
    return x


def proto_tp(tp):
    """the tracepoint as the agent receives it: a protobuf message PARSED from bytes (serialise -> parse)"""
    from deepproto.proto.tracepoint.v1.tracepoint_pb2 import TracePointConfig
    m = TracePointConfig(ID=tp['id'], path=tp['path'], line_number=tp['line'], args=tp['args'],
                         watches=tp['watches'], metrics=[proto_metric(m) for m in tp['metrics']])
    return TracePointConfig.FromString(m.SerializeToString())


def real_metrics(ms):
    import deep.grpc as g
    return getattr(g, '__convert_metric_definition')([proto_metric(m) for m in ms])


def run_table(case):
    from deep.api.tracepoint.trigger import build_trigger
    rows = []
    ms = ONE_METRIC if case['metrics'] else []
    for idx in range(case['lo'], case['hi']):
        args = fresh(decode_args(idx))
        try:
            rows.append(dump_trigger(build_trigger('tp', 'host.py', 7, args, list(case['watches']), real_metrics(ms))))
        except Exception as e:  # noqa: B902
            rows.append({'raised': f'{type(e).__name__}: {e}'})
    return {'rows': rows}


def run_build(case):
    from deep.api.tracepoint.trigger import build_trigger
    tp = case['tp']
    try:
        return {'trigger': dump_trigger(build_trigger(fresh(tp['id']), fresh(tp['path']), tp['line'], fresh(tp['args']),
                                                      list(tp['watches']), real_metrics(tp['metrics'])))}
    except Exception as e:  # noqa: B902
        return {'raised': f'{type(e).__name__}: {e}'}


class Inline:
    """task handler that runs the listener update inline (the thread pool is C09/C12's subject)"""

    def submit_task(self, fn, *a):
        fn(*a)

        class Done:
            def add_done_callback(self, cb):
                pass
        return Done()


def frame_for(place, locals_):
    kind, path, what = place
    caller = MockFrame('/app/caller.py', 'caller_fn', 3, {'outer_v': 1, 'outer_w': 'two'})    # a second frame
    if kind == 'line':
        return MockFrame('/app/' + path, 'host_fn', what, dict(locals_), f_back=caller), 'line'
    return MockFrame('/app/' + path, what, 1, dict(locals_), f_back=caller), 'call'


def drive(rig, case, id_to_idx, phase=0):
    """drive every place `hits` times; returns per place {tp index: effect counts} + first snapshot details"""
    locals_ = {'x': 5, 'y': [1, 2]}
    for i, c in enumerate(case['conds']):
        locals_['c%d' % i] = (c == 'true')
    effects, snaps = [], {}
    for place in case['places']:
        per = {}

        def bump(tpid, kind, n=1):
            i = id_to_idx.get(tpid)
            key = str(i) if i is not None else 'unknown:' + str(tpid)
            per.setdefault(key, {'snap': 0, 'log': 0, 'metric': 0, 'span': 0})[kind] += n
        for ts in phase_tss(place, phase):
            rig.clock = ts
            n_push, n_log = len(rig.push.pushed), len(rig.logger.logged)
            n_met, n_span = len(rig.metric.calls), len(rig.span.events)
            frame, event = frame_for(place['place'], locals_)
            rig.handler.trace_call(frame, event, None)
            for s in rig.push.pushed[n_push:]:
                bump(s.tracepoint.id, 'snap')
                i = id_to_idx.get(s.tracepoint.id)
                if i is not None and str(i) not in snaps:
                    snaps[str(i)] = {'watches': [w.expression for w in s.watches if w.source == 'WATCH'],
                                     'log': s.log_msg is not None,
                                     'frame_vars': [len(f.variables) > 0 for f in s.frames],
                                     'place': [s.tracepoint.path, s.tracepoint.line_no]}
            for (_msg, tpid, _ctx) in rig.logger.logged[n_log:]:
                bump(tpid, 'log')
            for c in rig.metric.calls[n_met:]:
                bump(c[1], 'metric')            # metric names are unique per tracepoint (id_to_idx maps them)
            for e in rig.span.events[n_span:]:
                if e[0] == 'open':
                    bump(e[3], 'span')
            # let line / method spans close: next line of the same function, or its return
            if event == 'line':
                rig.handler.trace_call(MockFrame('/app/' + place['place'][1], 'host_fn', 900000, dict(locals_)),
                                       'line', None)
            else:
                rig.handler.trace_call(MockFrame('/app/' + place['place'][1], place['place'][2], 2, dict(locals_)),
                                       'return', None)
        effects.append({k: v for k, v in per.items() if any(v.values())})
    return effects, snaps


class ClockedRig(Rig):
    """the frame collector measures its time budget with its own time_ns: give it the scripted clock too, otherwise
    every scripted (small) time stamp looks like an exceeded budget and no variables are collected"""

    def __init__(self, **kw):
        import deep.processor.frame_collector as fc
        super().__init__(**kw)
        self._fc, self._fc_orig = fc, fc.time_ns
        fc.time_ns = self._now

    def close(self):
        self._fc.time_ns = self._fc_orig
        super().close()


def run_response(case):
    import deep.grpc as g
    rig = ClockedRig(metric=True, span=True)
    try:
        try:
            triggers = g.convert_response([proto_tp(tp) for tp in case['tps']])
        except Exception as e:  # noqa: B902
            return {'raised': f'convert_response: {type(e).__name__}: {e}'}
        obs = {'triggers': [dump_trigger(t) for t in triggers]}
        rig.install(triggers)
        id_to_idx = {tp['id']: i for i, tp in enumerate(case['tps'])}
        id_to_idx.update(case['metric_owner_idx'])
        try:
            obs['effects'], obs['snaps'] = drive(rig, case, id_to_idx)
        except BaseException as e:  # noqa: B902
            obs['raised'] = f'trace_call: {type(e).__name__}: {e}'
        return obs
    finally:
        rig.close()


def run_register(case):
    rig = ClockedRig(metric=True, span=True)
    try:
        svc = rig.config.tracepoints
        svc.set_task_handler(Inline())
        import deep.grpc as g
        id_to_idx = dict(case['metric_owner_idx'])
        service = list(case.get('service', []))
        rid_of = {}
        try:
            if service:          # tracepoints that came from the service stay installed beside the registrations
                svc.update_new_config(1, 'h1', g.convert_response([proto_tp(case['tps'][i]) for i in service]))
                for i in service:
                    id_to_idx[case['tps'][i]['id']] = i
            for i, tp in enumerate(case['tps']):
                if i in service:
                    continue
                rid = svc.add_custom(fresh(tp['path']), tp['line'], fresh(tp['args']), fresh(tp['watches']),
                                     real_metrics(tp['metrics']))
                id_to_idx[rid] = i
                rid_of[i] = rid
        except Exception as e:  # noqa: B902
            return {'raised': f'add_custom: {type(e).__name__}: {e}'}
        idx_of = {rid: i for rid, i in id_to_idx.items()}

        def custom_dump():
            trigs = []
            for t in list(svc._custom):
                d = dump_trigger(t)
                if d is not None:
                    for a in d['actions']:
                        a['id'] = case['tps'][idx_of[a['id']]]['id'] if a['id'] in idx_of else a['id']
                trigs.append(d)
            return trigs
        obs = {'triggers': custom_dump()}
        try:
            obs['effects'], obs['snaps'] = drive(rig, case, id_to_idx)
        except BaseException as e:  # noqa: B902
            obs['raised'] = f'trace_call: {type(e).__name__}: {e}'
            return obs
        phases = []
        for p, u in enumerate(case.get('unregs', []), 1):
            ph = {'unregistered': u}
            try:
                svc.remove_custom(rid_of[u])           # what TracepointRegistration.unregister() does
            except BaseException as e:  # noqa: B902
                ph['raised'] = f'unregister: {type(e).__name__}: {e}'
                phases.append(ph)
                break
            ph['triggers'] = custom_dump()
            try:
                ph['effects'], _ = drive(rig, case, id_to_idx, p)
            except BaseException as e:  # noqa: B902
                ph['raised'] = f'trace_call: {type(e).__name__}: {e}'
            phases.append(ph)
        if phases:
            obs['phases'] = phases
        return obs
    finally:
        rig.close()


def run_providers(case):
    """one tracepoint with several metric definitions, several metric providers, some calls raising"""
    import deep.grpc as g
    from deep.api.plugin.metric import MetricProcessor
    fail = {(p, m) for p, m in case['fail']}
    names = [m['name'] for m in case['tp']['metrics']]

    class Provider(MetricProcessor):
        def __init__(self, idx):
            super().__init__(name='provider%d' % idx)
            self.idx, self.attempts, self.done = idx, [], []

        def _call(self, op, name, *a):
            self.attempts.append([op, name])
            if name in names and (self.idx, names.index(name)) in fail:
                raise ValueError('Duplicated timeseries in CollectorRegistry: %s' % name)
            self.done.append([op, name])

        def counter(self, name, *a): self._call('counter', name, *a)
        def gauge(self, name, *a): self._call('gauge', name, *a)
        def histogram(self, name, *a): self._call('histogram', name, *a)
        def summary(self, name, *a): self._call('summary', name, *a)

    provs = [Provider(i) for i in range(case['providers'])]
    rig = ClockedRig(plugins=provs)
    try:
        svc = rig.config.tracepoints
        svc.set_task_handler(Inline())
        tp = case['tp']
        try:
            if case['via'] == 'register':
                svc.add_custom(fresh(tp['path']), tp['line'], fresh(tp['args']), fresh(tp['watches']),
                               real_metrics(tp['metrics']))
            else:
                svc.update_new_config(1, 'h1', g.convert_response([proto_tp(tp)]))
        except Exception as e:  # noqa: B902
            return {'raised': f'install: {type(e).__name__}: {e}'}
        obs = {}
        try:
            for ts in case['tss']:
                rig.clock = ts
                frame, event = frame_for(['line', tp['path'], tp['line']], {'x': 5, 'y': [1, 2]})
                rig.handler.trace_call(frame, event, None)
        except BaseException as e:  # noqa: B902
            obs['raised'] = f'trace_call: {type(e).__name__}: {e}'
        obs['attempts'] = [p.attempts for p in provs]
        obs['done'] = [p.done for p in provs]
        obs['snaps'] = len(rig.push.pushed)
        return obs
    finally:
        rig.close()


def type_name_of(m):
    """the type TEXT a registration in code writes: the case's own `type_name`, else the documented name of the number"""
    return m['type_name'] if 'type_name' in m else ['COUNTER', 'GAUGE', 'HISTOGRAM', 'SUMMARY'][m['type'] % 4]


def raw_definitions(ms):
    """READY-MADE MetricDefinition objects, as a program calling register_tracepoint builds them — NOT through the
    service's protobuf converter (the register path has no enum conversion)"""
    from deep.api.tracepoint.tracepoint_config import MetricDefinition, LabelExpression
    out = []
    for m in ms:
        labels = []
        for lb in m['labels']:
            st = lb['static']
            if st is not None:
                (k, v), = st.items()
                st = struct.unpack('>d', struct.pack('>Q', v))[0] if k == 'dbl' else bytes(v) if k == 'bytes' else v
            labels.append(LabelExpression(lb['key'], st, lb['expression']))
        out.append(MetricDefinition(m['name'], type_name_of(m), labels, m['expression'], m['namespace'], m['help'],
                                    m['unit']))
    return out


def spec_trigger_code(tp):
    """the table for a registration: the definitions are taken as given (type TEXT included), nothing is converted"""
    t = spec_trigger(dict(tp, metrics=[dict(m, type=0) for m in tp['metrics']]))
    if t is not None:
        for a in t['actions']:
            if a['type'] == 'Metric':
                for d, m in zip(a['cfg']['metrics'], tp['metrics']):
                    d['type'] = type_name_of(m)
    return t


def run_both(case):
    """the same tracepoint once from a poll response, once registered in code"""
    import deep.grpc as g
    tp = case['tp']
    rig = ClockedRig()
    try:
        svc = rig.config.tracepoints
        svc.set_task_handler(Inline())
        obs = {}
        try:
            obs['service'] = [dump_trigger(t) for t in g.convert_response([proto_tp(tp)])]
        except Exception as e:  # noqa: B902
            obs['service'] = {'raised': f'{type(e).__name__}: {e}'}
        try:
            rid = svc.add_custom(fresh(tp['path']), tp['line'], fresh(tp['args']), fresh(tp['watches']),
                                 raw_definitions(tp['metrics']))
            code = [dump_trigger(t) for t in list(svc._custom)]
            for d in code:
                for a in (d or {}).get('actions', []):
                    if a['id'] == rid:
                        a['id'] = tp['id']
            obs['code'] = code
        except Exception as e:  # noqa: B902
            obs['code'] = {'raised': f'{type(e).__name__}: {e}'}
        return obs
    finally:
        rig.close()


def run_redeliver(case):
    """two UPDATE poll responses through the real convert_response + TracepointConfigService.update_new_config (what
    LongPoll.poll does), hits after each: a tracepoint that is still in the second response keeps ALL its actions, each
    with its own fire count / fire period"""
    import deep.grpc as g
    rig = ClockedRig(metric=True, span=True)
    try:
        svc = rig.config.tracepoints
        svc.set_task_handler(Inline())
        id_to_idx = {tp['id']: i for i, tp in enumerate(case['tps'])}
        id_to_idx.update(case['metric_owner_idx'])
        obs = {'phases': []}
        kept = []           # (trigger object, its action objects) of every conversion so far — references held, so ids stay unique
        for p, which in enumerate((case['first'], case['second'])):
            try:
                triggers = g.convert_response([proto_tp(case['tps'][i]) for i in which])
                if p == 1:
                    obs['triggers'] = [dump_trigger(t) for t in triggers]
                    # aliasing probe: the second conversion shares no Trigger and no action OBJECT with the first, and
                    # has not changed what the first one's triggers hold (merge_actions mutates its receiver)
                    old_t = {id(t) for t, _ in kept}
                    old_a = {id(a) for _, acts in kept for a in acts}
                    obs['alias'] = {
                        'shared_triggers': sum(1 for t in triggers if id(t) in old_t),
                        'shared_actions': sum(1 for t in triggers for a in t.actions if id(a) in old_a),
                        'first_changed': sum(1 for t, acts in kept if [id(a) for a in t.actions] != [id(a) for a in acts])}
                kept += [(t, list(t.actions)) for t in triggers]
                svc.update_new_config(p + 1, 'h%d' % (p + 1), triggers)
            except Exception as e:  # noqa: B902
                obs['raised'] = f'UPDATE response {p + 1}: {type(e).__name__}: {e}'
                return obs
            try:
                eff, _ = drive(rig, case, id_to_idx, p)
            except BaseException as e:  # noqa: B902
                obs['raised'] = f'trace_call after UPDATE response {p + 1}: {type(e).__name__}: {e}'
                return obs
            obs['phases'].append(eff)
        # … and driving the second configuration has not grown the first one's triggers either
        obs['alias']['first_changed_after_hits'] = sum(
            1 for t, acts in kept if [id(a) for a in t.actions] != [id(a) for a in acts])
        return obs
    finally:
        rig.close()


def redeliver_expected(case, reset):
    """per phase, per place, per tracepoint: the effects its arguments ask for.  `reset`: the second delivery starts the
    limits of a still-present tracepoint afresh (what the agent does today, known finding C04/update-resets-count) or
    not (the statement's reading) — the generator only emits cases on which both readings ask for the same"""
    hist = {}
    e0 = expected_effects(case, 0, hist, live=list(case['first']))
    if reset:
        hist = {}
    else:
        hist = {i: h for i, h in hist.items() if i in case['second']}
    e1 = expected_effects(case, 1, hist, live=list(case['second']))
    return [e0, e1]


# ---- argument values read as integers -------------------------------------------------------------------------------
def dec_val(e):
    if e is None:
        return None
    if e == 'nan':
        return float('nan')
    if e == 'inf':
        return float('inf')
    if e == 'other':
        return ['a', 'list']
    (k, v), = e.items()
    if k == 'float':
        return v['value']
    return v


def model_val(e):
    """how the value is described to the model: a finite float by its truncation (math.trunc, not int())"""
    import math
    if isinstance(e, dict) and 'float' in e:
        return {'float': math.trunc(e['float']['value'])}
    return e


def compact_int(v):
    """integers stay themselves up to 50 digits; huge ones become a short text (a replay file must stay loadable: json
    refuses integer literals beyond the interpreter's digit limit)"""
    if isinstance(v, int) and not isinstance(v, bool) and abs(v) >= 10 ** 50:
        return 'big:%s%d bits:%09d' % ('-' if v < 0 else '', abs(v).bit_length(), abs(v) % 10 ** 9)
    return v


def compact_out(o):
    return {'ok': compact_int(o['ok'])} if isinstance(o, dict) and 'ok' in o else o


def outcome(fn):
    try:
        v = fn()
        if isinstance(v, bool) or not isinstance(v, int):
            return {'value': repr(v)}
        return {'ok': compact_int(v)}
    except Exception as e:  # noqa: B902
        return {'raised': type(e).__name__}


def val_dump(v):
    if v is None:
        return None
    if isinstance(v, bool):
        return {'bool': v}
    if isinstance(v, str):
        return {'str': v}
    if isinstance(v, int):
        return {'int': v}
    if isinstance(v, float):
        import math
        return 'nan' if v != v else 'inf' if v in (float('inf'), float('-inf')) else {'float': math.trunc(v)}
    if isinstance(v, (list, dict, tuple, set)) or type(v) is object:
        return 'other'
    return 'unmodelled'              # bytes, Decimal, Fraction, objects with their own __int__: not in the model's ArgVal


def run_argint(case):
    from deep.api.tracepoint.tracepoint_config import TracePointConfig
    from deep.api.tracepoint.trigger import LocationAction
    args = {k: dec_val(e) for k, e in case['args'].items()}
    tp = TracePointConfig('tp', 'host.py', 7, dict(args), [], [])
    act = LocationAction('tp', None, dict(args), LocationAction.ActionType.Snapshot)
    return {'get_arg_int': outcome(lambda: tp.get_arg_int(case['name'], case['default'])),
            'tp_fire_count': outcome(lambda: tp.fire_count),
            'loc_fire_count': outcome(lambda: act.fire_count),
            'loc_fire_period': outcome(lambda: act.fire_period),
            'tp_frame_type': val_dump(tp.frame_type), 'tp_condition': val_dump(tp.condition)}


INT_TEXT = None


def ref_int_of(e, default):
    """the statement's reading, written without int(): integer TEXT (optional sign, decimal digits of any script with
    single underscores between digits, surrounding white space) is that integer, bool/int/finite float are numbers,
    anything else that is text or NaN is unparsable -> the default; None / infinity / other objects: no number AND no
    text -> 'outside' (the argument type is Dict[str, str]; see ASSUMPTIONS)"""
    import re
    import unicodedata
    global INT_TEXT
    if INT_TEXT is None:
        # white space as int() strips it: the six ASCII ones and the non-ASCII Unicode spaces (NOT \\x1c-\\x1f, which
        # str.isspace() accepts but int() does not)
        ws = '[ \\t\\n\\r\\x0b\\x0c\\x85\\xa0\\u1680\\u2000-\\u200a\\u2028\\u2029\\u202f\\u205f\\u3000]*'
        INT_TEXT = re.compile('^' + ws + r'([+-]?)(\d+(?:_\d+)*)' + ws + '$')
    if e is None or e in ('inf', 'other'):
        return 'outside'
    if e == 'nan':
        return default
    (k, v), = e.items()
    if k == 'bool':
        return 1 if v else 0
    if k == 'int':
        return v
    if k == 'float':
        import math
        return math.trunc(v['value'])
    m = INT_TEXT.match(v)
    if not m or any(unicodedata.decimal(c, None) is None for c in m.group(2) if c != '_'):
        return default
    digits = [c for c in m.group(2) if c != '_']
    limit = INT_DIGIT_LIMIT
    if limit and len(digits) > limit:
        return default               # more decimal digits (leading zeros count) than the interpreter accepts: ValueError
    n = 0
    for c in digits:
        n = n * 10 + unicodedata.decimal(c)
    return -n if m.group(1) == '-' else n


def oracle_argint(case, obs):
    v = []
    for what, key, dflt in (('get_arg_int(%r, %d)' % (case['name'], case['default']), case['name'], case['default']),
                            ('TracePointConfig.fire_count', 'fire_count', 1),
                            ('LocationAction.fire_count', 'fire_count', 1),
                            ('LocationAction.fire_period', 'fire_period', 1000)):
        field = {'g': 'get_arg_int', 'T': 'tp_fire_count'}.get(what[0]) or ('loc_fire_count' if 'count' in what else 'loc_fire_period')
        exp = ref_int_of(case['args'][key], dflt) if key in case['args'] else dflt
        got = obs[field]
        if exp == 'outside':
            if 'ok' in got or 'value' in got:
                v.append(f'{what} of {case["args"].get(key)!r} returned {got}; it is neither a number nor text')
        elif got != {'ok': compact_int(exp)}:
            v.append(f'{what} with {key}={str(case["args"].get(key, "<absent>"))[:80]!r}: {got}, the value asks for {compact_int(exp)} '
                     f'(default {dflt})')
    return v


# ---- registrations OUTSIDE the text-valued domain of the theorems (labelled stream, known-finding candidates) ---------
REGODD = {
    'fire_count_none': ({'fire_count': None}, 'C11/register-non-text-limit'),
    'fire_period_inf': ({'fire_period': float('inf')}, 'C11/register-non-text-limit'),
    'fire_count_list': ({'fire_count': ['2']}, 'C11/register-non-text-limit'),
    'span_list': ({'span': ['method']}, None),
    'stage_none': ({'stage': None}, None),
    'watches_alias': ({}, 'C11/register-aliases-watches'),
}


def run_regodd(case):
    rig = ClockedRig(span=True)
    try:
        svc = rig.config.tracepoints
        svc.set_task_handler(Inline())
        args = dict(REGODD[case['what']][0])
        watches = ['x']
        obs = {}
        try:
            svc.add_custom('host.py', 7, args, watches, [])
        except Exception as e:  # noqa: B902
            return {'raised': f'add_custom: {type(e).__name__}: {e}'}
        if case['what'] == 'watches_alias':
            watches.append('y')               # the caller goes on using ITS list
        obs['installed'] = [[a.action_type.name for a in t._Trigger__actions] for t in svc._custom]
        try:
            for ts in (1000, 2 * 10 ** 9):
                rig.clock = ts
                frame, event = frame_for(['line', 'host.py', 7], {'x': 5, 'y': [1, 2]})
                rig.handler.trace_call(frame, event, None)
                rig.handler.trace_call(MockFrame('/app/host.py', 'host_fn', 900000, {'x': 5}), 'line', None)
        except BaseException as e:  # noqa: B902
            obs['raised'] = f'trace_call: {type(e).__name__}: {e}'
        obs['snaps'] = len(rig.push.pushed)
        obs['watches'] = [[w.expression for w in sn.watches if w.source == 'WATCH'] for sn in rig.push.pushed][:1]
        obs['spans'] = len([e for e in rig.span.events if e[0] == 'open'])
        return obs
    finally:
        rig.close()


def oracle_regodd(case, obs):
    """the statement, read for a registration: the arguments ask for a snapshot with the registration's watches (as
    they were when it was registered), limits that are not integer text behave as the defaults (fire_count 1: the first
    hit collects, the second does not), a span iff `span` is given; an unknown `stage` installs nothing"""
    v = []
    if 'raised' in obs:
        v.append('raised: ' + obs['raised'])
    if 'snaps' not in obs:
        return v
    what = case['what']
    want_snaps = 0 if what == 'stage_none' else 1
    if obs['snaps'] != want_snaps:
        v.append(f'registration with {REGODD[what][0]!r}: {obs["snaps"]} snapshot(s) over two hits, its arguments ask for '
                 f'{want_snaps} (installed actions: {obs["installed"]})')
    if obs['watches'] and obs['watches'][0] != ['x']:
        v.append(f'registered with watches [\'x\']; the snapshot evaluated {obs["watches"][0]} — the caller\'s later append '
                 f'changed the installed tracepoint')
    if what == 'span_list' and obs['spans'] != 1:
        v.append(f'span argument given: {obs["spans"]} spans opened over two hits, the default fire count asks for 1')
    return v


def known_replays():
    return [('C11/register-non-text-limit',
             'register_tracepoint(args={"fire_count": None}): installed, but fire_count raises TypeError at every hit (only '
             'ValueError is caught): the tracepoint never collects and nothing tells the caller',
             {'kind': 'regodd', 'what': 'fire_count_none'}),
            ('C11/register-aliases-watches',
             'add_custom keeps the caller\'s watches LIST (the service path copies it): appending to it afterwards changes the '
             'installed tracepoint', {'kind': 'regodd', 'what': 'watches_alias'})]


def known_finding(case, obs):
    return REGODD[case['what']][1] if case.get('kind') == 'regodd' else None


def run_impl(case):
    k = case['kind']
    if k == 'regodd':
        return run_regodd(case)
    if k == 'argint':
        return run_argint(case)
    if k == 'redeliver':
        return run_redeliver(case)
    if k == 'both':
        return run_both(case)
    if k == 'providers':
        return run_providers(case)
    if k == 'table':
        return run_table(case)
    if k == 'build':
        return run_build(case)
    if k == 'response':
        return run_response(case)
    return run_register(case)


# ------------------------------------------------------------------------------------- judging
def diff_trigger(got, exp, what, with_pos=True):
    if got is not None and 'raised' in got:
        return [f'{what}: build_trigger raised {got["raised"]}']
    g, e = norm_trigger(got, with_pos), norm_trigger(exp, with_pos)
    if g == e:
        return []
    if g is None or e is None:
        return [f'{what}: trigger {"missing" if g is None else "built"} but the arguments say '
                f'{"none (uninterpretable)" if e is None else "one at " + json.dumps(e["loc"])}']
    out = []
    if g['loc'] != e['loc'] or g['id'] != e['id']:
        out.append(f'{what}: placed at {json.dumps(g["loc"])}, arguments say {json.dumps(e["loc"])}')
    ga, ea = {act_key(a): a for a in g['actions']}, {act_key(a): a for a in e['actions']}
    for k in sorted(set(ga) | set(ea)):
        if k not in ga:
            out.append(f'{what}: action {k} missing')
        elif k not in ea:
            out.append(f'{what}: action {k} not asked for')
        elif ga[k] != ea[k]:
            out.append(f'{what}: action {k} is {json.dumps(ga[k], sort_keys=True)} expected '
                       f'{json.dumps(ea[k], sort_keys=True)}')
    if len(g['actions']) != len(e['actions']) and not out:
        out.append(f'{what}: {len(g["actions"])} actions, expected {len(e["actions"])}')
    return out or [f'{what}: differs']


def table_tp(case, idx):
    return {'id': 'tp', 'path': 'host.py', 'line': 7, 'args': decode_args(idx), 'watches': list(case['watches']),
            'metrics': ONE_METRIC if case['metrics'] else []}


def oracle_providers(case, obs):
    v = []
    if 'attempts' not in obs:
        return ['the tracepoint was not installed: ' + obs.get('raised', '?')]
    if 'raised' in obs:
        v.append('handler raised into the host: ' + obs['raised'])
    tp = case['tp']
    fires = limiter(tp['args'].get('fire_count', '1'), tp['args'].get('fire_period', '1000'), case['tss'])
    ops = ['counter', 'gauge', 'histogram', 'summary']
    fail = {(p, m) for p, m in case['fail']}
    for p in range(case['providers']):
        for mi, m in enumerate(tp['metrics']):
            call = [ops[m['type']], m['name']]
            n_att, n_done = obs['attempts'][p].count(call), obs['done'][p].count(call)
            want_done = 0 if (p, mi) in fail else fires
            if n_att != fires or n_done != want_done:
                failing = sorted(tp['metrics'][j]['name'] for q, j in fail if q == p)
                v.append(f'metric definition {mi} of {len(tp["metrics"])} ({call[1]}, {call[0]}): provider {p} was called '
                         f'{n_att} time(s), {n_done} completed; one metric per definition asks for {fires} call(s) '
                         f'({want_done} completing) — provider {p} raises for {failing or "nothing"} only')
        extra = [c for c in obs['attempts'][p] if c not in [[ops[m['type']], m['name']] for m in tp['metrics']]]
        if extra:
            v.append(f'provider {p} received calls no definition asks for: {extra[:3]}')
    if obs.get('snaps') != (fires if tp['args'].get('snapshot') != 'no_collect' else 0):
        v.append(f'{obs.get("snaps")} snapshots, the arguments ask for '
                 f'{fires if tp["args"].get("snapshot") != "no_collect" else 0}')
    return v[:8]


def oracle(case, obs):
    k = case['kind']
    v = []
    if k == 'providers':
        return oracle_providers(case, obs)
    if k == 'argint':
        return oracle_argint(case, obs)
    if k == 'regodd':
        return oracle_regodd(case, obs)
    if k == 'redeliver':
        if 'raised' in obs:
            return ['the configuration was lost / the handler raised: ' + obs['raised']]
        al = obs.get('alias', {})
        if any(al.values()):
            v.append(f'two successive UPDATE responses share objects / a later conversion changed an earlier trigger: {al} '
                     f'(every response must be built anew; merge_actions mutates its receiver)')
        exp = redeliver_expected(case, reset=False)
        names = {'snap': 'snapshot', 'log': 'log line', 'metric': 'metric call', 'span': 'span'}
        for p, (got_p, exp_p) in enumerate(zip(obs['phases'], exp)):
            for place, got_e, exp_e in zip(case['places'], got_p, exp_p):
                for i in sorted(set(got_e) | set(exp_e)):
                    ge, ee = got_e.get(i, {}), exp_e.get(i, {})
                    for kind in ('snap', 'log', 'metric', 'span'):
                        if ge.get(kind, 0) != ee.get(kind, 0):
                            tpd = case['tps'][int(i)] if i.isdigit() else None
                            v.append(f'after UPDATE response {p + 1} (tracepoints {case["second"] if p else case["first"]}, '
                                     f'tracepoint {i} is in both: {tpd is not None and int(i) in case["first"] and int(i) in case["second"]}) '
                                     f'at {place["place"]}: tracepoint {i} '
                                     f'({json.dumps(tpd["args"], sort_keys=True) if tpd else "?"}, {len(tpd["metrics"]) if tpd else "?"} metric '
                                     f'definitions) produced {ge.get(kind, 0)} {names[kind]}(s) over hits at '
                                     f'{phase_tss(place, p)}; that action\'s own fire count / fire period ask for {ee.get(kind, 0)}')
        return v[:8]
    if k == 'both':
        for path in ('service', 'code'):
            exp = spec_trigger(case['tp']) if path == 'service' else spec_trigger_code(case['tp'])
            got = obs[path]
            if isinstance(got, dict):
                v.append(f'{path} path raised: {got["raised"]}')
            elif exp is None:
                if got:
                    v.append(f'{path} path installed an uninterpretable tracepoint: {json.dumps(got)[:200]}')
            elif len(got) != 1:
                v.append(f'{path} path installed {len(got)} triggers for one tracepoint')
            else:
                v += diff_trigger(got[0], exp, 'tracepoint %s' % ('from the service' if path == 'service' else
                                                                   'registered in code'))[:3]
        return v
    if k == 'table':
        for i, row in enumerate(obs['rows']):
            tp = table_tp(case, case['lo'] + i)
            d = diff_trigger(row, spec_trigger(tp), f'args {json.dumps(tp["args"], sort_keys=True)}')
            if d:
                v += d[:2]
                if len(v) > 6:
                    break
        return v
    if k == 'build':
        if 'raised' in obs:
            return ['build_trigger raised ' + obs['raised']]
        return diff_trigger(obs['trigger'], spec_trigger(case['tp']), 'tracepoint')
    if 'raised' in obs and 'triggers' not in obs:
        return ['the whole configuration was lost: ' + obs['raised']]
    if k == 'response':
        exp = sorted(spec_response(case['tps']), key=lambda t: t['id'])
        got = sorted([t for t in obs['triggers']], key=lambda t: t['id'])
        if [t['id'] for t in got] != [t['id'] for t in exp]:
            v.append(f'installed locations {[t["id"] for t in got]}, the response asks for {[t["id"] for t in exp]}')
        else:
            for g, e in zip(got, exp):
                v += diff_trigger(g, e, 'location ' + e['id'], with_pos=False)[:3]
    else:
        exp = [spec_trigger(tp) for i, tp in enumerate(case['tps']) if i not in case.get('service', [])]
        exp = [t for t in exp if t is not None]
        got = obs['triggers']
        if None in got:
            v.append('an uninterpretable registration was installed as None')
        got = [t for t in got if t is not None]
        if len(got) != len(exp):
            v.append(f'{len(got)} registrations installed, {len(exp)} are interpretable')
        else:
            for g, e in zip(got, exp):
                v += diff_trigger(g, e, 'registration ' + e['id'])[:3]
    if 'raised' in obs:
        v.append('handler raised into the host: ' + obs['raised'])
        return v
    exp_eff = expected_effects(case)
    for place, got_e, exp_e in zip(case['places'], obs['effects'], exp_eff):
        if got_e != exp_e:
            for i in sorted(set(got_e) | set(exp_e)):
                if got_e.get(i) != exp_e.get(i):
                    tpd = case['tps'][int(i)] if i.isdigit() else None
                    v.append(f'at {place["place"]} tracepoint {i} '
                             f'({json.dumps(tpd["args"], sort_keys=True) if tpd else "?"}, condition '
                             f'{case["conds"][int(i)] if tpd else "?"}) produced {got_e.get(i)}, its arguments ask for '
                             f'{exp_e.get(i)} over hits at {place["tss"]}')
    hist = {}
    expected_effects(case, 0, hist)
    for p, ph in enumerate(obs.get('phases', []), 1):
        what = f'after unregistering tracepoint {ph["unregistered"]}'
        if 'raised' in ph and 'triggers' not in ph:
            v.append(f'{what}: {ph["raised"]}')
            break
        live = live_after(case, p)
        exp_t = [spec_trigger(case['tps'][i]) for i in live if i not in case.get('service', [])]
        exp_t = [t for t in exp_t if t is not None]
        got_t = [t for t in ph['triggers'] if t is not None]
        if [norm_trigger(t) for t in got_t] != [norm_trigger(t) for t in exp_t]:
            v.append(f'{what}: installed registrations are tracepoints '
                     f'{[sorted(set(a["id"] for a in t["actions"])) for t in got_t]}, the live ones are '
                     f'{[sorted(set(a["id"] for a in t["actions"])) for t in exp_t]}')
        if 'raised' in ph:
            v.append(f'{what}: handler raised into the host: {ph["raised"]}')
            break
        exp_e = expected_effects(case, p, hist)
        for place, got_e, ex in zip(case['places'], ph['effects'], exp_e):
            for i in sorted(set(got_e) | set(ex)):
                if got_e.get(i) != ex.get(i):
                    v.append(f'{what}: at {place["place"]} tracepoint {i} produced {got_e.get(i)}, expected {ex.get(i)} '
                             f'(live: {live})')
    for i, s in obs.get('snaps', {}).items():
        tp = case['tps'][int(i)]
        if s['watches'] != list(tp['watches']):
            v.append(f'snapshot of tracepoint {i} evaluated watches {s["watches"]}, its own are {tp["watches"]}')
        if s['log'] != ('log_msg' in tp['args']):
            v.append(f'snapshot of tracepoint {i}: log message present={s["log"]}, args {tp["args"]}')
        ft = tp['args'].get('frame_type', 'single_frame')
        want = [True, True] if ft == 'all_frame' else [False, False] if ft == 'no_frame' else [True, False]
        if s.get('frame_vars') != want:
            v.append(f'snapshot of tracepoint {i} with frame_type={ft!r}: variables collected per frame '
                     f'{s.get("frame_vars")}, the frame type asks for {want} (current frame, caller)')
    return v[:8]


def model_request(case, obs):
    k = case['kind']
    if k == 'table':
        return {'op': 'table', 'keys': KEYS, 'lo': case['lo'], 'hi': case['hi'], 'id': 'tp', 'path': 'host.py',
                'line': 7, 'args': {}, 'watches': case['watches'], 'metrics': ONE_METRIC if case['metrics'] else []}
    if k == 'build':
        return dict(case['tp'], op='build')
    if k == 'regodd':
        return None          # outside the text-valued domain of the model
    if k == 'both':
        return dict(case['tp'], op='both', defs=[dict(m, type=type_name_of(m)) for m in case['tp']['metrics']])
    if k == 'argint':
        return {'op': 'argint', 'args': {a: model_val(e) for a, e in case['args'].items()}, 'name': case['name'],
                'default': case['default']}
    if k == 'redeliver':
        return {'op': 'response', 'tps': [case['tps'][i] for i in case['second']]} if 'triggers' in obs else None
    if k == 'providers':
        return None          # what a provider receives is C17's model; here the statement is judged on the real code
    if k == 'register':
        custom = [i for i in range(len(case['tps'])) if i not in case.get('service', [])]
        lives = [custom] + [[i for i in live_after(case, p) if i in custom]
                            for p in range(1, len(obs.get('phases', [])) + 1)]
        return {'op': 'register_phases', 'tps': case['tps'], 'lives': lives}
    return {'op': k, 'tps': case['tps']}


def compare(case, obs, resp):
    if 'error' in resp:
        return ['model error: ' + resp['error']]
    k = case['kind']
    if k == 'argint':
        d = []
        for f in ('get_arg_int', 'tp_fire_count', 'loc_fire_count', 'loc_fire_period', 'tp_frame_type', 'tp_condition'):
            if obs[f] != compact_out(resp[f]):
                d.append(f'{f} of {json.dumps(case["args"], ensure_ascii=True)[:200]}: implementation {obs[f]} model {resp[f]}')
        if resp['get_arg_int'] != resp['loc_get_int']:
            d.append('model: get_arg_int and __get_int differ')
        return d
    if k == 'redeliver':
        if resp.get('lost'):
            return ['model: the whole response is lost; implementation converted it']
        return [] if obs['triggers'] == resp['triggers'] else [
            f'second response: implementation {json.dumps(obs["triggers"], sort_keys=True)[:400]} model '
            f'{json.dumps(resp["triggers"], sort_keys=True)[:400]}']
    if k == 'both':
        return [f'{path} path: implementation {json.dumps(obs[path], sort_keys=True)[:300]} model '
                f'{json.dumps(resp[path], sort_keys=True)[:300]}' for path in ('service', 'code') if obs[path] != resp[path]]
    if k == 'table':
        d = []
        for i, (a, b) in enumerate(zip(obs['rows'], resp['rows'])):
            if a != b:
                d.append(f'row {case["lo"] + i} args {decode_args(case["lo"] + i)}: implementation '
                         f'{json.dumps(a, sort_keys=True)[:300]} model {json.dumps(b, sort_keys=True)[:300]}')
                if len(d) > 3:
                    break
        if len(obs['rows']) != len(resp['rows']):
            d.append('row count differs')
        return d
    if k == 'build':
        if 'raised' in obs:
            return ['implementation raised, model does not: ' + obs['raised']]
        return [] if obs['trigger'] == resp['trigger'] else [
            f'implementation {json.dumps(obs["trigger"], sort_keys=True)[:400]} model '
            f'{json.dumps(resp["trigger"], sort_keys=True)[:400]}']
    if 'triggers' not in obs:
        return ['implementation raised, model does not: ' + obs.get('raised', '?')]
    if k == 'register':
        got = [obs['triggers']] + [ph.get('triggers') for ph in obs.get('phases', [])]
        if got != resp['phases']:
            return [f'custom list per phase: implementation {json.dumps(got, sort_keys=True)[:500]} model '
                    f'{json.dumps(resp["phases"], sort_keys=True)[:500]}']
        return []
    if resp.get('lost'):
        return ['model: the whole response is lost; implementation converted it']
    if obs['triggers'] != resp['triggers']:
        return [f'triggers: implementation {json.dumps(obs["triggers"], sort_keys=True)[:500]} model '
                f'{json.dumps(resp["triggers"], sort_keys=True)[:500]}']
    return []


# ------------------------------------------------------------------------------------- generation
PATHS = ['host.py', 'other.py']
LINES = [7, 12, 40]
METHODS = ['fn', 'run']
ODD = ['', ' ', 'LINE_START', 'Line_start', 'line_start ', 'method', 'no_collect ', 'collect', '0', '-1', 'None',
       'é中😀', 'a' * 300, 'true', '{', 'x y', 'line', 'stack', 'no_frame']


def gen_metric(rng, name):
    labels = []
    for j in range(rng.choice([0, 0, 1, 2])):
        if rng.random() < 0.5:
            st = rng.choice([{'str': 'v%d' % j}, {'str': ''}, {'int': rng.randint(-5, 5)}, {'bool': rng.random() < 0.5},
                             {'dbl': struct.unpack('>Q', struct.pack('>d', rng.choice([0.5, -2.0, 1e300])))[0]}])
            labels.append({'key': 'k%d' % j, 'static': st, 'expression': ''})
        else:
            labels.append({'key': 'k%d' % j, 'static': None, 'expression': rng.choice(['x', 'str(x)', 'y[0]'])})
    return {'name': name, 'type': rng.randint(0, 3), 'labels': labels,
            'expression': rng.choice(['', '', 'x', 'len(y)']), 'namespace': rng.choice(['', 'ns']),
            'help': rng.choice(['', 'some help']), 'unit': rng.choice(['', 'ms'])}


def gen_tp(rng, i, effects=True):
    args = {}
    r = rng.random()
    if r < 0.30:
        args['stage'] = rng.choice(LINE_STAGES)
    elif r < 0.50:
        args['stage'] = rng.choice(METHOD_STAGES)
    elif r < 0.62:
        args['stage'] = rng.choice(['bogus', '', 'LINE_START', 'line', 'method', 'line_start '])
    path = rng.choice(PATHS)
    if rng.random() < 0.40 or args.get('stage') in METHOD_STAGES:
        if rng.random() < 0.92:
            args['method_name'] = rng.choice(METHODS)
    if rng.random() < 0.35:
        args['span'] = rng.choice(['line', 'method', 'method', 'weird'])
    r = rng.random()
    if r < 0.35:
        args['snapshot'] = 'no_collect'
    elif r < 0.5:
        args['snapshot'] = rng.choice(['collect', 'other'])
    if rng.random() < 0.45:
        args['log_msg'] = rng.choice(['hit', 'x={x}', 'é {x} {y}'])
    cond = rng.choice([None, None, 'true', 'true', 'false', 'raise'])
    if cond == 'raise':
        args['condition'] = '1/0'
    elif cond is not None:
        args['condition'] = 'c%d' % i
    if rng.random() < 0.6:
        args['fire_count'] = rng.choice(['1', '2', '3', '-1', '0', 'abc', ' 2 ', '300'])
    if rng.random() < 0.6:
        args['fire_period'] = rng.choice(['0', '1', '1000', '5', 'x'])
    if rng.random() < 0.3:
        args['frame_type'] = rng.choice(['single_frame', 'all_frame', 'no_frame', 'zzz'])
    if rng.random() < 0.2:
        args['stack_type'] = rng.choice(['stack', 'no_stack'])
    if rng.random() < 0.1:
        args[rng.choice(['window_start', 'extra', 'watches', 'metrics'])] = rng.choice(['1', 'zz'])
    tp = {'id': 'tp%d' % i, 'path': path, 'line': rng.choice(LINES), 'args': args,
          'watches': rng.choice([[], [], ['x'], ['x', 'y[1]'], ['nope'], ['x + %d' % i]]),
          'metrics': [gen_metric(rng, 'm_%d_%d' % (i, j)) for j in range(rng.choice([0, 0, 0, 1, 2]))]}
    return tp, cond


def finish_case(rng, kind, tps, conds, extra=None):
    places, seen = [], set()
    for tp in tps:
        loc = spec_location(tp)
        if loc is None or (loc['kind'] == 'method' and loc['name'] is None):
            continue            # a nameless method needs the source of the frame, which mock frames (like code compiled
            #                     from a string) do not have: it can never match — and must cost only itself
        p = place_of(loc)
        if json.dumps(p) in seen:
            continue
        seen.add(json.dumps(p))
        base = rng.randint(1, 10 ** 6)
        step = rng.choice([1_000_000, 5_000_000, 1_000_000_000, 2_000_000_000, 999_999_999])
        places.append({'place': p, 'tss': [base + k * step for k in range(3)]})
    # one place where nothing is configured: no effects expected
    places.append({'place': ['line', 'host.py', 99], 'tss': [5, 5 + 10 ** 10]})
    owner_idx = {m['name']: i for i, tp in enumerate(tps) for m in tp['metrics']}
    case = {'kind': kind, 'tps': tps, 'conds': conds, 'places': places, 'metric_owner_idx': owner_idx}
    if extra:
        case.update(extra)
        for pl in places:
            base, step = pl['tss'][0], (pl['tss'][1] - pl['tss'][0]) or 1
            pl['more'] = [[base + (3 * p + k) * step for k in range(3)]
                          for p in range(1, len(case.get('unregs', [])) + 1)]
    return case


def gen_list(rng, kind):
    n = rng.choice([1, 2, 2, 3, 3, 4, 5, 7])
    tps, conds = [], []
    for i in range(n):
        tp, c = gen_tp(rng, i)
        if tps and rng.random() < 0.45:          # collide with an earlier tracepoint's place
            o = rng.choice(tps)
            tp['path'], tp['line'] = o['path'], o['line']
            if 'method_name' in o['args'] and 'method_name' in tp['args']:
                tp['args']['method_name'] = o['args']['method_name']
        tps.append(tp)
        conds.append(c)
    extra = None
    open_enum = []
    for i, tp in enumerate(tps):
        if rng.random() < 0.15:          # a metric whose type this version does not know (proto3 enums are open)
            if not tp['metrics']:
                tp['metrics'].append(gen_metric(rng, 'm_%d_x' % i))
            rng.choice(tp['metrics'])['type'] = rng.choice([4, 5, 7, 9])
            open_enum.append(i)
    if kind == 'register' and rng.random() < 0.6:
        # some tracepoints come from the service, registrations are unregistered one by one (never the same twice)
        service = [i for i in range(n) if rng.random() < 0.2]
        custom = [i for i in range(n) if i not in service]
        unregs = rng.sample(custom, rng.randint(0, len(custom)))
        for tp in tps:
            if rng.random() < 0.7:               # keep acting after the first hit, so later phases show who is live
                tp['args']['fire_count'] = '-1'
                tp['args']['fire_period'] = '0'
        extra = {'service': service, 'unregs': unregs}
    if kind == 'register':
        # registrations in code hand over MetricDefinition objects (no protobuf enum involved): known types only
        for i in open_enum:
            if extra is None or i not in extra['service']:
                for m in tps[i]['metrics']:
                    m['type'] %= 4
    return finish_case(rng, kind, tps, conds, extra)


def gen_build(rng):
    args = {}
    for k, vs in KEYS:
        r = rng.random()
        if r < 0.45:
            continue
        args[k] = rng.choice([v for v in vs if v is not None]) if r < 0.75 else rng.choice(ODD)
    for _ in range(rng.choice([0, 0, 1, 2])):
        args[rng.choice(ODD + ['Stage', 'SPAN', 'snapshot ', 'é'])] = rng.choice(ODD)
    return {'kind': 'build', 'tp': {'id': rng.choice(['tp', 'é😀', '']), 'path': rng.choice(['a.py', 'd/é.py', '']),
                                    'line': rng.choice([0, 1, 7, 2 ** 31]), 'args': args,
                                    'watches': rng.choice([[], ['x'], ['é', 'y']]),
                                    'metrics': [gen_metric(rng, 'm%d' % j) for j in range(rng.choice([0, 0, 1, 3]))]}}


def table_cases():
    for metrics in (False, True):
        for lo in range(0, SPACE, CHUNK):
            yield {'kind': 'table', 'lo': lo, 'hi': lo + CHUNK, 'metrics': metrics, 'watches': ['x'] if metrics else []}


def n_actions(tp):
    return len(spec_actions(tp)) if spec_location(tp) is not None else 0


def gen_redeliver(rng):
    """multi-action tracepoints x re-delivery x hits"""
    while True:
        n = rng.choice([1, 2, 2, 3, 4])
        tps, conds = [], []
        for i in range(n):
            tp, c = gen_tp(rng, i)
            if i == 0 or rng.random() < 0.5:
                # make it a tracepoint with several actions that the agent can interpret and that is allowed to act
                tp['args'].pop('stage', None) if tp['args'].get('stage') not in LINE_STAGES + METHOD_STAGES else None
                if rng.random() < 0.7 and not tp['metrics']:
                    tp['metrics'] = [gen_metric(rng, 'm_%d_%d' % (i, j)) for j in range(rng.choice([1, 2]))]
                if rng.random() < 0.6 or not tp['metrics']:
                    tp['args']['span'] = rng.choice(['line', 'method']) if 'method_name' in tp['args'] else 'line'
                    if tp['args']['span'] == 'line' and 'method_name' in tp['args'] and 'stage' not in tp['args']:
                        pass
                if rng.random() < 0.4:
                    tp['args'].update(snapshot='no_collect', log_msg='hit {x}')
                if c in ('false', 'raise'):
                    c = rng.choice([None, 'true'])
                    tp['args'].pop('condition', None)
                    if c == 'true':
                        tp['args']['condition'] = 'c%d' % i
                if rng.random() < 0.5:
                    tp['args'].pop('fire_count', None)
                    tp['args'].pop('fire_period', None)
            if tps and rng.random() < 0.3:
                o = rng.choice(tps)
                tp['path'], tp['line'] = o['path'], o['line']
            tps.append(tp)
            conds.append(c)
        multi = [i for i, tp in enumerate(tps) if n_actions(tp) >= 2]
        if not multi:
            continue
        first = [i for i in range(n) if i in multi or rng.random() < 0.7]
        second = [i for i in range(n) if i in multi or rng.random() < 0.6]
        if rng.random() < 0.35:
            # a tracepoint that joins (or leaves) the LOCATION of a multi-action tracepoint with the second response
            tp, c = gen_tp(rng, n)
            o = tps[rng.choice(multi)]
            tp['path'], tp['line'] = o['path'], o['line']
            tp['args'].pop('stage', None)
            tp['args'].pop('method_name', None)
            for k2 in ('stage', 'method_name'):
                if k2 in o['args']:
                    tp['args'][k2] = o['args'][k2]
            if tp['args'].get('span') == 'method' and 'method_name' not in tp['args']:
                tp['args']['span'] = 'line'
            tps.append(tp)
            conds.append(c)
            (second if rng.random() < 0.6 else first).append(n)
        if rng.random() < 0.5:
            rng.shuffle(second)                  # the service may order the same tracepoints differently
        case = finish_case(rng, 'redeliver', tps, conds)
        n0 = rng.choice([0, 0, 1, 2])
        if n0 and rng.random() < 0.8:
            for tp in tps:                   # unlimited: hits before the re-delivery cannot change what is asked for after it
                tp['args'].update(fire_count='-1', fire_period='0')
        for pl in case['places']:
            base, step = pl['tss'][0], (pl['tss'][1] - pl['tss'][0]) or 1
            pl['more'] = [[base + (3 + k) * step for k in range(rng.choice([1, 2, 3]))]]
            pl['tss'] = pl['tss'][:n0]
        case.update(first=first, second=second)
        if redeliver_expected(case, True) != redeliver_expected(case, False):
            # hits before the re-delivery make the two readings differ: keep the re-delivery, drop those hits
            for pl in case['places']:
                pl['tss'] = []
        return case


INT_TEXTS = [' 3 ', '\u0661\u0662', '1_0', '+2', '1e3', '', '-1', '0', '007', '١٢٣', '-१०', '\u00a07\u3000', '1\u0662',
             '1__0', '_1', '1_', '+', '- 1', '1.5', '0x10', 'abc', '²', '\u2160', '１２', '12\u200b', ' \t-5\n', '9' * 30,
             '\x1c4', 'True', 'None', '٣_٤', '1 0', '+-1', '٠', '𝟙𝟚',
             # CPython's limit on the number of decimal digits of integer text (sys.get_int_max_str_digits(), 4300)
             '9' * 4300, '9' * 4301, '-' + '9' * 4300, '-' + '9' * 4301, '0' * 4301, '0' * 5 + '9' * 4296, '0' * 4299 + '7',
             '1_' * 2150 + '1', ' ' * 10 + '9' * 4300 + ' ', '٩' * 4301, '٩' * 4300, '+' + '0' * 4400, '9' * 5000]


def gen_argint(rng):
    def val():
        r = rng.random()
        if r < 0.62:
            t = rng.choice(INT_TEXTS)
            if rng.random() < 0.15:
                t = rng.choice([' ', '\u2003', '\n', '']) + t + rng.choice([' ', '\u00a0', ''])
            return {'str': t}
        if r < 0.70:
            return None
        if r < 0.78:
            return {'bool': rng.random() < 0.5}
        if r < 0.86:
            return {'int': rng.choice([0, 1, -1, 7, 10 ** 20, -3])}
        if r < 0.94:
            return {'float': {'value': rng.choice([2.7, -2.7, 0.0, 1e3, 5.0, -0.5, 1e22])}}
        return rng.choice(['nan', 'inf', 'other'])
    args = {}
    for k in ('fire_count', 'fire_period', 'frame_type', 'condition', 'x'):
        if rng.random() < 0.75:
            args[k] = val()
    return {'kind': 'argint', 'args': args, 'name': rng.choice(['x', 'x', 'fire_count', 'missing']),
            'default': rng.choice([1, 0, -1, 1000])}


def gen_scale(rng):
    """only at scale: 40-80 filler tracepoints on other lines (from the service and registered in code) around same-line
    pairs service+registered and registered+registered; every tracepoint must still act on its own"""
    n_fill = rng.randint(40, 80)
    tps, conds, service = [], [], []

    def add(path, line, args, from_service, watches=(), metrics=()):
        i = len(tps)
        tps.append({'id': 'tp%d' % i, 'path': path, 'line': line, 'args': dict(args), 'watches': list(watches),
                    'metrics': [dict(m, name='m_%d_%d' % (i, j)) for j, m in enumerate(metrics)]})
        conds.append(None)
        if from_service:
            service.append(i)
        return i
    unlimited = {'fire_count': '-1', 'fire_period': '0'}
    for k in range(n_fill):
        args = dict(unlimited) if rng.random() < 0.5 else {}
        if rng.random() < 0.4:
            args.update(snapshot='no_collect', log_msg='filler')
        add(rng.choice(['filler.py', 'host.py', 'other.py']), 100 + k, args, rng.random() < 0.7)
    pairs = []
    # service + registered on one line (both orders of arrival are the same here: service first, then registrations)
    for line, kinds in ((7, ('service', 'code')), (12, ('code', 'code')), (40, ('service', 'code', 'code'))):
        if line != 7 and rng.random() < 0.3:
            continue
        for kd in kinds:
            args = dict(rng.choice([unlimited, {}, {'fire_count': '2', 'fire_period': '0'}]))
            r = rng.random()
            if r < 0.3:
                args.update(snapshot='no_collect', log_msg='pair {x}')
            elif r < 0.5:
                args['span'] = 'line'
            ms = [gen_metric(rng, 'm')] if rng.random() < 0.3 else []
            for m in ms:
                m['type'] %= 4
            pairs.append(add('host.py', line, args, kd == 'service', ['x'] if rng.random() < 0.3 else [], ms))
    case = finish_case(rng, 'register', tps, conds, {'service': service, 'unregs': []})
    # drive the pair lines and a few filler lines only
    keep = {json.dumps(['line', 'host.py', ln]) for ln in (7, 12, 40)}
    fill_places = [pl for pl in case['places'] if json.dumps(pl['place']) not in keep and pl['place'][2] != 99]
    rng.shuffle(fill_places)
    case['places'] = [pl for pl in case['places'] if json.dumps(pl['place']) in keep] + fill_places[:3] + \
        [pl for pl in case['places'] if pl['place'][2] == 99]
    case['scale'] = True
    return case


def gen_providers(rng):
    n_m = rng.choice([2, 2, 3, 3, 4])
    n_p = rng.choice([2, 2, 3])
    args = {}
    if rng.random() < 0.5:
        args['snapshot'] = 'no_collect'
    r = rng.random()
    if r < 0.4:
        args['fire_count'], args['fire_period'] = '2', '0'
    elif r < 0.6:
        args['fire_count'], args['fire_period'] = '-1', '0'
    tp = {'id': 'tp0', 'path': 'host.py', 'line': 7, 'args': args, 'watches': [],
          'metrics': [gen_metric(rng, 'm_0_%d' % j) for j in range(n_m)]}
    fail = set()
    for p in rng.sample(range(n_p), rng.choice([0, 1, 1, 1, 2])):
        where = rng.choice(['first', 'first', 'middle', 'last', 'two'])
        if where == 'first':
            fail.add((p, 0))
        elif where == 'last':
            fail.add((p, n_m - 1))
        elif where == 'middle':
            fail.add((p, rng.randrange(0, n_m - 1)))
        else:
            fail.update((p, j) for j in rng.sample(range(n_m), 2))
    return {'kind': 'providers', 'tp': tp, 'providers': n_p, 'fail': sorted(list(f) for f in fail),
            'via': rng.choice(['response', 'register']), 'tss': [1000, 2000, 3000][:rng.choice([1, 2, 3])]}


def gen(rng, tier):
    yield from table_cases()
    while True:
        r = rng.random()
        if r < 0.012:
            yield gen_scale(rng)
        elif r < 0.03:
            yield {'kind': 'regodd', 'what': rng.choice(sorted(REGODD))}
        elif r < 0.10:
            yield gen_redeliver(rng)
        elif r < 0.22:
            yield gen_argint(rng)
        elif r < 0.27:
            tp, _ = gen_tp(rng, 0)
            tp['args'].pop('condition', None)
            if rng.random() < 0.7 and not tp['metrics']:
                tp['metrics'] = [gen_metric(rng, 'm_0_%d' % j) for j in range(rng.choice([1, 2]))]
            for m in tp['metrics']:
                r2 = rng.random()
                if r2 < 0.3:        # a type NUMBER the installed protobuf does not know (service side cannot convert)
                    m['type'] = rng.choice([4, 7, 9])
                    m['type_name'] = rng.choice(['BOGUS', 'COUNTER'])
                elif r2 < 0.6:       # a type TEXT no provider knows / odd case (the register side converts nothing)
                    m['type_name'] = rng.choice(['BOGUS', 'counter', 'Gauge', '', 'HISTOGRAM '])
            yield {'kind': 'both', 'tp': tp}
        elif r < 0.35:
            yield gen_providers(rng)
        elif r < 0.62:
            yield gen_list(rng, 'response')
        elif r < 0.82:
            yield gen_list(rng, 'register')
        else:
            yield gen_build(rng)


def search(rng, tier):
    """when a proof / the translation / the correspondence broke: the exhaustive table first (single rows are found by
    shrinking), then the random streams"""
    return gen(rng, tier)


def _tp(i, path, line, args, watches=(), metrics=()):
    return {'id': 'tp%d' % i, 'path': path, 'line': line, 'args': args, 'watches': list(watches),
            'metrics': list(metrics)}


def corpus():
    import random
    rng = random.Random(11)
    good = _tp(0, 'host.py', 7, {})
    bad = _tp(1, 'other.py', 1, {'stage': 'bogus'})
    odd_metric = _tp(2, 'host.py', 12, {}, [], [dict(ONE_METRIC[0], name='m_2_0', type=7)])
    two = [_tp(0, 'host.py', 7, {'fire_count': '2', 'fire_period': '0'}, ['x']),
           _tp(1, 'host.py', 7, {'snapshot': 'no_collect', 'log_msg': 'x={x}', 'condition': 'c1'}, [], ONE_METRIC and [
               dict(ONE_METRIC[0], name='m_1_0')]),
           _tp(2, 'host.py', 7, {'span': 'line', 'condition': 'c2'})]
    return [
        # D14 and its code-path sibling (probe notes/probes/p_c11_custom_none.py): the uninterpretable one is alone
        finish_case(rng, 'response', [good, bad], [None, None]),
        finish_case(rng, 'response', [bad, good], [None, None]),
        # a metric type this version does not know: that tracepoint cannot be converted, the others are installed
        finish_case(rng, 'response', [odd_metric, good], [None, None]),
        finish_case(rng, 'response', [good, odd_metric, bad], [None, None, None]),
        finish_case(rng, 'register', [good, bad], [None, None]),
        finish_case(rng, 'register', [bad, good], [None, None]),
        finish_case(rng, 'response', two, [None, 'true', 'false']),
        # an uninterpretable registration, then valid ones, then unregister a valid one that is not the last
        finish_case(rng, 'register', [bad, _tp(0, 'host.py', 7, {'fire_count': '-1', 'fire_period': '0'}),
                                      _tp(2, 'host.py', 12, {'fire_count': '-1', 'fire_period': '0'}),
                                      _tp(3, 'other.py', 40, {'fire_count': '-1', 'fire_period': '0'})],
                    [None, None, None, None], {'service': [], 'unregs': [1, 0, 3]}),
        # probe notes/probes/p_c11_nameless_method_blocks_file.py: the nameless method tracepoint costs only itself
        finish_case(rng, 'response', [good, _tp(1, 'host.py', 12, {'stage': 'method_start'})], [None, None]),
        finish_case(rng, 'register', [_tp(1, 'host.py', 12, {'stage': 'method_end', 'span': 'method'}), good],
                    [None, None]),
        finish_case(rng, 'register', two, [None, 'true', 'false']),
        # seeded C11-J: a provider that raises for the FIRST of three definitions must still get the other two
        {'kind': 'providers', 'via': 'response', 'providers': 2, 'fail': [[0, 0]], 'tss': [1000],
         'tp': _tp(0, 'host.py', 7, {}, [], [dict(ONE_METRIC[0], name='m_0_0', type=0),
                                             dict(ONE_METRIC[0], name='m_0_1', type=1, expression='x'),
                                             dict(ONE_METRIC[0], name='m_0_2', type=2)])},
        {'kind': 'providers', 'via': 'register', 'providers': 3, 'fail': [[1, 1], [2, 0]], 'tss': [1000, 2000],
         'tp': _tp(0, 'host.py', 7, {'snapshot': 'no_collect', 'fire_count': '2', 'fire_period': '0'}, [],
                   [dict(ONE_METRIC[0], name='m_0_0', type=3), dict(ONE_METRIC[0], name='m_0_1', type=1),
                    dict(ONE_METRIC[0], name='m_0_2', type=0)])},
    ]


# ------------------------------------------------------------------------------------- bookkeeping
def label(case, obs):
    k = case['kind']
    if k == 'regodd':
        return 'regodd/' + case['what']
    if k == 'argint':
        def cls(e):
            return 'absent' if e == 'absent' else 'none' if e is None else e if isinstance(e, str) else list(e)[0]
        fc = case['args'].get('fire_count', 'absent')
        o = obs.get('loc_fire_count', {})
        return 'argint/fire_count=%s/%s' % (cls(fc), 'raised' if 'raised' in o else 'default' if o == {'ok': 1} else 'value')
    if k == 'redeliver':
        both = [i for i in case['first'] if i in case['second']]
        return 'redeliver/%s/%s/max%d-actions' % (
            'hits-before' if any(pl['tss'] for pl in case['places']) else 'hits-after-only',
            'changed' if sorted(case['first']) != sorted(case['second']) else 'same-set',
            max([n_actions(case['tps'][i]) for i in both] or [0]))
    if k == 'both':
        sv, cd = spec_trigger(case['tp']), spec_trigger_code(case['tp'])
        return 'both/' + ('uninterpretable' if cd is None else 'service-cannot-convert' if sv is None else
                          'odd-type-text' if any('type_name' in m for m in case['tp']['metrics']) else
                          '%d-actions' % len(spec_actions(case['tp'])))
    if k == 'providers':
        n_m = len(case['tp']['metrics'])
        return 'providers/%s/%s' % (case['via'], 'nofault' if not case['fail'] else
                                    'fault-not-last' if any(m < n_m - 1 for _, m in case['fail']) else 'fault-last')
    if k == 'table':
        return 'table/' + ('metric' if case['metrics'] else 'plain')
    if k == 'build':
        return 'build/' + ('none' if obs.get('trigger') is None else obs['trigger']['loc']['kind'])
    if case.get('scale'):
        return 'register/scale-%d-triggers' % (len(case['tps']) // 10 * 10)
    specs = [spec_trigger(tp) for tp in case['tps']]
    unint = any(s is None for s in specs)
    if any(not convertible(tp) for tp in case['tps']):
        k += '/open-enum-metric'
    if any(s is not None and s['loc']['kind'] == 'method' and s['loc']['name'] is None for s in specs):
        k += '/nameless-method'
    ids = [s['id'] for s in specs if s is not None]
    shared = len(set(ids)) < len(ids)
    if case.get('unregs'):
        k += '/unregister%d' % len(case['unregs'])
    return f'{k}/' + ('shared+' if shared else '') + ('uninterpretable' if unint else 'plain')


def nontrivial(case, obs):
    if case['kind'] == 'regodd':
        return False
    if case['kind'] == 'redeliver':
        exp = redeliver_expected(case, False)[1]
        return any(sum(1 for kind in e if e[kind]) >= 2 for per in exp for e in per.values())
    if case['kind'] == 'providers':
        return any(m < len(case['tp']['metrics']) - 1 for _, m in case['fail'])
    if case['kind'] == 'argint':
        return any(isinstance(e, dict) and 'str' in e and any(ord(c) > 127 for c in e['str']) for e in case['args'].values()) \
            or any(not isinstance(e, dict) or 'str' not in e for e in case['args'].values())
    if case['kind'] in ('table', 'build', 'both'):
        return False
    specs = [spec_trigger(tp) for tp in case['tps']]
    ids = [s['id'] for s in specs if s is not None]
    return len(set(ids)) < len(ids) or (any(s is None for s in specs) and bool(ids))


def shrink(case):
    k = case['kind']
    if k == 'regodd':
        return
    if k == 'argint':
        for key in list(case['args']):
            yield dict(case, args={a: b for a, b in case['args'].items() if a != key})
        return
    if k == 'redeliver':
        for which in ('first', 'second'):
            for j in range(len(case[which])):
                c = dict(case)
                c[which] = case[which][:j] + case[which][j + 1:]
                if redeliver_expected(c, True) == redeliver_expected(c, False):
                    yield c
        for i, tp in enumerate(case['tps']):
            for key in list(tp['args']):
                if key in ('condition', 'stage', 'method_name'):
                    continue
                tps = [dict(t) for t in case['tps']]
                tps[i] = dict(tp, args={a: b for a, b in tp['args'].items() if a != key})
                c = dict(case, tps=tps)
                if redeliver_expected(c, True) == redeliver_expected(c, False):
                    yield c
        return
    if k == 'both':
        tp = case['tp']
        for key in list(tp['args']):
            yield {'kind': 'both', 'tp': dict(tp, args={a: b for a, b in tp['args'].items() if a != key})}
        if tp['metrics']:
            yield {'kind': 'both', 'tp': dict(tp, metrics=[])}
        return
    if k == 'providers':
        for j in range(len(case['fail'])):
            yield dict(case, fail=case['fail'][:j] + case['fail'][j + 1:])
        if len(case['tss']) > 1:
            yield dict(case, tss=case['tss'][:-1])
        ms = case['tp']['metrics']
        if len(ms) > 2 and all(m < len(ms) - 1 for _, m in case['fail']):
            yield dict(case, tp=dict(case['tp'], metrics=ms[:-1]))
        return
    if k == 'table':
        for idx in range(case['lo'], case['hi']):
            yield {'kind': 'build', 'tp': table_tp(case, idx)}
        return
    if k == 'build':
        tp = case['tp']
        for key in list(tp['args']):
            c = dict(tp, args={a: b for a, b in tp['args'].items() if a != key})
            yield {'kind': 'build', 'tp': c}
        if tp['metrics']:
            yield {'kind': 'build', 'tp': dict(tp, metrics=[])}
        if tp['watches']:
            yield {'kind': 'build', 'tp': dict(tp, watches=[])}
        return
    tps = case['tps']
    import random
    if case.get('unregs') or case.get('service'):
        un = case.get('unregs', [])
        for j in range(len(un)):
            yield finish_case(random.Random(1), k, [dict(t) for t in tps], list(case['conds']),
                              {'service': list(case.get('service', [])), 'unregs': un[:j] + un[j + 1:]})
        if case.get('service'):
            yield finish_case(random.Random(1), k, [dict(t) for t in tps], list(case['conds']),
                              {'service': [], 'unregs': list(un)})
        for i, tp in enumerate(tps):
            for key in list(tp['args']):
                if key in ('condition', 'fire_count', 'fire_period'):
                    continue
                sub = [dict(t) for t in tps]
                sub[i] = dict(tp, args={a: b for a, b in tp['args'].items() if a != key})
                yield finish_case(random.Random(1), k, sub, list(case['conds']),
                                  {'service': list(case.get('service', [])), 'unregs': list(un)})
        return
    for i in range(len(tps)):
        if len(tps) > 1:
            keep = [j for j in range(len(tps)) if j != i]
            sub = [dict(tps[j]) for j in keep]
            # conditions refer to c<index>: keep ids and condition variable names, re-index the truth table
            conds = [case['conds'][j] for j in keep]
            ren = []
            for n, t in enumerate(sub):
                t = dict(t, args=dict(t['args']))
                if t['args'].get('condition', '').startswith('c') and t['args']['condition'][1:].isdigit():
                    t['args']['condition'] = 'c%d' % n
                ren.append(t)
            yield finish_case(random.Random(1), k, ren, conds)
    for i, tp in enumerate(tps):
        for key in list(tp['args']):
            if key == 'condition':
                continue
            sub = [dict(t) for t in tps]
            sub[i] = dict(tp, args={a: b for a, b in tp['args'].items() if a != key})
            yield finish_case(random.Random(1), k, sub, list(case['conds']))


def evidence_extra():
    return {'exhaustive_table': {'keys': KEYS, 'combinations': SPACE, 'variants': ['no metrics', 'one metric'],
                                 'rows_per_run': 2 * SPACE}}
