"""C17, the built-in Prometheus processor (kind = 'prom'): a sequence of `PrometheusPlugin.counter / gauge / histogram /
summary` calls on a fresh plugin against the REAL prometheus_client and its default registry, then a scrape.

  implementation : real plugin, real client library; per call: did it leave the plugin as an exception, was an error
                   logged; afterwards every cached client object read back through its public `collect()` (type, name,
                   documentation, time series with their values) and the default REGISTRY asked for each expected sample
  oracle         : from the statement ("through the operation matching its type ... with its name, namespace, help and
                   unit, labels ... and a value"): in the `consistent` stream every call must be visible in a scrape of
                   the default registry under <namespace>_<name>[_<unit>] with its labels — counter: total = sum of the
                   values, gauge: accumulated value (both built-in processors add to a gauge; the statement does not say
                   set or add), histogram / summary: _count = number of calls, _sum = sum of the values
  model          : Model/C17Prom.lean (`run`), driver op "prom"
Values are multiples of 0.25 (exact float sums; the model counts in quarter units) — plus, in the edge stream, nan / inf /
-inf, names held by prometheus_client's default collectors, and a counter called `_total`.
"""
import core

NAMES = ['hits', 'orders', 'latency', 'm', 'queue_depth', 'req']
NAMESPACES = ['deep', 'deep', 'shop', 'ns1', '']
UNITS = [None, None, 'ms', 'bytes', '']
HELPS = [None, 'help text', '', 'number of things']
KEYS = ['k', 'env', 'path', 'a', 'b']
VALUES = ['x', 'y', 'prod', '', '/a b', 'ünï', '1']
OPS = ['counter', 'gauge', 'histogram', 'summary']
QUARTERS = [4, 4, 8, 1, 0, 10, 3, 400, 6]


def gen_identity(rng, used):
    """a metric identity of the `consistent` stream: (type, name) is used with ONE namespace / unit / help / label-name
    set, and two identities share a name only when both their types and their namespaces differ (no clash in the
    provider's name space)"""
    for _ in range(40):
        op, name, ns = rng.choice(OPS), rng.choice(NAMES), rng.choice(NAMESPACES)
        if all(n != name or (o != op and (x or '') != (ns or '')) for o, n, x in used):
            break
    else:
        name = 'solo%d' % len(used)
    used.append((op, name, ns))
    keys = rng.sample(KEYS, rng.choice([0, 0, 1, 2, 3]))
    return {'m': op, 'name': name, 'ns': ns, 'help': rng.choice(HELPS), 'unit': rng.choice(UNITS), 'keys': keys}


def a_call(rng, ident):
    v = rng.choice(QUARTERS)
    if ident['m'] == 'gauge' and rng.random() < 0.3:
        v = -v
    ks = list(ident['keys'])
    rng.shuffle(ks)             # the dict's key order differs from call to call
    return {'m': ident['m'], 'name': ident['name'], 'labels': [[k, rng.choice(VALUES[:4])] for k in ks],
            'ns': ident['ns'], 'help': ident['help'], 'unit': ident['unit'], 'value': v}


def gen_case(rng, k):
    used = []
    idents = [gen_identity(rng, used) for _ in range(rng.choice([1, 2, 2, 3]))]
    calls = [a_call(rng, rng.choice(idents)) for _ in range(rng.randint(1, 8))]
    case = {'kind': 'prom', 'stream': 'consistent', 'calls': calls}
    if k % 3 != 0:
        return case
    # the edges of the client library and of the plugin's cache: compared with the model; the statement does not say
    # what a processor does with a definition its provider refuses
    case['stream'] = 'edge'
    for _ in range(rng.randint(1, 3)):
        c = dict(rng.choice(calls))
        c['labels'] = [list(kv) for kv in c['labels']]
        r = rng.randrange(15)
        if r == 0:
            c['ns'] = rng.choice([x for x in NAMESPACES + ['other'] if x != c['ns']])     # same key, other namespace
        elif r == 1:
            c['unit'] = rng.choice([x for x in UNITS + ['s'] if x != c['unit']])
        elif r == 2:
            c['labels'] = c['labels'][1:] if c['labels'] else [['extra', 'x']]               # other label names
        elif r == 3:
            c['labels'] = c['labels'] + [[next(k for k in ('more', 'more2', 'more3', 'more4') if k not in dict(map(tuple, c['labels']))), 'y']]
        elif r == 4:
            c['m'] = rng.choice([x for x in OPS if x != c['m']])                             # same name, other type
        elif r == 5:
            c['value'] = '-inf' if isinstance(c['value'], str) else -abs(c['value']) - 1    # negative step
        elif r == 6:
            c['labels'] = [[rng.choice(['le', 'quantile', '__x', '__name__']), 'v']]
        elif r == 7:
            c['name'] = rng.choice(['', 'hits_total', 'x_total', 'orders_ms', 'latency_bytes'])
        elif r == 8:
            c['name'] = c['name'] + rng.choice(['_total', '_ms', '_sum', '_count', '_created', '_bucket'])
        elif r == 9:
            c['help'] = rng.choice([x for x in HELPS + ['another help'] if x != c['help']])
        elif r == 10:
            c['ns'] = None
        elif r == 12:
            # reachable metric values that are no numbers to add: float('nan') / "inf" pass _process_metric
            c['value'] = rng.choice(['nan', 'inf', '-inf', 'nan'])
        elif r == 13:
            # names prometheus_client's own default collectors hold in the process-wide default registry
            nm, ns = rng.choice([('python_info', None), ('info', 'python'), ('python_gc_objects_collected', ''),
                                 ('gc_objects_collected', 'python'), ('process_virtual_memory_bytes', None),
                                 ('virtual_memory', 'process'), ('process_cpu_seconds', None), ('max_fds', 'process')])
            c['name'], c['ns'] = nm, ns
            if rng.random() < 0.5:
                c['unit'] = 'bytes' if nm == 'virtual_memory' else None
                c['labels'] = []
        elif r == 14:
            c['name'], c['ns'] = '_total', rng.choice([None, '', None, 'deep'])     # empty name after the _total strip
            c['unit'] = rng.choice([None, c['unit']])
        else:
            c['name'] = rng.choice(['hits_counter', 'm_gauge', 'ünï', 'a b', 'hits:x'])
        calls.insert(rng.randint(0, len(calls)), c)
    return case


def corpus():
    c = {'m': 'counter', 'name': 'hits', 'labels': [['a', 'x']], 'ns': 'deep', 'help': None, 'unit': 'ms', 'value': 6}
    g = {'m': 'gauge', 'name': 'depth', 'labels': [], 'ns': 'shop', 'help': 'h', 'unit': None, 'value': 8}
    h = {'m': 'histogram', 'name': 'lat', 'labels': [['k', 'x'], ['env', 'prod']], 'ns': 'deep', 'help': '', 'unit': 'ms', 'value': 3}
    s = {'m': 'summary', 'name': 'sz', 'labels': [], 'ns': 'deep', 'help': 'size', 'unit': 'bytes', 'value': 10}
    return [
        {'kind': 'prom', 'stream': 'edge', 'calls': [c, dict(c, value='nan'), dict(c, value=8), dict(h, value='nan'), dict(s, value='inf'),
                                                      dict(s, value='-inf'), dict(g, value='-inf'), dict(c, name='neg', value='-inf')]},
        {'kind': 'prom', 'stream': 'edge', 'calls': [dict(g, name='python_info', ns=None), dict(c, name='gc_objects_collected', ns='python', labels=[], unit=None),
                                                      dict(c, name='_total', ns=None, unit=None, labels=[]), dict(c, name='_total', ns=None, unit='ms', labels=[]), g]},
        {'kind': 'prom', 'stream': 'consistent', 'calls': [c, g, dict(c, value=4), dict(g, value=-12), h, s, dict(h, value=5),
                                                            dict(h, labels=[['env', 'prod'], ['k', 'x']], value=1), dict(s, value=2)]},
        {'kind': 'prom', 'stream': 'edge', 'calls': [c, dict(c, ns='other'), dict(c, value=-4), dict(c, labels=[]),
                                                      dict(g, name='hits_ms', ns='deep'), dict(h, labels=[['le', 'x']])]},
        {'kind': 'prom', 'stream': 'edge', 'calls': [dict(c, name='x_total', labels=[], unit=None), dict(g, name='x', ns='deep'),
                                                      dict(g, name='', ns='deep'), dict(s, name='x', ns=None)]},
    ]


# --------------------------------------------------------------------------------------- implementation
def q(v):
    """a scraped float in quarter units (ints stay ints when exact); nan / inf by name"""
    if v != v:
        return 'nan'
    if v in (float('inf'), float('-inf')):
        return 'inf' if v > 0 else '-inf'
    x = v * 4
    return int(x) if x == int(x) else 'inexact:%r' % (v,)


def read_object(obj):
    ms = list(obj.collect())
    if len(ms) != 1:
        return {'error': 'collect() gave %d metric families' % len(ms)}
    m = ms[0]
    series = {}
    for s in m.samples:
        labels = tuple(sorted((k, v) for k, v in s.labels.items() if not (k == 'le' and s.name.endswith('_bucket'))))
        ent = series.setdefault(labels, {})
        suffix = s.name[len(m.name):]
        if suffix in ('', '_total'):
            ent['sum' if m.type in ('counter', 'gauge') else 'value'] = q(s.value)
        elif suffix == '_sum':
            ent['sum'] = q(s.value)
        elif suffix == '_count':
            ent['count'] = int(s.value)
        elif suffix == '_bucket' and s.labels.get('le') == '+Inf':
            ent['inf_bucket'] = int(s.value)
    return {'cls': m.type, 'fullName': m.name, 'doc': m.documentation, 'labelNames': list(obj._labelnames),
            'series': sorted([[list(map(list, k)), v] for k, v in series.items()], key=lambda r: r[0])}


def run_impl(case):
    import deep.logging
    from deep.api.plugin.metric.prometheus_metrics import PrometheusPlugin
    from prometheus_client import REGISTRY
    plugin = PrometheusPlugin(None)
    before = set(REGISTRY._collector_to_names)
    logged = []
    orig = deep.logging.exception
    deep.logging.exception = lambda *a, **k: logged.append(a[0] if a else '')
    obs = {'calls': []}
    try:
        for c in case['calls']:
            n0 = len(logged)
            ent = {}
            if isinstance(c['value'], str):
                value = float(c['value'])
            else:
                value = c['value'] / 4
                if value == int(value) and c['value'] % 8 == 0:
                    value = int(value)          # the default metric value reaches a processor as an int
            try:
                getattr(plugin, c['m'])(c['name'], dict(map(tuple, c['labels'])), c['ns'], c['help'], c['unit'], value)
            except BaseException as e:  # noqa: B902
                ent['raised'] = f'{type(e).__name__}: {e}'
            ent['logged'] = len(logged) - n0
            obs['calls'].append(ent)
        cache = plugin._cache
        obs['families'] = [[k, read_object(o)] for k, o in cache.items()]
        obs['registered'] = [o in REGISTRY._collector_to_names for o in cache.values()]
        # what a scrape of the default registry answers for every call's time series (the oracle's view)
        scrape = []
        for c in case['calls']:
            scrape.append({n: REGISTRY.get_sample_value(n, dict(map(tuple, c['labels']))) for n in sample_names(c)}
                          if case['stream'] == 'consistent' else {})
        obs['scrape'] = scrape
    finally:
        deep.logging.exception = orig
        try:
            plugin.clear()
            obs['afterClear'] = len(plugin._cache)
        except BaseException as e:  # noqa: B902
            obs['clear_raised'] = f'{type(e).__name__}: {e}'
            for o in list(plugin._cache.values()):
                try:
                    REGISTRY.unregister(o)
                except Exception:   # noqa: B902
                    pass
        # nothing of this case may stay in the process-wide registry (a plugin that loses track of what it registered
        # would otherwise colour the next case)
        left = [o for o in list(REGISTRY._collector_to_names) if o not in before]
        for o in left:
            try:
                REGISTRY.unregister(o)
            except Exception:   # noqa: B902
                pass
        obs['left_registered'] = len(left)
    return obs


# --------------------------------------------------------------------------------------- reference (from the statement)
def exposition_name(c):
    """<namespace>_<name>[_<unit>] — the Prometheus naming convention for namespace / unit"""
    n = (c['ns'] + '_' if c['ns'] else '') + c['name']
    if c['unit']:
        n += '_' + c['unit']
    return n


def sample_names(c):
    n = exposition_name(c)
    return {'counter': [n + '_total'], 'gauge': [n], 'histogram': [n + '_count', n + '_sum'],
            'summary': [n + '_count', n + '_sum']}[c['m']]


def oracle(case, obs):
    v = []
    for i, ent in enumerate(obs['calls']):
        if 'raised' in ent:
            v.append(f'call {i}: the processor raised into the agent: {ent["raised"]}')
    if 'clear_raised' in obs:
        v.append('clear() raised: ' + obs['clear_raised'])
    if obs.get('left_registered'):
        v.append(f'after clear() {obs["left_registered"]} client object(s) of the plugin are still registered '
                 f'(clear: "remove any registrations")')
    if v or case['stream'] != 'consistent':
        return v[:4]
    # every call must be visible in the scrape, with the accumulated value of its time series
    want = {}
    for c in case['calls']:
        key = (c['m'], exposition_name(c), tuple(sorted(map(tuple, c['labels']))))
        cnt, tot = want.get(key, (0, 0))
        want[key] = (cnt + 1, tot + c['value'])
    for i, (c, sc) in enumerate(zip(case['calls'], obs['scrape'])):
        key = (c['m'], exposition_name(c), tuple(sorted(map(tuple, c['labels']))))
        cnt, tot = want[key]
        n = exposition_name(c)
        exp = {'counter': {n + '_total': tot / 4}, 'gauge': {n: tot / 4},
               'histogram': {n + '_count': float(cnt), n + '_sum': tot / 4},
               'summary': {n + '_count': float(cnt), n + '_sum': tot / 4}}[c['m']]
        if sc != exp:
            v.append(f'call {i}: {c["m"]} {c["name"]!r} namespace {c["ns"]!r} unit {c["unit"]!r} labels {dict(map(tuple, c["labels"]))!r}: '
                     f'a scrape of the registry shows {sc!r}, expected {exp!r} ({cnt} report(s), values adding up to {tot / 4})')
            break
    for (k, fam), reg in zip(obs['families'], obs['registered']):
        if not reg:
            v.append(f'the client object cached under {k!r} is not registered in the default registry')
    # help text: the documentation of the family is the metric's help (or empty)
    for c in case['calls']:
        for k, fam in obs['families']:
            if fam.get('fullName') == exposition_name(c) and fam.get('cls') == c['m'] and fam.get('doc') != (c['help'] or ''):
                v.append(f'{c["m"]} {c["name"]!r}: help {fam.get("doc")!r}, expected {(c["help"] or "")!r}')
                return v[:4]
    return v[:4]


# --------------------------------------------------------------------------------------- model
def model_request(case, obs):
    # the plugin receives a dict: the model gets the dict's items (unique keys, insertion order)
    return {'op': 'prom', 'calls': [dict(c, labels=[list(kv) for kv in dict(map(tuple, c['labels'])).items()])
                                    for c in case['calls']]}


def compare(case, obs, resp):
    if 'error' in resp:
        return ['model error: ' + resp['error']]
    d = []
    for i, (ent, out) in enumerate(zip(obs['calls'], resp['outcomes'])):
        if out == 'no-such-operation':
            d.append(f'call {i}: the model knows no operation {case["calls"][i]["m"]!r}')
            continue
        name, propagates = out
        if bool(propagates) != ('raised' in ent):
            d.append(f'call {i}: model propagates={propagates} ({name}) vs implementation {ent.get("raised")!r}')
        elif not propagates and (name == 'ok') != (ent['logged'] == 0):
            d.append(f'call {i}: model outcome {name} vs implementation logged {ent["logged"]} error(s)')
    mf = []
    for f in resp['families']:
        series = []
        for lv, cnt, tot in f['children']:
            val = {'sum': tot}
            if f['cls'] in ('histogram', 'summary'):
                val['count'] = cnt
                if f['cls'] == 'histogram':
                    val['inf_bucket'] = cnt
            series.append([sorted([list(p) for p in zip(f['labelNames'], lv)]), val])
        mf.append([f['key'], {'cls': f['cls'], 'fullName': f['fullName'], 'doc': f['doc'], 'labelNames': f['labelNames'],
                              'series': sorted(series, key=lambda r: r[0])}])
    if mf != obs['families']:
        for a, b in zip(mf, obs['families']):
            if a != b:
                d.append(f'cached object: model {a!r} vs implementation {b!r}')
                break
        else:
            d.append(f'cache: model keys {[k for k, _ in mf]!r} vs implementation {[k for k, _ in obs["families"]]!r}')
    if not all(obs['registered']):
        d.append('a cached object is not registered (the model registers every cached object)')
    if obs.get('afterClear') != resp['afterClear']:
        d.append(f'after clear(): model {resp["afterClear"]} cached vs implementation {obs.get("afterClear")}')
    return d[:3]


def label(case, obs):
    failed = sum(1 for e in obs['calls'] if e.get('logged'))
    return f"prom/{case['stream']}/fam{min(len(obs.get('families', [])), 3)}/" + ('refused' if failed else 'allok')


def nontrivial(case, obs):
    fams = obs.get('families', [])
    return len(case['calls']) >= 2 and any(len(f.get('series', [])) >= 1 for _, f in fams)


def shrink(case):
    xs = case['calls']
    for i in range(len(xs)):
        if len(xs) > 1:
            c = dict(case)
            c['calls'] = xs[:i] + xs[i + 1:]
            yield c
    for i, x in enumerate(xs):
        if x['labels']:
            for j in range(len(x['labels'])):
                # drop one label name from EVERY call of the same identity (keeps the case consistent)
                key = x['labels'][j][0]
                c = dict(case)
                c['calls'] = [dict(y, labels=[kv for kv in y['labels'] if kv[0] != key])
                              if (y['m'], y['name']) == (x['m'], x['name']) else y for y in xs]
                yield c
            break


def known_candidate(case):
    return None


_ = core
