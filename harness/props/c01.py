"""C01 — host transparency: differential with/without-agent oracle over real host programs under sys.settrace, and
the fault enumeration of DESIGN §5 (every internal call boundary of the handler, both exception classes)."""
import gc
import json
import sys
import threading

import core
import faultinj
import fc_env
import hostprogs

ID = 'C01'
EXTRACT = ['guards', 'o8_hosttouch']
LEAN_TARGETS = ['DeepModel.Props.C01']
AUDIT = 'DeepModel/Audit/C01.lean'
DRIVER = 'DeepModel/Driver/C01.lean'
BUDGET = {'quick': 360, 'thorough': 6000}
TIME = {'quick': 75, 'thorough': 840}
RULE = ('scenario = host program (calls, recursion, exceptions, generators/iterators, threads, raising dunders, seeded '
        'random, finalizers/weakrefs, classes/closures, data structures, loops, source-less "ghost" module) x input x 1-4 '
        'tracepoints (snapshot/log/metric/line span/method span/method tracepoint; watches, conditions, log templates, '
        'metric expressions and labels, well-formed and malformed; fire_count 1/2/-1) x optional always-failing plugin '
        'callbacks. Every scenario is run without the agent, with the agent, and then re-run with ONE injected fault: all '
        'functions/methods/property getters of deep.* (and the plugin callbacks and host-class methods) are wrapped; the '
        'k-th internal call made while trace_call is active raises an Exception subclass, a BaseException subclass, or a subclass '
        'of the built-in SystemExit / KeyboardInterrupt, k sampled '
        'evenly over 1..N (N = number of internal calls of the scenario). After main() a probe function with its own log '
        'tracepoint is run in the same thread and in a new thread. Non-trivial = the agent produced at least one effect '
        'in the fault-free run and (for fault cases) the fault fired. Correspondence: the dynamic stack of the fault is '
        'resolved through the extracted skeletons by the Lean model (Guard.resolve); its verdict (which function catches) '
        'is compared with the function that really caught it.')
TRUSTED = ['harness/skeleton.py: every call expression of a function body is listed as a call site; expressions '
           'without calls, len/isinstance/super and the logging functions do not raise (whitelist printed in evidence)',
           'CPython: a trace function is removed only when it raises; tracing is off while the trace function runs',
           'faultinj: a fault is raised at the call boundary of the wrapped callee (the callee body does not run)']
ASSUMPTIONS = ['expressions in tracepoints are side-effect free (the property quantifies over such)',
               'asynchronous exceptions (signals) inside the handler are out of scope',
               'non-interference of the agent\'s reads with host state is exercised by the differential oracle (incl. the live '
               'namespaces of module-body and class-body frames, host program modbody); proved is only the frame condition over the '
               'extracted table of host-touching operations (no store/delete/mutation of a host-aliased value; reads within the '
               'side-effect-free protocols) — the taint analysis of harness/extract/o8_hosttouch.py is trusted']

_G = {}
ADDR = __import__('re').compile(r'0x[0-9a-fA-F]+')      # object addresses in reprs differ between runs


def G():
    """lazily built globals: host programs, site tables, wrappers."""
    if not _G:
        core.use_repo()
        hosts = hostprogs.Hosts()
        n = faultinj.install()
        for cls in (fc_env.FcPlugin, fc_env.FcResource, fc_env.FcDecorator, fc_env.FcLogger, fc_env.FcMetric,
                    fc_env.FcSpan, fc_env.FcSpanProcessor):
            faultinj.wrap_class(cls, 'harness')
        for name in hosts.modules:
            for c in hosts.classes(name):
                faultinj.wrap_class(c, 'host')
        sys.path.insert(0, core.HERE + '/extract')
        import guards
        # are the Lean tables the translation of the CURRENT source?  (core falls back to the committed baseline
        # translation when the current one does not carry the proofs; call-site ids are then not comparable)
        try:
            cur = guards.generate()
        except Exception:
            cur = None
        try:
            on_disk = open(core.LEAN + '/' + guards.OUT, encoding='utf-8').read()
        except OSError:
            on_disk = ''
        _G['by_text'] = (cur != on_disk)
        _G.update(hosts=hosts, wrapped=n, tables=guards.tables(), ref={}, base={}, counts={}, by_region={}, unmapped=0, mapped=0,
                  regions={}, catchers={})
    return _G


# --------------------------------------------------------------------------------------------- scenarios
WATCHES = ['err', 'self.last_error', 'opts', 'cache', 'len(locals())', 'locals()', '1/0', 'undefined_name', 'str(list(locals().values()))', 'max([1, 2])', '(',
           'sorted(locals())', '[k for k in locals()]', 'type(locals()).__name__']
CONDS = [None, None, 'True', 'False', '1/0', 'len(locals()) > 0', 'nope', '', 'len(locals()) > 1000']
LOGS = ['failed with {err}', 'hit {len(locals())}', 'x={undefined}', 'plain text', 'bad {', '{1/0}', '{}', 'v={sorted(locals())!r:>5}',
        '{len(locals())} and {max([3, 4])}']
METRIC_TYPES = ['COUNTER', 'GAUGE', 'HISTOGRAM', 'SUMMARY']
METRIC_EXPRS = [None, 'len(locals())', '1/0', '"text"', '7']
KINDS = ['snapshot', 'snapshot', 'log', 'metric', 'span_line', 'span_method', 'method', 'snapshot_log']
FUNCS = {'calls': ['leaf', 'mid'], 'recursion': ['fact', 'fib'], 'exceptions': ['risky', 'guarded'],
         'generators': ['squares', '__next__'], 'threads': ['work'], 'dunders': ['touch'], 'seeded_random': ['draw'],
         'finalizers': ['use'], 'finalizers_nogc': ['use'], 'classes': ['deposit', 'fee', 'inc'], 'data': ['build', 'mutate'], 'loops': ['scan'],
         'ghost': ['handle', 'helper'], 'tracking_dicts': ['configure'], 'owned_exception': ['parse'],
         'one_shot': ['prepare', 'gen'], 'del_order': ['main'], 'closure_threads': ['audit', 'deposit'],
         'modbody': ['helper', 'size', '<module>', 'Shelf'], 'spy': ['look'], 'interp_state': ['report']}


def random_tp(rng, prog, idx):
    marks = sorted(G()['hosts'].marks[prog])
    kind = rng.choice(KINDS)
    tp = {'id': f'tp{idx}', 'kind': kind, 'mark': rng.choice(marks), 'fire_count': rng.choice(['1', '2', '-1', '-1'])}
    c = rng.choice(CONDS)
    if c is not None:
        tp['condition'] = c
    if kind in ('snapshot', 'snapshot_log', 'method'):
        tp['watches'] = rng.sample(WATCHES, rng.randint(0, 3))
        tp['frame_type'] = rng.choice(['single_frame', 'all_frame', 'no_frame', None])
    if kind in ('log', 'snapshot_log'):
        tp['log_msg'] = rng.choice(LOGS)
    if kind == 'metric':
        tp['metrics'] = [{'type': rng.choice(METRIC_TYPES), 'expr': rng.choice(METRIC_EXPRS),
                          'labels': rng.choice([[], [['k', 'static', None]], [['e', None, 'len(locals())']],
                                                [['bad', None, '1/0']]])}
                         for _ in range(rng.randint(1, 2))]
    if kind in ('span_method', 'method'):
        tp['method_name'] = rng.choice(FUNCS[prog] + [None])
    return tp


def random_scenario(rng):
    h = G()['hosts']
    prog = rng.choice(h.names())
    sc = {'kind': 'scenario', 'prog': prog, 'inp': rng.randint(0, 3),
          'tps': [random_tp(rng, prog, i) for i in range(rng.randint(1, 4))]}
    if rng.random() < 0.25:
        cb = rng.choice(['decorate', 'log', 'metric', 'create_span', 'close'])
        sc['plugin_faults'] = {cb: rng.choice(['exc', 'base'])}
    return sc


def corpus():
    return [
        # D1: method tracepoint without method_name on a module whose source is unavailable
        {'kind': 'scenario', 'prog': 'ghost', 'inp': 1,
         'tps': [{'id': 'tp0', 'kind': 'method', 'mark': 'A', 'fire_count': '-1', 'method_name': None, 'watches': []}]},
        # f435761: the nameless method tracepoint cannot be matched (no source); the other tracepoint of the file fires
        {'kind': 'scenario', 'prog': 'ghost', 'inp': 1, 'expect_logs': {'tp1': 1},
         'tps': [{'id': 'tp0', 'kind': 'method', 'mark': 'A', 'fire_count': '-1', 'method_name': None, 'watches': []},
                 {'id': 'tp1', 'kind': 'log', 'mark': 'B', 'fire_count': '-1', 'log_msg': 'v={v}'}]},
        # D2 / the probe of notes/probes/c01_callback_fault_dead_thread.py: a span that fails to close (either class),
        # and a later tracepoint of the same thread
        {'kind': 'scenario', 'prog': 'calls', 'inp': 2, 'plugin_faults': {'close': 'base'},
         'tps': [{'id': 'tp0', 'kind': 'span_line', 'mark': 'A', 'fire_count': '-1'},
                 {'id': 'tp1', 'kind': 'log', 'mark': 'B', 'fire_count': '-1', 'log_msg': 'total {n}'}]},
        {'kind': 'scenario', 'prog': 'calls', 'inp': 2, 'plugin_faults': {'close': 'exc'},
         'tps': [{'id': 'tp0', 'kind': 'span_method', 'mark': 'A', 'fire_count': '-1', 'method_name': 'leaf'},
                 {'id': 'tp1', 'kind': 'snapshot', 'mark': 'D', 'fire_count': '1', 'watches': ['r']}]},
        # the host seeds `random` and draws across snapshot hits
        {'kind': 'scenario', 'prog': 'seeded_random', 'inp': 2,
         'tps': [{'id': 'tp0', 'kind': 'snapshot', 'mark': 'A', 'fire_count': '-1', 'watches': ['n']},
                 {'id': 'tp1', 'kind': 'snapshot_log', 'mark': 'C', 'fire_count': '-1', 'log_msg': 'tail {len(vals)}'}]},
        # results depend on objects being finalised when the function that held them returns
        {'kind': 'scenario', 'prog': 'finalizers', 'inp': 2,
         'tps': [{'id': 'tp0', 'kind': 'snapshot', 'mark': 'B', 'fire_count': '-1', 'watches': ['lease', 'r'],
                  'frame_type': 'all_frame'},
                 {'id': 'tp1', 'kind': 'span_line', 'mark': 'A', 'fire_count': '-1'}]},
        # locals that are dict subclasses with side-effecting access methods: the agent must not call them
        {'kind': 'scenario', 'prog': 'tracking_dicts', 'inp': 1,
         'tps': [{'id': 'tp0', 'kind': 'snapshot', 'mark': 'D', 'fire_count': '-1', 'watches': ['opts', 'cache'],
                  'frame_type': 'all_frame'},
                 {'id': 'tp1', 'kind': 'snapshot_log', 'mark': 'F', 'fire_count': '-1', 'log_msg': 'o={opts} c={cache}'}]},
        # an exception object the host still owns is named by a watch / a log template inside the except block
        {'kind': 'scenario', 'prog': 'owned_exception', 'inp': 1,
         'tps': [{'id': 'tp0', 'kind': 'snapshot', 'mark': 'B', 'fire_count': '-1', 'watches': ['err', 'self.last_error']},
                 {'id': 'tp1', 'kind': 'log', 'mark': 'C', 'fire_count': '-1', 'log_msg': 'failed with {err}'},
                 {'id': 'tp2', 'kind': 'snapshot', 'mark': 'E', 'fire_count': '-1', 'watches': ['err']}]},
        # one result of an event fails (the tracepoint logger raises): the other results of the event are kept
        {'kind': 'scenario', 'prog': 'calls', 'inp': 2, 'plugin_faults': {'log': 'exc'},
         'tps': [{'id': 'tp0', 'kind': 'snapshot_log', 'mark': 'A', 'fire_count': '-1', 'log_msg': 'n={n}', 'watches': ['n']},
                 {'id': 'tp1', 'kind': 'snapshot', 'mark': 'A', 'fire_count': '-1', 'watches': []}]},
        # one-shot iterators / views / a deque in the locals of a snapshot: the host consumes them afterwards
        {'kind': 'scenario', 'prog': 'one_shot', 'inp': 2,
         'tps': [{'id': 'tp0', 'kind': 'snapshot', 'mark': 'A', 'fire_count': '-1', 'frame_type': 'all_frame',
                  'watches': ['r_tuple', 'g', 'keys', 'dq', 'z']},
                 {'id': 'tp1', 'kind': 'snapshot_log', 'mark': 'B', 'fire_count': '-1', 'log_msg': '{r_str} {r_seq} {m} {e}'}]},
        # `del x; stmt` on one line of a function WITHOUT tracepoints: finalisation order must not change
        {'kind': 'scenario', 'prog': 'del_order', 'inp': 0,
         'tps': [{'id': 'tp0', 'kind': 'log', 'mark': 'C', 'fire_count': '-1', 'log_msg': 'done'}]},
        # another host thread rebinds a closure variable while this thread is inside the handler (metric processor = gate)
        {'kind': 'scenario', 'prog': 'closure_threads', 'inp': 1,
         'tps': [{'id': 'tp0', 'kind': 'metric', 'mark': 'A', 'fire_count': '-1',
                  'metrics': [{'type': 'COUNTER', 'expr': None, 'labels': []}]}]},
        # module-body and class-body frames: their f_locals ARE the live namespace of the module / of the class being built.
        # (i) a line tracepoint on a line of the script body, (ii) a function called from the body with all_frame (the
        # <module> frame is collected), (iii) lines of a class body; the host returns both namespaces afterwards
        {'kind': 'scenario', 'prog': 'modbody', 'inp': 1,
         'tps': [{'id': 'tp0', 'kind': 'snapshot', 'mark': 'M', 'fire_count': '-1', 'watches': ['__name__', 'ITEMS']}]},
        {'kind': 'scenario', 'prog': 'modbody', 'inp': 2,
         'tps': [{'id': 'tp0', 'kind': 'snapshot_log', 'mark': 'H', 'fire_count': '-1', 'frame_type': 'all_frame',
                  'log_msg': 'k={k} of {__name__}', 'watches': ['n']}]},
        {'kind': 'scenario', 'prog': 'modbody', 'inp': 0,
         'tps': [{'id': 'tp0', 'kind': 'snapshot', 'mark': 'C', 'fire_count': '-1', 'frame_type': 'all_frame', 'watches': ['slots']},
                 {'id': 'tp1', 'kind': 'snapshot', 'mark': 'D', 'fire_count': '-1', 'watches': ['__qualname__', 'locals()']},
                 {'id': 'tp2', 'kind': 'snapshot_log', 'mark': 'N', 'fire_count': '-1', 'log_msg': 't={total}'}]},
        # the host sets process-wide interpreter state of its own (digit limit, recursion limit, …) and holds an int just
        # past ITS digit limit in a collected frame: the state is compared after the run
        {'kind': 'scenario', 'prog': 'interp_state', 'inp': 1,
         'tps': [{'id': 'tp0', 'kind': 'snapshot_log', 'mark': 'A', 'fire_count': '-1', 'frame_type': 'all_frame',
                  'watches': ['big', 'n'], 'log_msg': 'n has {len(str(n))} digits'},
                 {'id': 'tp1', 'kind': 'snapshot', 'mark': 'B', 'fire_count': '-1', 'watches': ['big']}]},
        # a recording host object as a local, a list item and a dict value: snapshot (all frames) + watches + log template +
        # metric expression + condition on it; every dunder the agent touches is checked (oracle + host-touch table)
        {'kind': 'scenario', 'prog': 'spy', 'inp': 1,
         'tps': [{'id': 'tp0', 'kind': 'snapshot_log', 'mark': 'B', 'fire_count': '-1', 'frame_type': 'all_frame',
                  'watches': ['s', 'box', 'len(box)'], 'log_msg': 's={s} box={box}', 'condition': 's'},
                 {'id': 'tp1', 'kind': 'metric', 'mark': 'B', 'fire_count': '-1',
                  'metrics': [{'type': 'GAUGE', 'expr': 's', 'labels': [['who', None, 's']]}]}]},
        # all four action kinds on one line of a threaded host
        {'kind': 'scenario', 'prog': 'threads', 'inp': 1,
         'tps': [{'id': 'tp0', 'kind': 'snapshot_log', 'mark': 'A', 'fire_count': '-1', 'log_msg': 'k={k}', 'watches': ['box']},
                 {'id': 'tp1', 'kind': 'metric', 'mark': 'A', 'fire_count': '-1',
                  'metrics': [{'type': 'COUNTER', 'expr': 'k', 'labels': [['e', None, 'len(box)']]}]},
                 {'id': 'tp2', 'kind': 'span_line', 'mark': 'A', 'fire_count': '-1'},
                 {'id': 'tp3', 'kind': 'log', 'mark': 'B', 'fire_count': '2', 'log_msg': 'v={v}'}]},
    ]


SHARE = {'action': 0.40, 'callbacks': 0.15, 'results': 0.15, 'other': 0.30}


NOGC = {'kind': 'scenario', 'prog': 'finalizers_nogc', 'inp': 1, 'stream': 'nogc',
        'tps': [{'id': 'tp0', 'kind': 'snapshot', 'mark': 'B', 'fire_count': '-1', 'watches': [], 'frame_type': 'single_frame'}]}


def known_replays():
    return [('C01/finalisation-delayed-until-gc',
             'a snapshot keeps the locals of the paused frame alive until the next cyclic gc: a host that relies on '
             'reference-count finalisation (no gc.collect()) sees __del__/weakref.finalize run later than without the agent',
             dict(NOGC))]


def known_finding(case, obs):
    # structural: the host relies on refcount finalisation without calling gc.collect() (labelled stream only)
    if case.get('prog') in hostprogs.KNOWN_FINDING_PROGRAMS:
        return 'C01/finalisation-delayed-until-gc'
    return None


def faults_for(rng, sc, m):
    """fault cases of a scenario whose fault-free run is known: call indices spread over the regions of the handler
    (action processing / callback processing / result processing / matching and the rest), both classes"""
    key = core.canon(scenario_of(sc))
    n_calls = G()['counts'].get(key)
    if not n_calls or sc.get('stream'):
        return
    by = G()['by_region'].get(key) or {'other': list(range(1, n_calls + 1))}
    ks = set()
    for reg, idx in sorted(by.items()):
        want = max(1, int(m * SHARE.get(reg, 0.1)))
        if len(idx) <= want:
            ks.update(idx)
        else:
            step = len(idx) / want
            ks.update(idx[min(len(idx) - 1, int(i * step + rng.random() * step))] for i in range(want))
    for i, k in enumerate(sorted(ks)):
        c = dict(sc)
        c['kind'] = 'fault'
        # classes: Exception, a BaseException subclass, and the two BUILT-IN ones an application meets in practice
        # (sys.exit() in a plugin / host dunder, ctrl-c arriving inside one)
        c['fault'] = {'k': k, 'cls': ('exc', 'base', 'sysexit', 'kbint', 'base', 'exc')[(i + rng.randrange(2)) % 6]}
        yield c


def gen(rng, tier):
    m = 26 if tier == 'quick' else 120
    for sc in corpus():
        yield from faults_for(rng, sc, m)
    n = 0
    while True:
        n += 1
        if n % 9 == 0:
            # separate labelled stream (known finding): refcount finalisation without gc.collect()
            c = dict(NOGC)
            c['inp'] = rng.randint(0, 3)
            c['tps'] = [dict(NOGC['tps'][0], mark=rng.choice(['A', 'B']), frame_type=rng.choice(['single_frame', 'all_frame']))]
            yield c
            continue
        sc = random_scenario(rng)
        yield sc
        yield from faults_for(rng, sc, m)


def scenario_of(case):
    return {k: v for k, v in case.items() if k not in ('kind', 'fault', 'stream', 'expect_logs')}


# --------------------------------------------------------------------------------------------- running
def canon_val(v):
    if isinstance(v, (str, int, bool, type(None))):
        return v
    if isinstance(v, float):
        return repr(v)
    if isinstance(v, (list, tuple)):
        return [canon_val(x) for x in v]
    if isinstance(v, dict):
        return {str(k): canon_val(x) for k, x in v.items()}
    if isinstance(v, (set, frozenset)):
        return sorted(str(x) for x in v)
    return repr(v)


def interp_state():
    """process-wide / thread-wide interpreter state a host may have set and the agent must leave alone"""
    import decimal
    st = {'recursionlimit': sys.getrecursionlimit(), 'switchinterval': round(sys.getswitchinterval(), 6),
          'decimal_prec': decimal.getcontext().prec, 'decimal_rounding': decimal.getcontext().rounding,
          'dont_write_bytecode': sys.dont_write_bytecode, 'gc_enabled': gc.isenabled(), 'gc_threshold': list(gc.get_threshold()),
          'excepthook_is_default': sys.excepthook is sys.__excepthook__,
          'displayhook_is_default': sys.displayhook is sys.__displayhook__,
          'profile_is_none': sys.getprofile() is None, 'threading_profile_is_none': threading.getprofile() is None
          if hasattr(threading, 'getprofile') else None}
    if hasattr(sys, 'get_int_max_str_digits'):
        st['int_max_str_digits'] = sys.get_int_max_str_digits()
    return st


def _restore_interp(saved):
    sys.setrecursionlimit(saved['recursionlimit'])
    sys.setswitchinterval(saved['switchinterval'])
    if 'int_max_str_digits' in saved:
        sys.set_int_max_str_digits(saved['int_max_str_digits'])


def run_host(mod, inp, trace=None, after=None, nogc=False):
    """run main(inp, emit) on a fresh thread; `trace` = the trace function to install (None: untraced).
    nogc: the cyclic collector is switched off while the host runs (known-finding stream: only reference counting)"""
    res = {'out': []}
    saved = interp_state()
    if nogc:
        gc.collect()
        gc.disable()

    def body():
        if trace is not None:
            sys.settrace(trace)
        try:
            try:
                res['ret'] = canon_val(mod.main(inp, res['out'].append))
            except BaseException as e:      # noqa: B902
                res['exc'] = [type(e).__name__, canon_val(e.args)]
                del e
            res['interp'] = interp_state()      # as the host (and the agent, if attached) left it, in the host's thread
            if after is not None:
                after(res)
        finally:
            sys.settrace(None)
    t = threading.Thread(target=body)
    try:
        t.start()
        t.join(60)
    finally:
        if nogc:
            gc.enable()
        _restore_interp(saved)
    if t.is_alive():
        raise core.Infra('host program did not finish in 60 s')
    return res


def baseline(prog, inp):
    b = G()['base']
    key = f'{prog}:{inp}'
    if key not in b:
        b[key] = run_host(G()['hosts'].modules[prog], inp, nogc=prog in hostprogs.KNOWN_FINDING_PROGRAMS)
    return b[key]


def build_triggers(case):
    from deep.api.tracepoint.trigger import build_trigger
    from deep.api.tracepoint.tracepoint_config import MetricDefinition, LabelExpression
    h = G()['hosts']
    out = []
    for tp in case['tps']:
        prog = case['prog']
        line = h.marks[prog][tp['mark']]
        args = {'fire_count': tp.get('fire_count', '1'), 'fire_period': '0'}
        if 'condition' in tp:
            args['condition'] = tp['condition']
        kind = tp['kind']
        watches = list(tp.get('watches', []))
        metrics = []
        if tp.get('frame_type'):
            args['frame_type'] = tp['frame_type']
        if kind == 'log':
            args.update({'snapshot': 'no_collect', 'log_msg': tp.get('log_msg', 'log')})
        elif kind == 'snapshot_log':
            args['log_msg'] = tp.get('log_msg', 'log')
        elif kind == 'metric':
            args['snapshot'] = 'no_collect'
            for i, md in enumerate(tp.get('metrics', [])):
                labels = [LabelExpression(k, s, e) for k, s, e in md.get('labels', [])]
                metrics.append(MetricDefinition(f'm_{tp["id"]}_{i}', md['type'], labels, md.get('expr')))
        elif kind == 'span_line':
            args.update({'snapshot': 'no_collect', 'span': 'line'})
        elif kind == 'span_method':
            args.update({'snapshot': 'no_collect', 'span': 'method'})
            if tp.get('method_name'):
                args['method_name'] = tp['method_name']
        elif kind == 'method':
            args['stage'] = 'method_start'
            if tp.get('method_name'):
                args['method_name'] = tp['method_name']
        t = build_trigger(tp['id'], h.files[prog], line, args, watches, metrics)
        if t is not None:
            out.append(t)
    # the liveness probe
    out.append(build_trigger('probe', h.files['probe'], h.marks['probe']['P'],
                             {'snapshot': 'no_collect', 'log_msg': 'probe {c}', 'fire_count': '-1', 'fire_period': '0'},
                             [], []))
    return out


class GrpcStub:
    def __init__(self):
        self.channel = fc_env.FakeChannel()

    def metadata(self):
        return []


def agent_run(case, fault):
    """one run of the scenario with the agent attached; fault = None | {'k', 'cls'}"""
    from deep.config import ConfigService
    from deep.config.tracepoint_config import TracepointConfigService
    from deep.processor.trigger_handler import TriggerHandler
    from deep.push.push_service import PushService
    from deep.task import TaskHandler
    from deep.api.resource import Resource
    h = G()['hosts']
    rec = fc_env.Recorder()
    pf = case.get('plugin_faults', {})

    def fail(*cbs):
        return {cb: pf[cb] for cb in cbs if cb in pf}
    plugins = fc_env.make_plugins(rec, [
        {'kind': 'logger', 'name': 'lg', 'fail': fail('log')},
        {'kind': 'decorator', 'name': 'd1', 'fail': fail('decorate')},
        {'kind': 'decorator', 'name': 'd2'},
        {'kind': 'metric', 'name': 'm1', 'fail': fail('metric')},
        {'kind': 'metric', 'name': 'm2'},
        {'kind': 'span', 'name': 's1', 'fail': fail('create_span', 'close')},
        {'kind': 'span', 'name': 's2'}])
    if case['prog'] == 'closure_threads':
        # the second metric processor is a gate: while the traced thread is inside the handler the other host thread
        # is let go and waited for
        def gate():
            gates = h.modules['closure_threads'].GATES
            if gates.get('go') is not None and not gates['done'].is_set():
                gates['go'].set()
                gates['done'].wait(10)
        rec.hooks[('m2', 'metric')] = gate
    cfg = ConfigService({'APP_ROOT': h.dir}, tracepoints=TracepointConfigService())
    cfg.resource = Resource.get_empty()
    cfg.plugins = plugins
    th = TaskHandler()
    ex = fc_env.DeferredExecutor()
    th._pool = ex
    grpc = GrpcStub()
    handler = TriggerHandler(cfg, PushService(grpc, th))
    handler.new_config(build_triggers(case))
    probe = h.modules['probe'].probe
    info = {}

    def after(res):
        # still in the traced thread: is the trace function kept, does a later tracepoint of this thread fire?
        info['count'] = faultinj.STATE.count        # faults are placed in main() only
        info['regions'] = list(faultinj.STATE.regions)
        faultinj.STATE.record = False
        faultinj.STATE.k = None
        info['trace_kept'] = (sys.gettrace() == handler.trace_call)
        try:
            info['probe_ret'] = probe(3)
        except BaseException as e:      # noqa: B902
            info['probe_ret'] = 'raised ' + type(e).__name__
        info['trace_kept_after_probe'] = (sys.gettrace() == handler.trace_call)

    spy_log = getattr(h.modules[case['prog']], 'TOUCHED', None)
    if spy_log is not None:
        del spy_log[:]
    old_thr = threading.gettrace()
    faultinj.arm(fault['k'] if fault else None, fault['cls'] if fault else 'exc', record=fault is None)
    threading.settrace(handler.trace_call)
    try:
        res = run_host(h.modules[case['prog']], case['inp'], handler.trace_call, after,
                       nogc=case['prog'] in hostprogs.KNOWN_FINDING_PROGRAMS)
        rep = faultinj.report()
        faultinj.arm(None)
        n_same = len([e for e in rec.events if e[1] == 'log' and e[2][0] == 'probe'])
        # a fresh thread: not affected by whatever happened to the first one
        fresh = {}

        def body2():
            sys.settrace(handler.trace_call)
            try:
                fresh['ret'] = probe(4)
            except BaseException as e:      # noqa: B902
                fresh['ret'] = 'raised ' + type(e).__name__
            finally:
                fresh['kept'] = (sys.gettrace() == handler.trace_call)
                sys.settrace(None)
        t2 = threading.Thread(target=body2)
        t2.start()
        t2.join(60)
        rep2 = faultinj.report()
    finally:
        threading.settrace(old_thr)
        faultinj.arm(None)
    n_all = len([e for e in rec.events if e[1] == 'log' and e[2][0] == 'probe'])
    # snapshots handed to the push service (deferred executor): which tracepoint, which decorations
    effects = {}

    def eff(tp):
        return effects.setdefault(tp, {'snapshots': [], 'logs': [], 'metrics': [], 'spans': []})
    for f, fn, args in list(ex.queue):
        snap = args[0]
        try:
            eff(snap.tracepoint.id)['snapshots'].append(sorted(k for k in snap.attributes.keys() if k.startswith('deco.')))
        except BaseException as e:      # noqa: B902
            eff('?')['snapshots'].append('unreadable ' + type(e).__name__)
    sent_ok = 0
    try:
        ex.run_all()
        sent_ok = len(grpc.channel.sent)
    except BaseException:       # noqa: B902
        pass
    for name, cb, detail in rec.events:
        if cb == 'log':
            eff(detail[0])['logs'].append([name, ADDR.sub('0x?', str(detail[1]))])
        elif cb == 'metric':
            tp = detail[1].split('_')[1] if detail[1].startswith('m_') else '?'
            eff(tp)['metrics'].append([name, detail[0], detail[1], repr(detail[2])])
        elif cb in ('create_span', 'close'):
            eff(detail)['spans'].append([name, cb])
    host = {k: res.get(k) for k in ('ret', 'exc', 'out', 'interp') if k in res}
    return {'host': host, 'trace_kept': bool(info.get('trace_kept')) and bool(info.get('trace_kept_after_probe')),
            'probe_same': n_same >= 1 and info.get('probe_ret') == 11,
            'probe_new': n_all >= n_same + 1 and fresh.get('ret') == 13 and bool(fresh.get('kept')),
            'escaped': rep['escaped'] + rep2['escaped'][len(rep['escaped']):], 'effects': effects,
            'count': info.get('count', rep['count']), 'call_regions': info.get('regions', []),
            'entries': rep['entries'], 'fault': rep, 'snapshots_sent': sent_ok,
            'none_returns': rep['none_returns'] + rep2['none_returns'],
            'touched': sorted(set(spy_log)) if spy_log is not None else None}


def reference(case):
    """fault-free run of the scenario (cached): effects, number of internal calls"""
    sc = scenario_of(case)
    key = core.canon(sc)
    g = G()
    if key not in g['ref']:
        gc.collect()
        r = agent_run(sc, None)
        g['ref'][key] = r
        g['counts'][key] = r['count']
        by = {}
        for n, reg in r.pop('call_regions', []):
            by.setdefault(reg, []).append(n)
        g['by_region'][key] = by
    return g['ref'][key]


def mapped_stack(rep):
    """[[prog key, site]] innermost first, or None when a frame of a listed function is at an unknown position"""
    tables = G()['tables']
    out = []
    for rf, qual, pos in rep['stack']:
        if rf is None:
            continue
        key = rf + ':' + qual
        if key in tables:
            site = tables[key]['sites'].get(tuple(pos) if pos else None)
            if site is None:
                return None
            out.append([key, site])
        else:
            out.append([key, '-'])
    return out


def run_impl(case):
    g = G()
    base = baseline(case['prog'], case['inp'])
    ref = reference(case)
    obs = {'baseline': base, 'ref_effects': ref['effects'], 'n_calls': ref['count']}
    pf = case.get('plugin_faults') or {}
    if case['kind'] == 'scenario' and pf and all(c == 'exc' for c in pf.values()):
        # the same scenario with healthy plugins: what the OTHER plugins / results must still deliver
        sc = scenario_of(case)
        del sc['plugin_faults']
        obs['healthy_effects'] = reference(sc)['effects']
    if case['kind'] == 'fault':
        gc.collect()
        r = agent_run(scenario_of(case), case['fault'])
    else:
        r = ref
    rep = r['fault']
    obs.update({k: r[k] for k in ('host', 'trace_kept', 'probe_same', 'probe_new', 'escaped', 'effects', 'entries',
                                  'none_returns')})
    obs['touched'] = r.get('touched')
    obs['fired'] = rep['fired']
    obs['region'] = rep['region']
    obs['catcher'] = rep['catcher']
    obs['templates'] = rep.get('templates', [])
    if rep['fired']:
        st = mapped_stack(rep)
        obs['stack'] = st
        obs['raw_stack'] = [[rf, q, list(p) if p else None] for rf, q, p in rep['stack']][:12]
        obs['raw_stack_full'] = [[rf, q, list(p) if p else None] for rf, q, p in rep['stack']]
        g['mapped' if st is not None else 'unmapped'] += 1
        g['regions'][(rep['region'] or '').split(':')[0]] = g['regions'].get((rep['region'] or '').split(':')[0], 0) + 1
    return obs


# --------------------------------------------------------------------------------------------- judging
def covers(run, ref):
    """nothing of `ref` (effects of one tracepoint in the fault-free run) is missing in `run` (multiset inclusion per
    kind; the faulted run may have MORE: e.g. a span that the victim's pending callback kept from closing)"""
    from collections import Counter
    for kind, items in (ref or {}).items():
        have = Counter(core.canon(x) for x in (run or {}).get(kind, []))
        need = Counter(core.canon(x) for x in items)
        if need - have:
            return False
    return True


def oracle(case, obs):
    v = []
    if obs['escaped']:
        v.append(f'trace_call raised into the host program: {obs["escaped"][:3]}')
    if obs['host'] != obs['baseline']:
        v.append(f'host program behaves differently with the agent attached: {json.dumps(obs["host"])[:300]} vs '
                 f'{json.dumps(obs["baseline"])[:300]} without')
    bad = [n for n in (obs.get('touched') or []) if n not in SIDE_EFFECT_FREE]
    if bad:
        v.append(f'the agent invoked {bad} on a host object: not a side-effect-free protocol (a store, a delete, a call, '
                 f'a context manager, arithmetic or advancing an iterator changes or runs host state)')
    if not obs['trace_kept']:
        v.append('sys.gettrace() of the traced thread is no longer the handler')
    if obs['none_returns']:
        v.append(f'trace_call returned None {obs["none_returns"]} times although tracepoints are installed: CPython stops '
                 'line tracing of that frame')
    if not obs['probe_same']:
        v.append('a later tracepoint of the same thread no longer fires (tracing silently off for the thread)')
    if not obs['probe_new']:
        v.append('a tracepoint hit in a new thread does not fire')
    reg = obs.get('region') or ''
    isolated = reg.startswith('action:') or (reg.startswith('match:') and case.get('fault', {}).get('cls') == 'exc')
    if case['kind'] == 'fault' and obs['fired'] and isolated and not case.get('plugin_faults'):
        # a failure while processing one action (either class), or while matching one trigger (Exception class),
        # costs only the tracepoint(s) concerned
        victims = set(reg.split(':', 1)[1].split(','))
        what = 'processing the action of' if reg.startswith('action:') else 'matching the trigger of'
        for tp in sorted(set(obs['ref_effects']) | set(obs['effects'])):
            if tp in victims or tp == 'probe':
                continue
            if not covers(obs['effects'].get(tp), obs['ref_effects'].get(tp)):
                v.append(f'a failure while {what} {sorted(victims)} cost effects of {tp}: '
                         f'{json.dumps(obs["effects"].get(tp))[:200]} vs {json.dumps(obs["ref_effects"].get(tp))[:200]}')
                break
    if 'healthy_effects' in obs:
        owner = {'log': 'lg', 'decorate': 'd1', 'metric': 'm1', 'create_span': 's1', 'close': 's1'}
        bad = {owner[cb] for cb in case['plugin_faults']}

        def strip(eff):
            out = {}
            for kind, items in (eff or {}).items():
                if kind == 'snapshots':
                    out[kind] = [[d for d in sn if d[5:] not in bad] if isinstance(sn, list) else sn for sn in items]
                else:
                    out[kind] = [it for it in items if it[0] not in bad]
            return out
        for tp in sorted(obs['healthy_effects']):
            if not covers(strip(obs['effects'].get(tp)), strip(obs['healthy_effects'][tp])):
                v.append(f'a plugin callback failing with an Exception ({case["plugin_faults"]}) cost results that are not its '
                         f'own, tracepoint {tp}: {json.dumps(strip(obs["effects"].get(tp)))[:220]} vs with healthy plugins '
                         f'{json.dumps(strip(obs["healthy_effects"][tp]))[:220]}')
                break
    for tp, n in ((case.get('expect_logs') or {}) if case['kind'] == 'scenario' else {}).items():
        got = len((obs['effects'].get(tp) or {}).get('logs', []))
        if got < n:
            v.append(f'tracepoint {tp} logged {got} times, expected at least {n}')
    return v


ENTRY_KEY = 'deep/processor/trigger_handler.py:TriggerHandler.trace_call'


def text_stack(obs):
    """[[prog key, text of the call]] innermost first, from the current source's tables ('?' = not a known call)"""
    tables = G()['tables']
    out = []
    for rf, qual, pos in obs.get('raw_stack_full') or []:
        if rf is None:
            continue
        key = rf + ':' + qual
        site = (tables.get(key) or {'sites': {}})['sites'].get(tuple(pos) if pos else None)
        out.append([key, site.split(' ', 1)[1] if site and ' ' in site else '?'])
    return out


# SystemExit / KeyboardInterrupt are BaseException-class for the guard model
MODEL_CLS = {'sysexit': 'base', 'kbint': 'base'}

# dunder -> (kind, protocol) of the host-touch table that explains it
DUNDER_ROW = {'__getattribute__': ('read', 'getattr'), '__str__': ('read', 'str'), '__repr__': ('read', 'repr'),
              '__format__': ('read', 'format'), '__len__': ('read', 'len'), '__iter__': ('read', 'iter'),
              '__getitem__': ('read', 'getitem'), '__contains__': ('read', 'contains'), '__eq__': ('read', 'eq'),
              '__hash__': ('read', 'hash'), '__bool__': ('read', 'bool'), '__float__': ('read', 'number'),
              '__int__': ('read', 'number'), '__index__': ('read', 'number'), '__call__': ('call', 'call'),
              '__enter__': ('enter', 'with'), '__exit__': ('enter', 'with'), '__next__': ('consume', 'next'),
              '__setitem__': ('write', 'setitem'), '__delitem__': ('write', 'delitem'), '__setattr__': ('write', 'setattr'),
              '__delattr__': ('write', 'delattr')}
# what CPython ITSELF invokes on behalf of an allowed read (closure of the explanation; stated in HostTouchBase.lean):
# str()/format()/%s of a CONTAINER renders its elements with repr(); str() falls back to __repr__; list()/tuple()/sorted()
# ask __len__ for a size hint and fall back to __getitem__ iteration; a truth test uses __len__ when there is no __bool__;
# `in` / a dict-key or set operation on a container holding the object compares with __eq__ and __hash__.
EXPLAINED_BY = {
    '__repr__': [('read', 'repr'), ('read', 'str'), ('read', 'format')],
    '__str__': [('read', 'str'), ('read', 'format')],
    '__format__': [('read', 'format'), ('read', 'str')],
    '__iter__': [('read', 'iter')],
    '__len__': [('read', 'len'), ('read', 'iter'), ('read', 'bool')],
    '__getitem__': [('read', 'getitem'), ('read', 'iter'), ('read', 'contains')],
    '__contains__': [('read', 'contains')],
    '__eq__': [('read', 'eq'), ('read', 'contains'), ('read', 'getitem'), ('read', 'method:get')],
    '__hash__': [('read', 'hash'), ('read', 'contains'), ('read', 'getitem'), ('read', 'method:get'), ('read', 'iter')],
    '__bool__': [('read', 'bool')],
    '__float__': [('read', 'number')], '__int__': [('read', 'number')], '__index__': [('read', 'number')],
}

# the protocols the property's quantifier takes to be free of side effects (from the statement, not from the table)
SIDE_EFFECT_FREE = {'__getattribute__', '__str__', '__repr__', '__format__', '__len__', '__iter__', '__getitem__',
                    '__contains__', '__eq__', '__hash__', '__bool__', '__float__', '__int__', '__index__'}


def model_request(case, obs):
    if case['kind'] == 'scenario' and obs.get('touched'):
        return {'op': 'host_touch'}         # recording host: is every touched dunder explained by the extracted table?
    if case['kind'] != 'fault' or not obs.get('fired'):
        return None
    if G()['by_text']:
        # the model is the baseline translation: resolve by call text, then by the phase of trace_call
        st = text_stack(obs)
        if any(t == '?' and k in G()['tables'] for k, t in st):
            return None         # a call the extractor does not list (trivial getter): judged by the oracle only
        return {'op': 'resolve_text', 'cls': MODEL_CLS.get(case['fault']['cls'], case['fault']['cls']), 'region': (obs.get('region') or 'other').split(':')[0],
                'stack': st, 'has_try': {k: True for k, _ in st if k in G()['tables']}}
    if obs.get('stack') is None:
        return None
    return {'op': 'resolve', 'cls': MODEL_CLS.get(case['fault']['cls'], case['fault']['cls']), 'stack': obs['stack']}


def compare(case, obs, resp):
    if 'error' in resp:
        return ['model error: ' + resp['error']]
    if 'rows' in resp:
        have = {(k, p) for k, p, _ in resp['rows']}
        d = []
        for name in obs.get('touched') or []:
            row = DUNDER_ROW.get(name, ('arith', name))
            if row[0] == 'arith':
                if not any(k == 'arith' for k, _ in have):
                    d.append(f'the agent invoked {name} on a host object; the extracted host-touch table has no arithmetic row')
            elif not any(r in have for r in EXPLAINED_BY.get(name, [row])):
                d.append(f'the agent invoked {name} on a host object; the extracted host-touch table has no {row} row '
                         f'(harness/extract/o8_hosttouch.py misses an operation)')
        return d
    ver = resp['verdict']
    if ver == 'maybe':
        return []
    if 'template' in resp:
        # comparison by what the catching handler logs (ids of functions / call sites are not comparable)
        if obs['escaped']:
            return [f'model: contained (handler says {resp["template"]!r}); implementation: escaped from trace_call']
        got = (obs.get('templates') or [''])[0]
        if resp['template'] != got:
            return [f'model ({resp.get("level")}): the handler that catches says {resp["template"]!r}; implementation: {got!r}']
        return []
    if ver == 'unknown-site':
        return [f'the model does not know the call site {resp["site"]} of {resp["fn"]} (tables and Extracted differ)']
    if ver == 'escaped':
        return [] if obs['escaped'] else ['model: the fault escapes trace_call; implementation: it was contained']
    if obs['escaped']:
        return [f'model: caught in {resp["fn"]} {resp["hid"]}; implementation: escaped from trace_call']
    want = None if resp['fn'] == ENTRY_KEY else resp['fn']
    got = obs['catcher']
    if want != got:
        return [f'model: caught in {resp["fn"]} ({resp["hid"]}); implementation: caught in {got or ENTRY_KEY}']
    return []


def label(case, obs):
    if case.get('stream'):
        return 'known-finding-stream/' + case['stream']
    if case['kind'] == 'fault':
        if not obs['fired']:
            return 'fault/not-reached'
        return f"fault/{case['fault']['cls']}/{(obs['region'] or '').split(':')[0]}" + \
               ('' if obs.get('stack') is not None else '/unmapped')
    return 'scenario/' + case['prog'] + ('/plugin-faults' if case.get('plugin_faults') else '')


def nontrivial(case, obs):
    has_effect = any(tp != 'probe' and any(e.values()) for tp, e in obs['ref_effects'].items())
    if case['kind'] == 'fault':
        return bool(obs['fired']) and has_effect
    return has_effect


def shrink(case):
    tps = case['tps']
    for i in range(len(tps)):
        if len(tps) > 1 and tps[i]['id'] not in (case.get('expect_logs') or {}):
            c = dict(case)
            c['tps'] = tps[:i] + tps[i + 1:]
            if case['kind'] == 'fault':
                # the call index means something else in the smaller scenario: try every 7th index
                n = reference(c)['count']
                for k in range(1, n + 1, 7):
                    cc = dict(c)
                    cc['fault'] = {'k': k, 'cls': case['fault']['cls']}
                    yield cc
            else:
                yield c
    if case.get('plugin_faults'):
        c = dict(case)
        del c['plugin_faults']
        yield c
    if case['inp'] > 0:
        c = dict(case)
        c['inp'] = 0
        yield c


def evidence_extra():
    g = G()
    import skeleton
    return {'wrapped_functions': g['wrapped'], 'fault_stacks_mapped': g['mapped'], 'fault_stacks_unmapped': g['unmapped'],
            'fault_regions': g['regions'], 'whitelist_pure_calls': sorted(skeleton.PURE_CALLS) + ['logging.*', 'deep.logging.*'],
            'skeleton_functions': len(g['tables'])}
