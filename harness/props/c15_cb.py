"""C15, stream `cb` — registration and completion of deferred work below the level of a callback context: the real
`TriggerContext.__exit__`, `SpanResult.process`, `SpanActionCallback.process`, `LogActionResult.process`,
`DeferredSnapshotActionCallback.process` and `SnapshotActionContext._is_deferred` called directly with generated fault
assignments, against the translated definitions (Extracted/Deferred.lean) and against the statement.

A case has four parts:
  spans    — the spans of ONE span callback, each with the fault of its `close()` (none / an Exception / a BaseException,
             the latter only at the last position: what a BaseException does to the items after it is not the property's
             subject); obtained through the real `SpanResult(spans).process(ctx)`;
  results  — the results attached to ONE real TriggerContext, each either handing back a callback (a real SpanResult or a
             stub), handing back None (a real LogActionResult or a stub), or raising (Exception / BaseException at the
             last position) from `process`; completed by leaving `with ctx:`;
  events   — event kinds given to a real DeferredSnapshotActionCallback over recording stand-ins for the action context,
             the snapshot and the push service;
  stages   — `stage` config values (absent, every stage constant, near misses) given to `_is_deferred`.
Separate labelled stream `cb-kf-base` (known finding C15/baseexception-skips-rest): a BaseException in the MIDDLE of the
spans / results — the items after it are skipped by the code (a span is never closed, a result never processed: the
statement is violated; `c15_span_base_failure_witness`, `c15_exit_base_failure_witness`).  The oracle is the same; the
model comparison is the same (the translated loops skip the rest too).
"""
import types

import core
import rig

STAGES = [None, 'line_capture', 'method_capture', 'line_start', 'line_end', 'method_start', 'method_end',
          'LINE_CAPTURE', 'method_capture ', 'capture', '']
EVENTS = ['return', 'exception', 'line', 'call', 'Return', 'opcode', '']
FID_BASE = 'C15/baseexception-skips-rest'


class _Base(BaseException):
    pass


class _Span:
    def __init__(self, fault):
        self.fault = fault
        self.closed = 0

    def close(self):
        self.closed += 1
        if self.fault == 'exc':
            raise ValueError('close failed')
        if self.fault == 'base':
            raise _Base('close failed')


def _escaped(e):
    return 'exc' if isinstance(e, Exception) else 'base'


def run_impl(case):
    core.use_repo()
    r = None
    try:
        from deep.processor.context.span_action import SpanResult
        from deep.processor.context.log_action import LogActionResult
        from deep.processor.context.snapshot_action import DeferredSnapshotActionCallback, SnapshotActionContext
        from deep.processor.context.action_results import ActionResult, ActionCallback
        from deep.processor.context.trigger_context import TriggerContext
        import deep.processor.context as pkg
        import importlib
        import pkgutil
        for m in pkgutil.iter_modules(pkg.__path__):
            importlib.import_module('deep.processor.context.' + m.name)
        r = rig.Rig(logger=True)
        obs = {}
        # ---- one span callback
        order = []
        spans = [_Span(f) for f in case['spans']]
        for i, s in enumerate(spans):
            s.close = (lambda s=s, i=i, c=s.close: (order.append(i), c())[1])
        ctx = TriggerContext(r.config, r.push, rig.MockFrame('/app/m.py', 'f', 1), 'return', None)
        esc = None
        cb = None
        try:
            cb = SpanResult(spans).process(ctx)
            ret = cb.process(ctx, 'return', None, None)
        except BaseException as e:  # noqa: B902
            esc, ret = _escaped(e), None
        obs['spans'] = {'order': order, 'closed': [s.closed for s in spans], 'escaped': esc,
                        'is_callback': isinstance(cb, ActionCallback), 'ret': None if ret is None else bool(ret)}
        # ---- the results of one trigger context
        marks = {}

        class StubCb(ActionCallback):
            def process(self, ctx, event, frame, arg):
                return False

        class Stub(ActionResult):
            def __init__(self, how):
                self.how = how
                self.calls = 0

            def process(self, ctx):
                self.calls += 1
                if self.how == 'exc':
                    raise ValueError('process failed')
                if self.how == 'base':
                    raise _Base('process failed')
                if self.how == 'cb':
                    return StubCb()
                return None
        ctx = TriggerContext(r.config, r.push, rig.MockFrame('/app/m.py', 'f', 1), 'line', None)
        results = []
        for how, real in case['results']:
            if how == 'cb' and real:
                res = SpanResult([_Span(None)])
            elif how == 'none' and real:
                res = LogActionResult(types.SimpleNamespace(id='tpx'), 'msg')
            else:
                res = Stub(how)
            results.append(res)
            ctx.attach_result(res)
        esc = None
        try:
            with ctx:
                pass
        except BaseException as e:  # noqa: B902
            esc = _escaped(e)
        # which result does each registered callback belong to?  (processing order = attach order; a SpanResult's
        # callback closes that result's span)
        reg = []
        stub_iter = [i for i, (how, real) in enumerate(case['results']) if how == 'cb']
        for c in ctx.callbacks:
            owner = None
            for i in stub_iter:
                res = results[i]
                if isinstance(res, Stub):
                    continue
                sp = getattr(res, '_SpanResult__spans', None)
                if sp is not None and getattr(c, '_SpanActionCallback__spans', None) is sp:
                    owner = i
            reg.append(owner)
        # stubs: by order among the stub 'cb' results that were processed without a real owner
        stub_cb = [i for i in stub_iter if isinstance(results[i], Stub) and results[i].calls > 0]
        k = 0
        for j, o in enumerate(reg):
            if o is None and k < len(stub_cb) and isinstance(ctx.callbacks[j], StubCb):
                reg[j] = stub_cb[k]
                k += 1
        obs['results'] = {'registered': reg, 'escaped': esc,
                          'calls': [res.calls if isinstance(res, Stub) else None for res in results],
                          'logged': len(r.logger.logged)}
        # ---- deferred snapshot callback per event kind
        caps = []
        for ev in case['events']:
            log = {'capture': [], 'watch': 0, 'merge': 0, 'push': 0}
            actx = types.SimpleNamespace(process_capture_variable=lambda name, var, log=log: (
                log['capture'].append([name, var]), ('W', {'v': 1}, ''))[1])
            snap = types.SimpleNamespace(add_watch_result=lambda w, log=log: log.__setitem__('watch', log['watch'] + 1),
                                         merge_var_lookup=lambda v, log=log: log.__setitem__('merge', log['merge'] + 1))
            pctx = types.SimpleNamespace(push_service=types.SimpleNamespace(
                push_snapshot=lambda s, log=log, snap=snap: log.__setitem__('push', log['push'] + (1 if s is snap else 100))))
            try:
                ret = DeferredSnapshotActionCallback(actx, snap).process(pctx, ev, None, 42)
                log['ret'] = bool(ret)
            except BaseException as e:  # noqa: B902
                log['raised'] = type(e).__name__
            caps.append(log)
        obs['events'] = caps
        # ---- _is_deferred
        st = []
        for s in case['stages']:
            cfg = {} if s is None else {'stage': s}
            try:
                st.append(bool(SnapshotActionContext._is_deferred(
                    types.SimpleNamespace(location_action=types.SimpleNamespace(config=cfg)))))
            except Exception as e:
                st.append({'raised': type(e).__name__})
        obs['stages'] = st

        def subs(c):
            out = []
            for x in c.__subclasses__():
                if x.__module__.startswith('deep.'):
                    out.append(x.__name__)
                out += subs(x)
            return out
        obs['classes'] = sorted(set(subs(ActionResult)))
        return obs
    except Exception as e:
        return {'raised': '%s: %s' % (type(e).__name__, e)}
    finally:
        if r is not None:
            r.close()


# --------------------------------------------------------------------------------------- the statement
def oracle(case, obs):
    if 'raised' in obs:
        return ['the agent raised: ' + obs['raised']]
    v = []
    sp = obs['spans']
    base_last = bool(case['spans']) and case['spans'][-1] == 'base'
    for i, n in enumerate(sp['closed']):
        if n != 1:
            v.append('span %d of the callback (close fault %s) was closed %d times (faults of the spans: %s)' % (
                i, case['spans'][i], n, case['spans']))
    if sp['order'] != sorted(sp['order']):
        v.append('spans closed out of order: %s' % sp['order'])
    if sp['escaped'] and not (base_last and sp['escaped'] == 'base'):
        v.append('an exception (%s) left SpanActionCallback.process' % sp['escaped'])
    if not sp['is_callback']:
        v.append('SpanResult.process did not hand back a callback: its spans would never be closed')
    rs = obs['results']
    want = [i for i, (how, _real) in enumerate(case['results']) if how == 'cb']
    if rs['registered'] != want:
        v.append('callbacks registered by the event: results %s, expected %s (results: %s)' % (
            rs['registered'], want, [h for h, _ in case['results']]))
    base_last = bool(case['results']) and case['results'][-1][0] == 'base'
    if rs['escaped'] and not (base_last and rs['escaped'] == 'base'):
        v.append('an exception (%s) left TriggerContext.__exit__' % rs['escaped'])
    for i, c in enumerate(rs['calls']):
        if c is not None and c != 1:
            v.append('result %d was processed %d times' % (i, c))
    for ev, log in zip(case['events'], obs['events']):
        if 'raised' in log:
            v.append('completing a deferred snapshot at a %r event raised %s' % (ev, log['raised']))
            continue
        if log['push'] != 1:
            v.append('a deferred snapshot completed at a %r event was pushed %s times' % (ev, log['push']))
        attach = ev in ('return', 'exception')
        if attach and (log['capture'] != [[ev, 42]] or log['watch'] != 1 or log['merge'] != 1):
            v.append('a deferred snapshot completed at a %r event did not attach the result once: %s' % (ev, log))
        if not attach and (log['capture'] or log['watch'] or log['merge']):
            v.append('a deferred snapshot completed at a %r event attached a result: %s' % (ev, log))
    for s, d in zip(case['stages'], obs['stages']):
        if d != (s in ('line_capture', 'method_capture')):
            v.append('stage %r: deferred=%s' % (s, d))
    return v[:6]


def base_mid(xs):
    """index of a 'base' fault that is followed by another item, or None"""
    for i, x in enumerate(xs[:-1]):
        if x == 'base':
            return i
    return None


def known_finding(case, obs):
    """instance of C15/baseexception-skips-rest: a BaseException fault at a position that is followed by further items
    (structural), AND the observation is exactly the known behaviour — everything up to and including the failing item
    done once, everything after it skipped, the BaseException let out — nothing else wrong."""
    if 'raised' in obs:
        return None
    bs = base_mid(case['spans'])
    br = base_mid([h for h, _ in case['results']])
    if bs is None and br is None:
        return None
    plain = dict(case)
    sp, rs = obs['spans'], obs['results']
    if bs is not None:
        n = len(case['spans'])
        if sp['closed'] != [1] * (bs + 1) + [0] * (n - bs - 1) or sp['escaped'] != 'base' or not sp['is_callback']:
            return None
        plain['spans'] = case['spans'][:bs] + ['base']
    if br is not None:
        hows = [h for h, _ in case['results']]
        if rs['registered'] != [i for i, h in enumerate(hows[:br]) if h == 'cb'] or rs['escaped'] != 'base':
            return None
        if any(c is not None and c != (1 if i <= br else 0) for i, c in enumerate(rs['calls'])):
            return None
        plain['results'] = case['results'][:br + 1]
    # whatever else the oracle says must also be said of the case cut after the failing item (where the finding is
    # not involved): then it is something else
    o2 = dict(obs)
    if bs is not None:
        o2['spans'] = dict(sp, closed=sp['closed'][:bs + 1], order=[i for i in sp['order'] if i <= bs])
    if br is not None:
        o2['results'] = dict(rs, calls=rs['calls'][:br + 1])
    return FID_BASE if not oracle(plain, o2) else None


def base_replay():
    return {'kind': 'cb', 'stream': 'cb-kf-base', 'spans': [None, 'base', None],
            'results': [['cb', True], ['base', False], ['cb', True]], 'events': ['return'], 'stages': [None]}


def known_replays():
    return [(FID_BASE, 'a BaseException (not an Exception) raised by the second of three result.process calls in '
                       'TriggerContext.__exit__ / by the second of three span.close() calls in SpanActionCallback.process: '
                       'the third result is never processed (the span its span action had already opened gets no callback '
                       'and is never closed), the third span is never closed', base_replay())]


# --------------------------------------------------------------------------------------- model
def model_request(case, obs):
    if 'raised' in obs:
        return None
    return {'op': 'cb', 'spans': case['spans'], 'results': [h for h, _ in case['results']], 'events': case['events'],
            'stages': case['stages']}


def compare(case, obs, resp):
    if 'error' in resp:
        return ['model error: ' + str(resp['error'])]
    d = []
    sp = obs['spans']
    if sp['order'] != resp['spans']['closed'] or bool(sp['escaped']) != resp['spans']['escaped']:
        d.append('span callback: implementation closed %s escaped=%s, model %s' % (sp['order'], sp['escaped'], resp['spans']))
    rs = obs['results']
    if rs['registered'] != resp['results']['registered'] or bool(rs['escaped']) != resp['results']['escaped']:
        d.append('__exit__: implementation registered %s escaped=%s, model %s' % (rs['registered'], rs['escaped'],
                                                                                  resp['results']))
    for ev, log, m in zip(case['events'], obs['events'], resp['events']):
        if bool(log.get('capture')) != m:
            d.append('capture at %r: implementation attached=%s, model %s' % (ev, bool(log.get('capture')), m))
    if obs['stages'] != resp['stages']:
        d.append('_is_deferred: implementation %s, model %s' % (obs['stages'], resp['stages']))
    if obs['classes'] != sorted(resp['classes']):
        d.append('ActionResult subclasses: implementation %s, translated table %s' % (obs['classes'], resp['classes']))
    if resp['table'].get('SpanResult') != sp['is_callback'] or resp['table'].get('LogActionResult') is not False:
        d.append('result table: %s; SpanResult.process handed back a callback: %s' % (resp['table'], sp['is_callback']))
    return d[:6]


# --------------------------------------------------------------------------------------- generation
def faults(rng, n, base_p):
    fs = [rng.choice([None, None, None, 'exc', 'exc']) for _ in range(n)]
    if fs and rng.random() < base_p:
        fs[-1] = 'base'
    return fs


def gen_case(rng, tier):
    spans = faults(rng, rng.choice([0, 1, 1, 2, 3, 4, 6]), 0.15)
    res = []
    for _ in range(rng.choice([0, 1, 2, 3, 4, 5, 7])):
        res.append([rng.choice(['cb', 'cb', 'none', 'none', 'exc']), rng.random() < 0.5])
    if res and rng.random() < 0.15:
        res[-1] = ['base', False]
    return {'kind': 'cb', 'stream': 'cb', 'spans': spans, 'results': res,
            'events': [rng.choice(EVENTS) for _ in range(rng.randint(1, 4))],
            'stages': [rng.choice(STAGES) for _ in range(rng.randint(1, 4))]}


def gen_base_case(rng, tier):
    """the known-finding stream: a BaseException in the MIDDLE of the spans and/or of the results"""
    case = gen_case(rng, tier)
    case['stream'] = 'cb-kf-base'
    which = rng.choice(['spans', 'results', 'both'])
    if which in ('spans', 'both'):
        fs = faults(rng, rng.randint(2, 6), 0.0)
        fs[rng.randrange(len(fs) - 1)] = 'base'
        case['spans'] = fs
    if which in ('results', 'both'):
        res = [[rng.choice(['cb', 'cb', 'none', 'exc']), rng.random() < 0.5] for _ in range(rng.randint(2, 6))]
        res[rng.randrange(len(res) - 1)] = ['base', False]
        case['results'] = res
    return case


def corpus():
    return [{'kind': 'cb', 'stream': 'cb', 'spans': ['exc', None, 'exc', None],
             'results': [['cb', True], ['exc', False], ['none', True], ['cb', False], ['cb', True]],
             'events': ['return', 'exception', 'line', 'call'], 'stages': list(STAGES)},
            {'kind': 'cb', 'stream': 'cb', 'spans': [None, 'exc', 'base'],
             'results': [['cb', False], ['none', False], ['base', False]], 'events': ['Return'], 'stages': [None]}]


def label(case, obs):
    if 'raised' in obs:
        return 'cb/raised'
    if base_mid(case['spans']) is not None or base_mid([h for h, _ in case['results']]) is not None:
        return 'cb-kf-base/%s' % ('spans' if base_mid(case['spans']) is not None else 'results')
    f = 'base' if 'base' in case['spans'] or any(h == 'base' for h, _ in case['results']) else \
        'exc' if 'exc' in case['spans'] or any(h == 'exc' for h, _ in case['results']) else 'nofault'
    return 'cb/%s' % f


def nontrivial(case, obs):
    """a failing item is followed by another item of the same callback / event"""
    if 'raised' in obs:
        return False
    s, r = case['spans'], [h for h, _ in case['results']]
    return any(x == 'exc' for x in s[:-1]) or any(x == 'exc' for x in r[:-1])


def shrink(case):
    for key in ('spans', 'results', 'events', 'stages'):
        xs = case[key]
        for i in range(len(xs)):
            c = dict(case)
            c[key] = xs[:i] + xs[i + 1:]
            yield c
