"""C06 — collection is total (any object graph still yields the snapshot, offenders as placeholders) and snapshots of
tracepoints sharing a location are independent of each other."""
import core
from props import collector_common as cc

ID = 'C06'
EXTRACT = ['collector', 'frames', 'collector_time', 'collector_deferred']
LEAN_TARGETS = ['DeepModel.Props.C06']
AUDIT = 'DeepModel/Audit/C06.lean'
DRIVER = 'DeepModel/Driver/C05.lean'
BUDGET = {'quick': 600, 'thorough': 10000}
TIME = {'quick': 75, 'thorough': 800}
RULE = ('"hostile" object graphs bound to a real frame, to watch results, to return values and raised exceptions: bytes, '
        'bytearray, complex, datetime, deque, range, enum members, namedtuples, generators, iterators, functions, builtins, '
        'modules, types, slotted objects, mappingproxy, memoryview, list/dict subclasses, objects whose __str__ / __repr__ / '
        '__len__ / __eq__ raise, __getattr__ raising AttributeError, private attribute names, dicts with int / tuple / float / '
        'None keys, strings with NUL, quotes, non-BMP characters and lone surrogates, cyclic structures; locals called self / cls '
        'whose __class__ / __getattribute__ / __getattr__ raise and proxies whose __class__ differs from type(); 1-4 snapshot '
        'tracepoints on the same line (separate triggers or one trigger) with equal or different limits and watches, each '
        'action also run alone on the same objects (the "complete on its own" reference). Objects on which a probe of the '
        'collector raises (len / isinstance / .args / hasattr / __dict__) are part of the judged stream; __str__ raising a '
        'BaseException is outside the claimed domain (labelled stream, recorded only). Non-trivial = an exotic or failing object is among the collected values, or more '
        'than one tracepoint fired. Distinct = canonical JSON of the case.')
TRUSTED = ['CPython frame.f_locals / eval / id() semantics; str()/len()/tuple()/hasattr() of the generated classes',
           'harness/props/collector_common.py: object builder, raw-fact walker (describe_heap)']
ASSUMPTIONS = ['type(o).__name__ / str(type(o)) do not raise (no hostile metaclass), keys and str() results are not instances of str '
               'subclasses overriding startswith / __len__ / __getitem__, keys of exact dicts still hash at collection time (each '
               'of the first three aborts a snapshot on the real code: notes/probes/p20_c06_assumed_not_to_raise.py; finding candidates)',
               'host __str__ / __len__ / attribute access raise Exception subclasses (safe_str catches Exception: '
               'c06_guard_class); BaseException from __str__ is recorded in a separate stream, not judged',
               'delivery is observed at the push service (protobuf conversion is C08)']



def gen(rng, tier):
    big = tier == 'thorough'
    while True:
        r = rng.random()
        n = rng.choice([120, 250]) if big and rng.random() < 0.08 else None
        lim = cc.gen_limits(rng, small=rng.random() < 0.3)
        if r < 0.012:
            # a huge mapping while other values wait in the search: nothing else may be lost
            yield cc.gen_huge(rng)
        elif r < 0.45:
            c = cc.gen_case(rng, lim=lim, nobj=n)
            c['objs'] = exotic(rng, c['objs'])
            if rng.random() < 0.08 and not any(nm in ('self', 'rest') for nm, _ in c['locals']):
                c['recursion'] = True        # the tracepoint is hit inside a recursion through an inherited method
            yield c
        elif r < 0.75:
            c = cc.gen_case(rng, lim=lim, nactions=rng.randint(2, 4))
            c['objs'] = exotic(rng, c['objs'])
            c['solo'] = True
            c['one_trigger'] = rng.random() < 0.3
            if rng.random() < 0.5:               # identical tracepoints: the snapshots must be equal
                c['actions'] = [dict(c['actions'][0]) for _ in c['actions']]
            if rng.random() < 0.35:
                # conditions: true, false, not evaluable, a value whose text cannot be taken — only that tracepoint is off
                k = rng.randrange(len(c['actions']))
                kind = rng.choice(['True', 'False', 'nope', '1 == 1', 'strless', 'strless'])
                if kind == 'strless':
                    c['objs'] = c['objs'] + [{'t': 'atom', 'k': rng.choice(['str_raises', 'repr_raises'])}]
                    c['locals'] = c['locals'] + [['cnd', len(c['objs']) - 1]]
                    kind = 'cnd'
                c['actions'][k] = dict(c['actions'][k], condition=kind)
            yield c
        elif r < 0.83:
            c = cc.gen_case(rng, lim=lim, capture=rng.choice(['return', 'exception']))
            if c['actions'][0]['limits'].get('vars') is not None:
                c['actions'][0]['limits']['vars'] = None
            c['objs'] = exotic(rng, c['objs'])
            if c['capture'] == 'return' and rng.random() < 0.5 and c['locals']:
                # the returned value is a fresh object, first seen after the frame was collected
                nm = c['locals'][0][0]
                c['capture_expr'] = rng.choice(['[%s, 1]' % nm, '{"k": %s}' % nm, '(%s, %s)' % (nm, nm), '"fresh " + "value"'])
            yield c
        elif r < 0.90:
            c = cc.gen_case(rng, lim=lim, mock_frames=rng.randint(1, 3), frame_type=rng.choice(['all_frame', 'no_frame']),
                            nactions=rng.randint(1, 3))
            c['objs'] = exotic(rng, c['objs'])
            if len(c['actions']) > 1:
                # tracepoints on one line that differ in frame_type: each decides for itself which frames carry variables
                for a in c['actions']:
                    a['frame_type'] = rng.choice(['single_frame', 'all_frame', 'no_frame'])
                c['solo'] = True
                c['one_trigger'] = rng.random() < 0.3
            yield c
        elif r < 0.97:
            yield cc.gen_case(rng, lim=lim, nobj=rng.choice([3, 6, 10, 16]), hostile=0.15, stream='hostile',
                              nactions=rng.randint(1, 2))
        else:
            yield cc.gen_case(rng, lim=lim, nobj=rng.choice([3, 6, 10]), outside=True, stream='outside', watches=False)


def exotic(rng, specs):
    """swap a share of the scalar specs for exotic atoms (they are never referenced as containers)"""
    out = []
    pinned = {j for s in specs if s['t'] in ('set', 'frozenset', 'tuple') for j in s['e']}
    for i, s in enumerate(specs):
        if i not in pinned and s['t'] in ('int', 'float', 'bool', 'none') and rng.random() < 0.25:
            out.append({'t': 'atom', 'k': rng.choice(cc.ATOM_KEYS)})
        else:
            out.append(s)
    return out


UNMODELLED = 'C06/unguarded-type-name-and-text-methods'


def known_replays():
    whats = {'meta_name_raises': 'a local whose metaclass has a raising __name__ property: variable_type.__name__ is read '
                                 'unguarded (variable_to_string, process_child_nodes), the whole snapshot is lost',
             'key_startswith_raises': 'a dict key that is an instance of a str subclass overriding startswith: var_modifiers '
                                      'calls it unguarded, the whole snapshot is lost',
             'str_returns_str_subclass': 'a __str__ that returns an instance of a str subclass with a raising __len__: '
                                         'truncate_string calls len() / slices it unguarded, the whole snapshot is lost'}
    return [(UNMODELLED, whats[k], {'objs': [{'t': 'unmodelled', 'k': k}, {'t': 'int', 'v': 5}],
                                    'locals': [['v', 0], ['q', 1]], 'frame_type': 'single_frame', 'stream': 'unmodelled',
                                    'actions': [{'limits': {}}]}) for k in sorted(cc.UNMODELLED)]


def known_finding(case, obs):
    return UNMODELLED if cc.has_unmodelled(case) else None


def corpus():
    atoms = [{'t': 'atom', 'k': k} for k in ('bytes', 'datetime', 'deque', 'slotted', 'builtin', 'str_raises',
                                             'repr_raises', 'generator', 'enum', 'namedtuple')]
    hostile = [{'objs': [{'t': 'hostile', 'k': k}, {'t': 'int', 'v': 5}], 'locals': [['h', 0], ['q', 1]],
                'frame_type': 'single_frame', 'stream': 'corpus', 'actions': [{'limits': {}, 'watches': ['h', 'h']}]}
               for k in cc.HOSTILE_KEYS]
    selfs = [{'objs': [{'t': 'hostile', 'k': k}, {'t': 'int', 'v': 5}], 'locals': [[nm, 0], ['q', 1]],
              'frame_type': 'single_frame', 'stream': 'corpus', 'actions': [{'limits': {}}]}
             for k in ('getattribute', 'class_prop_raises', 'proxy', 'slots_getattr', 'getattr_runtime') for nm in ('self', 'cls')]
    return hostile + selfs + [
        {'objs': [{'t': 'int', 'v': 5}], 'locals': [['q', 0]], 'recursion': True, 'frame_type': 'single_frame',
         'stream': 'corpus', 'actions': [{'limits': {}}]},
        # tracepoints on one line with different frame types, on a stack of two frames
        {'objs': [{'t': 'int', 'v': 5}, {'t': 'str', 'v': 'outer'}], 'locals': [['q', 0]], 'mock': [[['q', 0]], [['o', 1]]],
         'frame_type': 'single_frame', 'stream': 'corpus', 'solo': True,
         'actions': [{'limits': {}, 'frame_type': 'no_frame'}, {'limits': {}, 'frame_type': 'single_frame'},
                     {'limits': {}, 'frame_type': 'all_frame'}]},
        {'objs': [{'t': 'int', 'v': 5}, {'t': 'str', 'v': 'outer'}], 'locals': [['q', 0]], 'mock': [[['q', 0]], [['o', 1]]],
         'frame_type': 'single_frame', 'stream': 'corpus', 'solo': True,
         'actions': [{'limits': {}, 'frame_type': 'single_frame'}, {'limits': {}, 'frame_type': 'all_frame'}]},
        # C06-B: a condition whose value has no text switches off that tracepoint only
        {'objs': [{'t': 'atom', 'k': 'str_raises'}, {'t': 'int', 'v': 5}], 'locals': [['cnd', 0], ['q', 1]],
         'frame_type': 'single_frame', 'stream': 'corpus', 'solo': True,
         'actions': [{'limits': {}}, {'limits': {}, 'condition': 'cnd'}, {'limits': {}, 'condition': 'q == 5'}]},
        # a raising value inside a container, watched twice (a failed first collection must not leave ids without entries)
        {'objs': [{'t': 'list', 'e': [1, 2]}, {'t': 'int', 'v': 300}, {'t': 'hostile', 'k': 'slots_getattr'}],
         'locals': [['x', 0]], 'frame_type': 'no_frame', 'stream': 'corpus',
         'actions': [{'limits': {}, 'watches': ['x', 'x']}]},
        # names that begin with '_' + a container type name are not "private names"
        {'objs': [{'t': 'dict', 'k': [[{'s': '_dict_size'}, 1], [{'s': '_list_y'}, 1]]}, {'t': 'int', 'v': 7},
                  {'t': 'obj', 'a': [['_Plain__hidden', 1], ['_Plainx', 1], ['_dict_size', 1]]}],
         'locals': [['_dict_size', 1], ['d', 0], ['_list_y', 2]], 'frame_type': 'single_frame', 'stream': 'corpus',
         'actions': [{'limits': {}}]},
        # D5 / D7: values without __dict__, values whose str raises
        {'objs': atoms, 'locals': [['v%d' % i, i] for i in range(len(atoms))], 'frame_type': 'single_frame',
         'stream': 'corpus', 'actions': [{'limits': {}}]},
        # D6: non-str keys
        {'objs': [{'t': 'dict', 'k': [[{'i': 1}, 1], [{'tup': [1, 2]}, 1], [{'none': 1}, 1], [{'s': '1'}, 1]]},
                  {'t': 'str', 'v': 'one'}],
         'locals': [['d', 0]], 'frame_type': 'single_frame', 'stream': 'corpus', 'actions': [{'limits': {}}]},
        # D8: two / three tracepoints on one line
        {'objs': [{'t': 'list', 'e': [1, 1]}, {'t': 'int', 'v': 7}], 'locals': [['a', 0], ['b', 1]], 'solo': True,
         'frame_type': 'single_frame', 'stream': 'corpus',
         'actions': [{'limits': {}}, {'limits': {}, 'watches': ['a']}, {'limits': {'coll': 1}}]},
        # a lone surrogate and a non-BMP character in values and names
        {'objs': [{'t': 'str', 'v': 'v\ud800x'}, {'t': 'str', 'v': '\U0001F600'},
                  {'t': 'dict', 'k': [[{'s': 'k\udfff'}, 0]]}],
         'locals': [['s', 0], ['t', 1], ['d', 2]], 'frame_type': 'single_frame', 'stream': 'corpus',
         'actions': [{'limits': {'str': 2}}]},
    ]


def run_impl(case):
    return cc.run_case(case)


def oracle(case, obs):
    if cc.has_unmodelled(case):
        # outside the fault model of the heap (recorded finding): only "a snapshot per due tracepoint" is judged
        n = len(obs.get('snapshots', []))
        v = ['trace_call raised into the host: ' + obs['raised']] if 'raised' in obs else []
        return v + ([f'{n} snapshots handed to the push service, {len(case["actions"])} are due'] if n != len(case['actions']) else [])
    if cc.has_outside(case):
        return []            # outside the claimed domain: recorded in the distribution only
    live = cc.live_of(obs)
    if live is None:
        raise core.Infra('oracle called without the live objects of its evaluation')
    v = cc.judge_total(case, obs, live)
    if case.get('stream') == 'huge':
        # ... and nothing that waited in the search while the huge mapping was expanded is lost: children of the later locals
        for ai, s in cc.snapshots_by_action(case, obs):
            v += [f'tp{ai}: ' + x for x in cc.judge_bounds(case, obs, live, ai, s)]
    # "every other variable intact": every reference of every snapshot resolves to the entry of ITS object
    for ai, s in cc.snapshots_by_action(case, obs):
        v += [f'tp{ai}: ' + x for x in cc.judge_identity(case, obs, live, ai, s)]
    v += cc.judge_wire(case, obs)
    return v


def model_request(case, obs):
    if case.get('stream') == 'huge':
        # oracle only: the interpreted driver needs minutes for a 10 000-entry mapping (quadratic list appends of the
        # work-list model); the model was run on such cases by hand and agrees
        return None
    return cc.model_request(case, obs)


compare = cc.compare
shrink = cc.shrink_case


def special(case):
    return any(s['t'] in ('atom', 'iter', 'riter', 'mylist', 'mydict', 'hostile', 'outside') or
               (s['t'] in ('dict', 'mydict') and any('s' not in k for k, _ in s['k'])) for s in case['objs'])


def label(case, obs):
    kind = case.get('stream', 'main')
    if kind == 'main':
        kind = 'mock' if case.get('mock') else ('capture' if case.get('capture') else 'frame')
    n = len(obs.get('snapshots', []))
    return f"{kind}/tp{len(case['actions'])}/snap{n}/{'exotic' if special(case) else 'plain'}"


def nontrivial(case, obs):
    return special(case) or len(case['actions']) > 1 or case.get('stream') == 'huge'
