"""Shared machinery of the C05 / C06 / C07 checks (one collector model, one driver).

* `build(case)`        — materialise the case's object graph as REAL Python objects (incl. hostile ones);
* `run_case(case)`     — run the REAL agent (`TriggerHandler.trace_call` on a real frame through `rig.run_traced`,
                         or on a `MockFrame` chain for multi-frame cases, or `VariableSetProcessor` directly) and
                         return a canonical observation: snapshots as handed to the push service + the heap
                         description the model needs;
* `describe_heap`      — the independent walker: raw facts of every object reachable from the roots, identity by `is`;
* `model_request/compare` — the correspondence with `Driver/C05.lean`;
* `Ref`                — the reference written from the property statements (levels by breadth-first distance over
                         the live objects, expected rendering, expected children), used by the three oracles.
"""
import collections
import datetime
import enum
import sys
import threading
import types

import core
from rig import Rig, MockFrame, run_traced

HOST_FILE = '/app/c05host.py'
HOST_BASE = 'c05host.py'
DEFAULTS = {'vars': 1000, 'str': 1024, 'coll': 10, 'depth': 5}
CFG_KEYS = {'vars': 'MAX_VARIABLES', 'str': 'MAX_STRING_LENGTH', 'coll': 'MAX_COLLECTION_SIZE', 'depth': 'MAX_VAR_DEPTH'}
LIST_TYPES = (list, tuple, set, frozenset)
LIST_NAMES = ('list', 'tuple', 'set', 'frozenset')
SCALAR_NAMES = ('str', 'int', 'float', 'bool', 'NoneType', 'type', 'module', 'traceback')
ITER_NAMES = ('list_iterator', 'list_reverseiterator')


# ------------------------------------------------------------------------------------- object kit
class Plain:
    pass


class Priv:
    def __init__(self):
        self.__secret = 1          # stored as _Priv__secret


class Slotted:
    __slots__ = ('a', 'b')


class StrRaises:
    def __str__(self):
        raise ValueError('no str for you')


class ReprRaises:
    def __repr__(self):
        raise RuntimeError('no repr')


class LenRaises:
    def __len__(self):
        raise RuntimeError('no len')


class GetattrAttrError:
    """__getattr__ raising AttributeError for unknown names (the benign kind of failing attribute access)."""
    __slots__ = ()

    def __getattr__(self, name):
        raise AttributeError('nothing called ' + name)


class EqRaises:
    def __eq__(self, other):
        raise RuntimeError('no eq')
    __hash__ = object.__hash__


class EqArray:
    """array-like ==: the result of a comparison is not a plain bool, its truth value is ambiguous"""

    class _Ambiguous:
        def __bool__(self):
            raise ValueError('The truth value of an array with more than one element is ambiguous')

    def __eq__(self, other):
        return EqArray._Ambiguous()
    __hash__ = object.__hash__


class MyList(list):
    pass


class MyDict(dict):
    pass


class Color(enum.Enum):
    RED = 1


Point = collections.namedtuple('Point', ['x', 'y'])


class Level(enum.IntEnum):
    """an int that is also an object with a __dict__ (its children are its attributes)"""
    LOW = 1
    HIGH = 1000


class MyError(Exception):
    pass


# --- the hostile kit: objects on which an *unguarded* probe of the collector raises (C06 finding candidates)
class SlotsGetattrRuntime:
    __slots__ = ()

    def __getattr__(self, name):
        raise RuntimeError('getattr ' + name)


class GetattributeRuntime:
    def __getattribute__(self, name):
        raise RuntimeError('getattribute ' + name)


ImposterList = type('list', (), {'__module__': __name__})          # user class *named* list: no len, not iterable


class _LenRaisesList(list):
    def __len__(self):
        raise RuntimeError('len of list')


_LenRaisesList.__name__ = 'list'


class ArgsRaises(Exception):
    @property
    def args(self):
        raise RuntimeError('args')


class ArgsNotIterable(Exception):
    args = 5


class DictPropRaises:
    __slots__ = ()

    @property
    def __dict__(self):
        raise RuntimeError('dict')


class DictNotMapping:
    __slots__ = ()
    __dict__ = 7


class StrBaseException:
    def __str__(self):
        raise KeyboardInterrupt()


class DictLenRaises(dict):
    def __len__(self):
        raise RuntimeError('backend down (len)')


class DictKeysRaise(dict):
    def keys(self):
        raise RuntimeError('backend down (keys)')

    def __getitem__(self, k):
        raise RuntimeError('backend down (getitem)')


class ClassPropRaises:
    """`obj.__class__` is a property that raises (type(obj) is fine)"""
    @property
    def __class__(self):
        raise RuntimeError('no class for you')


class Proxy:
    """a proxy: `obj.__class__` says int, type(obj) says Proxy"""
    __class__ = property(lambda self: int)


class GetattrRuntimeDict:
    """has a __dict__; every attribute that is missing raises RuntimeError"""

    def __getattr__(self, name):
        raise RuntimeError('getattr ' + name)


class HashLater:
    """hashable when it is put into a dict, not any more afterwards"""
    armed = False

    def __hash__(self):
        if HashLater.armed:
            raise RuntimeError('hash')
        return 7


def _dict_hash_later():
    HashLater.armed = False
    d = {HashLater(): 1, 'b': 2}
    HashLater.armed = True
    return d


# --- outside the fault model of the heap (recorded finding C06/unguarded-type-name-and-text-methods): never described
class _MetaNameRaises(type):
    @property
    def __name__(cls):
        raise RuntimeError('meta name')


class WithHostileMeta(metaclass=_MetaNameRaises):
    pass


class StartswithRaises(str):
    def startswith(self, *a):
        raise RuntimeError('startswith')


class LenRaisesStr(str):
    def __len__(self):
        raise RuntimeError('strlen')


class StrReturnsSubclass:
    def __str__(self):
        return LenRaisesStr('abc')


UNMODELLED = {'meta_name_raises': WithHostileMeta, 'key_startswith_raises': lambda: {StartswithRaises('k'): 1},
              'str_returns_str_subclass': StrReturnsSubclass}


HOSTILE = {'dict_hash_later': _dict_hash_later, 'class_prop_raises': ClassPropRaises, 'proxy': Proxy, 'getattr_runtime': GetattrRuntimeDict,
           'dict_len_raises': lambda: DictLenRaises(a=1), 'dict_keys_raise': lambda: DictKeysRaise(a=1, b=2),
           'slots_getattr': SlotsGetattrRuntime, 'getattribute': GetattributeRuntime, 'imposter_list': ImposterList,
           'len_raises_list': lambda: _LenRaisesList([1, 2]), 'args_raises': ArgsRaises,
           'args_not_iterable': ArgsNotIterable, 'dict_prop_raises': DictPropRaises, 'dict_not_mapping': DictNotMapping}
class _Stop(BaseException):
    pass


class StrStops:
    """str() raises a BaseException subclass: safe_str (except Exception) lets it through, the search is left"""

    def __str__(self):
        raise _Stop('stop')


# objects on which an UNGUARDED probe of process_variable raises, with the text of the exception: the search ABORTS there
# (Model/CollectorAbort.lean).  Nothing of such an object is probed by the walker.
ABORTING = {'str_stops': (StrStops, 'stop'), 'meta_name': (WithHostileMeta, 'meta name')}
ABORT_MSG = {cls: msg for cls, msg in ABORTING.values()}
OUTSIDE = {'str_base_exception': StrBaseException}      # outside the claimed domain (BaseException from __str__)
KIT_CLASSES = (Plain, Priv, Slotted, StrRaises, ReprRaises, LenRaises, GetattrAttrError, EqRaises, MyList, MyDict,
               MyError, SlotsGetattrRuntime, GetattributeRuntime, ImposterList, _LenRaisesList, ArgsRaises,
               ArgsNotIterable, DictPropRaises, DictNotMapping, StrBaseException, DictLenRaises, DictKeysRaise, ClassPropRaises, Proxy, GetattrRuntimeDict)


def _gen():
    yield 1


def _func(x):
    return x


ATOMS = {
    'bytes': lambda: b'ab\xff', 'bytearray': lambda: bytearray(b'xy'), 'complex': lambda: 3 + 4j,
    'datetime': lambda: datetime.datetime(2024, 1, 2, 3, 4, 5), 'deque': lambda: collections.deque([1, 2, 3]),
    'range': lambda: range(5), 'enum': lambda: Color.RED, 'intenum': lambda: Level.HIGH, 'namedtuple': lambda: Point(1, 2),
    'generator': lambda: _gen(), 'function': lambda: _func, 'builtin': lambda: len, 'module': lambda: types,
    'type': lambda: Plain, 'lambda': lambda: (lambda: 0), 'slotted': lambda: _slotted(),
    'str_raises': StrRaises, 'repr_raises': ReprRaises, 'len_raises': LenRaises, 'getattr_attrerror': GetattrAttrError,
    'eq_raises': EqRaises, 'priv': Priv, 'object': object, 'ellipsis': lambda: Ellipsis,
    'mappingproxy': lambda: types.MappingProxyType({'a': 1}), 'memoryview': lambda: memoryview(b'abc'),
    'frozen_empty': frozenset, 'bigint': lambda: 10 ** 40, 'nan': lambda: float('nan'),
    # ints around the int->str conversion limit (4300 digits): str() of the longer ones raises ValueError
    'int4300': lambda: 10 ** 4299, 'int4301': lambda: 10 ** 4300, 'int5000': lambda: -(10 ** 5000),
    'list_of_int5000': lambda: [10 ** 5000, 1], 'dict_of_int4301': lambda: {'n': 10 ** 4300},
    # dict views: iterating them creates new (key, value) tuples each time
    'dict_items': lambda: {'k%d' % i: i * 1000 for i in range(12)}.items(),
    'dict_keys': lambda: {'a': 1, 'b': 2}.keys(), 'dict_values': lambda: {'a': [1], 'b': [2]}.values(),
    'reversed': lambda: reversed((1, 2, 3)), 'zip': lambda: zip('ab', 'cd'), 'enumerate': lambda: enumerate(['x', 'y']),
    'eq_array': lambda: EqArray(), 'eq_raises_val': EqRaises,
}


def _slotted():
    s = Slotted()
    s.a = 1
    return s


def mk_key(k):
    if 's' in k:
        return k['s']
    if 'i' in k:
        return k['i']
    if 'tup' in k:
        return tuple(k['tup'])
    if 'f' in k:
        return k['f']
    if 'none' in k:
        return None
    raise ValueError(k)


def build(specs):
    """materialise object specs (list, cross references by index) into live objects."""
    objs = [None] * len(specs)
    done = [False] * len(specs)
    # 1. shells of the mutable containers (so cycles can be tied)
    for i, s in enumerate(specs):
        t = s['t']
        if t == 'list':
            objs[i] = []
        elif t == 'mylist':
            objs[i] = MyList()
        elif t == 'dict':
            objs[i] = {}
        elif t == 'mydict':
            objs[i] = MyDict()
        elif t == 'obj':
            objs[i] = Plain()
        elif t == 'exc':
            objs[i] = {'ValueError': ValueError, 'KeyError': KeyError, 'MyError': MyError,
                       'OSError': OSError}[s.get('cls', 'ValueError')]()
        elif t == 'set':
            objs[i] = set()
        else:
            continue
        done[i] = True
    # 2. immutable values, lower indices first (generators only let them reference shells or lower immutables)
    for i, s in enumerate(specs):
        if done[i]:
            continue
        t = s['t']
        if t in ('int', 'float', 'str', 'bool'):
            objs[i] = s['v']
        elif t == 'none':
            objs[i] = None
        elif t == 'tuple':
            objs[i] = tuple(objs[j] for j in s['e'])
        elif t == 'frozenset':
            objs[i] = frozenset(objs[j] for j in s['e'])
        elif t == 'iter':
            objs[i] = iter(objs[s['of']]) if isinstance(objs[s['of']], list) else iter([1, 2])
        elif t == 'riter':
            objs[i] = reversed([1, 2, 3])
        elif t == 'atom':
            objs[i] = ATOMS[s['k']]()
        elif t == 'hostile':
            objs[i] = HOSTILE[s['k']]()
        elif t == 'outside':
            objs[i] = OUTSIDE[s['k']]()
        elif t == 'unmodelled':
            objs[i] = UNMODELLED[s['k']]()
        elif t == 'aborting':
            objs[i] = ABORTING[s['k']][0]()
        else:
            raise ValueError('unknown spec %r' % (s,))
        done[i] = True
    # 3. fill the shells
    for i, s in enumerate(specs):
        t = s['t']
        if t in ('list', 'mylist'):
            objs[i].extend(objs[j] for j in s['e'])
        elif t == 'set':
            objs[i].update(objs[j] for j in s['e'])
        elif t in ('dict', 'mydict'):
            for k, j in s['k']:
                objs[i][mk_key(k)] = objs[j]
            if s.get('big'):
                # a HUGE mapping, kept compact in the case: n more str keys, all bound to one object
                for n in range(s['big']['n']):
                    objs[i]['k%05d' % n] = objs[s['big']['v']]
        elif t == 'obj':
            for name, j in s['a']:
                objs[i].__dict__[name] = objs[j]
        elif t == 'exc':
            objs[i].args = tuple(objs[j] for j in s['e'])
    return objs


# ------------------------------------------------------------------------------------- probing primitives
def safe_text(o):
    """str(o) or None when it raises an Exception (BaseException propagates: outside the modelled domain)."""
    try:
        return str(o)
    except Exception:
        return None


def placeholder(o):
    return f'{type(o)}@{id(o)}'


def key_text(k):
    if isinstance(k, str):
        return k, True
    t = safe_text(k)
    return (t if t is not None else placeholder(k)), False


def probe(fn):
    try:
        return True, fn()
    except Exception as e:       # noqa: BLE001 — the outcome "raises" is data
        return False, str(e)


def may_iterate(o):
    """is `tuple(o)` free of side effects on o?  (never on iterators / generators / unknown foreign objects)"""
    return issubclass(type(o), (list, tuple, set, frozenset)) or type(o) in KIT_CLASSES


def describe_heap(roots):
    """raw facts of every object reachable from `roots`; returns (heap list, index_of(obj) -> int).
    Identity is `is` (id() while this function — and the caller — hold references)."""
    index = {}
    keep = []
    order = []

    def idx(o):
        k = id(o)
        if k not in index:
            index[k] = len(order)
            order.append(o)
            keep.append(o)
        return index[k]

    for r in roots:
        idx(r)
    heap = []
    i = 0
    while i < len(order):
        o = order[i]
        i += 1
        t = type(o)
        if t in ABORT_MSG:
            # a search that reaches this object is left by an exception before anything of it is recorded
            heap.append({'ty': '?', 'tyrepr': '?', 'dict': False, 'str': None, 'ph': '', 'cls': {'raises': ''},
                         'len': {'raises': ''}, 'items': [], 'seq': {'raises': ''}, 'isexc': False, 'args': {'raises': ''},
                         'hasdict': False, 'attrs': {'raises': ''}, 'aborts': ABORT_MSG[t]})
            continue
        # str() of the built-in containers is not probed: it expands shared sub-structures as a tree (exponential in
        # DAG-shaped data) and the collector renders them by size; would the code start to use it, the model (which
        # then sees "raises") disagrees
        d = {'ty': t.__name__, 'tyrepr': str(t), 'dict': t is dict,
             'str': None if t in (dict, list, tuple, set, frozenset) else safe_text(o), 'ph': placeholder(o)}
        ok, v = probe(lambda: o.__class__.__name__)
        d['cls'] = v if ok and isinstance(v, str) else {'raises': v if not ok else 'not text'}
        ok, v = probe(lambda: len(o))
        d['len'] = v if ok and isinstance(v, int) else {'raises': v if not ok else 'not an int'}
        d['items'] = []
        if t is dict:
            # the enumeration idiom of process_dict_breadth_first; when it raises (a key whose __hash__ raises after
            # insertion) the code's guard drops all children: the fact is then "no items"
            ok, v = probe(lambda: [(k, o[k]) for k in list(o.keys()) if k in o])
            d['items'] = [[*key_text(k), idx(x)] for k, x in v] if ok else []
        if t is type or t is types.ModuleType:
            # never walked into: the collector does not look for children of types and modules
            d['seq'] = {'raises': '<not walked>'}
            d['isexc'] = False
            d['args'] = {'raises': '<not walked>'}
            d['hasdict'] = {'raises': '<not walked>'}
            d['attrs'] = {'raises': '<not walked>'}
            heap.append(d)
            continue
        if may_iterate(o):
            ok, v = probe(lambda: tuple(o))
            d['seq'] = [idx(x) for x in v] if ok else {'raises': v}
        else:
            d['seq'] = {'raises': '<not probed>'}
        ok, v = probe(lambda: isinstance(o, Exception))
        d['isexc'] = v if ok else {'raises': v}
        if ok and v:
            ok2, a = probe(lambda: tuple(o.args))
            d['args'] = [idx(x) for x in a] if ok2 else {'raises': a}
        else:
            d['args'] = {'raises': '<no args>'}
        ok, v = probe(lambda: hasattr(o, '__dict__'))
        d['hasdict'] = v if ok else {'raises': v}
        if ok and v:
            def attrs():
                dd = o.__dict__
                return [(k, dd[k]) for k in list(dd.keys()) if k in dd]
            ok2, a = probe(attrs)
            d['attrs'] = [[*key_text(k), idx(x)] for k, x in a] if ok2 else {'raises': a}
        else:
            d['attrs'] = {'raises': '<no __dict__>'}
        heap.append(d)
    return heap, (lambda o: index.get(id(o))), keep


# ------------------------------------------------------------------------------------- running the real code
def limits_of(case_limits):
    return {k: (case_limits[k] if case_limits.get(k) is not None else DEFAULTS[k]) for k in DEFAULTS}


def frame_type_of(case, act):
    """the frame_type of an action: its own, else the one of the case"""
    return act.get('frame_type') or case.get('frame_type', 'single_frame')


MS = 10 ** 6          # ns per ms
TS = 1                # the trigger time stamp of the Rig's scripted clock


def clock_of(case):
    """the scripted clock of a case: what the successive `time_ns()` calls of the frame collector return, as offsets (ns)
    from the trigger's time stamp; the last one repeats.  None = a clock that does not move."""
    if case.get('clock'):
        return list(case['clock']['reads'])
    if case.get('time_exceeded'):
        return [10 ** 12]
    return None


def max_ms_of(act):
    return act['max_ms'] if act.get('max_ms') is not None else 100


def selects(ft, i):
    return ft == 'all_frame' or (ft != 'no_frame' and i == 0)


def time_plan(case, due, nframes):
    """the time budget as the check reads it (integers only): the clock is looked at on reaching a frame the frame type
    selects; a frame reached more than max_ms milliseconds after the trigger's time stamp carries no variables, nor does
    any later one (the clock is not looked at again); actions are processed in order, each with its own budget, all
    against the same clock.  Returns ({action: [carries variables, per frame]}, number of looks at the clock)."""
    script = clock_of(case) or [0]
    k = 0
    plan = {}
    for ai, a in enumerate(case['actions']):
        if not due[ai]:
            continue
        ft = frame_type_of(case, a)
        spent = False
        row = []
        for i in range(nframes):
            if not selects(ft, i):
                row.append(False)
                continue
            if not spent:
                off = script[min(k, len(script) - 1)]
                k += 1
                spent = off > max_ms_of(a) * MS
            row.append(not spent)
        plan[ai] = row
    return plan, k


def plan_of(case, obs, live):
    due = obs.get('due', [True] * len(case['actions']))
    return time_plan(case, due, max(len(live['frames_locals']), 1) if live else 1)


def action_config(act, case):
    cfg = {}
    if act.get('max_ms') is not None:
        cfg['MAX_TP_PROCESS_TIME'] = act['max_ms']
    if 'raw_max_ms' in act:
        # budgets outside the domain of the model (not an int below 2^32): recorded only
        r = act['raw_max_ms']
        if isinstance(r, str):
            r = r[4:] if r.startswith('str:') else {'float:nan': float('nan'), 'float:inf': float('inf'), 'none': None}[r]
        cfg['MAX_TP_PROCESS_TIME'] = r
    for k, key in CFG_KEYS.items():
        if act['limits'].get(k) is not None:
            cfg[key] = act['limits'][k]
    for key, val in (act.get('raw_limits') or {}).items():
        cfg[key] = val                     # values outside the domain of the limits (negative, not an int): recorded only
    cfg['frame_type'] = frame_type_of(case, act)
    if act.get('watches'):
        cfg['watches'] = list(act['watches'])
    if act.get('log') is not None:
        cfg['log_msg'] = act['log']
    if case.get('capture'):
        cfg['stage'] = case.get('stage', 'line_capture')
    cfg['fire_count'] = '-1'
    return cfg


def host_source(case):
    """a host function whose parameters are the locals, in declaration order; returns (source, tracepoint line)."""
    names = [n for n, _ in case['locals']]
    if case.get('recursion'):
        # one inherited method on the stack several times with `self` of different classes (composite walk)
        params = ''.join(', ' + n for n in names)
        lines = ['class Base:',
                 '    def walk(self, rest%s):' % params,
                 '        if rest:',
                 '            return rest[0].walk(rest[1:]%s)' % params,
                 '        return 0',
                 'class Alpha(Base): pass',
                 'class Beta(Base): pass',
                 'def host(%s):' % ', '.join(names),
                 '    return Alpha().walk([Beta(), Alpha()]%s)' % params]
        return '\n'.join(lines) + '\n', 5
    lines = []
    if case.get('capture_helper'):
        # the captured value is built in a function of its own: a loop (comprehension) on the tracepoint's own line would give
        # a second 'line' event in the host function, which completes a deferred snapshot before the return / raise
        lines += ['def big():', '    return %s' % case['capture_helper']]
    if case.get('mutate'):
        # the host changes a local the snapshot recorded at the tracepoint's line, then returns that same object
        lines += ['def fill(r):', '    r.append(1000)', '    r.append("x" * 40)', '    return r']
    lines.append('def host(%s):' % ', '.join(names))
    if case.get('locals_self'):
        lines.append('    %s = locals()' % case['locals_self'])
    cap = case.get('capture')
    if cap == 'exception':
        lines.append('    raise %s' % case['capture_expr'])
    elif cap == 'return':
        lines.append('    return %s' % case['capture_expr'])
    else:
        lines.append('    return 0')
    return '\n'.join(lines) + '\n', len(lines)


class Shim:
    """records what the interpreter hands to the trace function, then calls the REAL TriggerHandler.trace_call."""

    def __init__(self, handler):
        self.handler = handler
        self.events = []
        self.raised = None

    def trace_call(self, frame, event, arg):
        if frame.f_code.co_filename == HOST_FILE:
            self.events.append((event, frame.f_lineno, frame.f_locals, arg, frame))
        try:
            r = self.handler.trace_call(frame, event, arg)
        except BaseException as e:     # noqa: B902 — must never happen (C01); recorded, and re-raised as the agent did
            self.raised = f'{type(e).__name__}: {e}'
            raise
        return self.trace_call if r is not None else None


def _textual(x):
    """names are text or absent; anything else is shown as such (and then never equals an expected name)"""
    if x is None or isinstance(x, str):
        return x
    t = safe_text(x)
    return '<not text: %s %s>' % (type(x).__name__, t if t is not None else '?')


def dump_ref(v):
    return [v.vid if v.vid is None or isinstance(v.vid, str) else _textual(v.vid), _textual(v.name),
            [_textual(m) for m in (v.modifiers or [])], _textual(v.original_name)]


def wire_of(s):
    """hand the snapshot to the REAL deep.push.convert_snapshot (as PushService._push_task does) and list the ids of the
    message: None = nothing would be sent.  The action configs of these checks hold ints (limits can only be set on
    directly constructed actions), which the tracepoint echo of the message cannot carry: the echo's args are given as
    text first — the echo is not what is judged here."""
    from deep.push import convert_snapshot
    from deep.api.tracepoint.tracepoint_config import TracePointConfig
    tp = s.tracepoint
    try:
        s._tracepoint = TracePointConfig(tp.id, tp.path, tp.line_no, {str(k): str(v) for k, v in tp.args.items()},
                                         [str(w) for w in tp.watches], [])
        m = convert_snapshot(s)
    except BaseException as e:       # noqa: B902 — convert_snapshot promises not to raise
        return {'raised': f'{type(e).__name__}: {e}'}
    finally:
        s._tracepoint = tp
    if m is None:
        return None
    refs = [['frame %d' % i, v.ID, v.name] for i, f in enumerate(m.frames) for v in f.variables]
    refs += [['variable %s' % k, c.ID, c.name] for k, var in m.var_lookup.items() for c in var.children]
    refs += [['watch %s' % w.expression, w.good_result.ID, w.good_result.name] for w in m.watches
             if w.WhichOneof('result') == 'good_result']
    return {'vars': sorted(m.var_lookup.keys()), 'refs': refs}


def has_surrogate(x):
    """does the case mention a lone surrogate anywhere (values, keys, names)? (the open finding C08/lone-surrogate-dropped)"""
    if isinstance(x, str):
        return any(0xD800 <= ord(c) <= 0xDFFF for c in x)
    if isinstance(x, dict):
        return any(has_surrogate(k) or has_surrogate(v) for k, v in x.items())
    if isinstance(x, (list, tuple)):
        return any(has_surrogate(v) for v in x)
    return False


def judge_wire(case, obs, closure=True, delivery=True):
    """every snapshot handed to the push service converts to a message, and the message is closed"""
    v = []
    for s in obs.get('snapshots', []):
        if 'wire' not in s:
            continue
        w = s['wire']
        if w is None:
            if delivery and not has_surrogate(case):
                v.append(f'{s["tp"]}: the snapshot handed to the push service cannot be converted (convert_snapshot returns '
                         'None): nothing is delivered')
            continue
        if 'raised' in w:
            v.append(f'{s["tp"]}: convert_snapshot raised {w["raised"]}')
            continue
        if closure:
            keys = set(w['vars'])
            for where, vid, name in w['refs']:
                if vid not in keys:
                    v.append(f'{s["tp"]} (message sent): {where}: reference {name!r} -> id {vid!r} has no entry in var_lookup')
    return v


def fix_text(s):
    """lone surrogates cannot exist in a Lean String: both sides of the comparison map them to U+FFFD."""
    if s is None:
        return None
    return ''.join('�' if 0xD800 <= ord(c) <= 0xDFFF else c for c in s)


def dump_snap(s, obj_of_hash):
    return {
        'tp': s.tracepoint.id,
        'frames': [[dump_ref(v) for v in f.variables] for f in s.frames],
        'frame_funcs': [f.method_name for f in s.frames],
        'frame_classes': [f.class_name for f in s.frames],
        'vars': [{'vid': k, 'type': v.type, 'value': v.value, 'truncated': v.truncated,
                  'children': [dump_ref(c) for c in v.children], 'obj': obj_of_hash(v.hash)}
                 for k, v in s.var_lookup.items()],
        'watches': [{'expr': w.expression, 'source': w.source,
                     'result': ([w.result.vid, w.result.name] if w.result is not None else None),
                     'error': w.error} for w in s.watches],
    }


def _drive(case, objs, act_ids):
    """run the real agent once with the actions `act_ids` of the case installed; raw results."""
    import deep.processor.frame_collector as fcm
    from deep.api.tracepoint.trigger import LocationAction, Trigger, LineLocation, Location
    rig = Rig()
    orig_time = fcm.time_ns
    script = clock_of(case) or [0]
    looks = []

    def scripted_time_ns():
        off = script[min(len(looks), len(script) - 1)]
        looks.append(off)
        return rig.clock + off
    fcm.time_ns = scripted_time_ns
    out = {'obs': {}, 'looks': looks}
    try:
        src, line = host_source(case)
        glb = {'__name__': 'c05host'}
        exec(compile(src, HOST_FILE, 'exec'), glb)
        for gname, gj in case.get('globals', []):
            glb[gname] = objs[gj]          # module-level names of the host: reachable by watch expressions only
        actions = [LocationAction('tp%d' % i, case['actions'][i].get('condition'), action_config(case['actions'][i], case),
                                  LocationAction.ActionType.Snapshot) for i in act_ids]
        if case.get('one_trigger'):
            trigs = [Trigger(LineLocation(HOST_BASE, line, Location.Position.START), actions)]
        else:
            trigs = [Trigger(LineLocation(HOST_BASE, line, Location.Position.START), [a]) for a in actions]
        rig.install(trigs)
        args = [objs[j] for _, j in case['locals']]
        frames_locals = []
        capture_val = None
        obs = out['obs']
        if case.get('mock'):
            # a chain of frame-like objects (multi-frame cases: the real thread stack below a host function holds
            # interpreter and harness frames)
            # a local given as {'frame': k} is bound to the f_locals dict of frame k of the chain (a caller's `locals()` handed
            # to a callee, or the other way round)
            dicts = [dict() for _ in case['mock']]
            for i, fr in enumerate(case['mock']):
                for n, j in fr:
                    dicts[i][n] = dicts[j['frame']] if isinstance(j, dict) else objs[j]
            chain = None
            for i in reversed(range(len(dicts))):
                chain = MockFrame(HOST_FILE, 'host', line, dicts[i], f_back=chain, f_globals=glb)
            f = chain
            while f is not None:
                frames_locals.append(f.f_locals)
                f = f.f_back
            try:
                rig.handler.trace_call(chain, 'line', None)
            except BaseException as e:   # noqa: B902
                obs['raised'] = f'{type(e).__name__}: {e}'
            host_locals = chain.f_locals
            res = {}
        else:
            shim = Shim(rig.handler)
            res = run_traced(shim, glb['host'], *args)
            if shim.raised:
                obs['raised'] = shim.raised
            at = [e for e in shim.events if e[0] == 'line' and e[1] == line]
            if not at:
                raise core.Infra('host function never reached its tracepoint line')
            host_locals = at[0][2]
            frames_locals = [host_locals]
            if case.get('capture'):
                ev = [e for e in shim.events if e[0] in ('return', 'exception') and e[1] == line]
                if ev:
                    capture_val = ev[0][3]
                    obs['capture_event'] = ev[0][0]
            obs['trace_kept'] = res.get('trace_after') is not None
            out['shim'] = shim
        if 'exc' in res and not case.get('capture') == 'exception':
            obs['host_exc'] = f'{type(res["exc"]).__name__}: {res["exc"]}'
        if rig.clock != TS:
            raise core.Infra('the scripted trigger clock is not at TS')
        out.update(glb=glb, host_locals=host_locals, frames_locals=frames_locals, capture_val=capture_val,
                   pushed=list(rig.push.pushed))
        return out
    finally:
        fcm.time_ns = orig_time
        rig.close()


def run_case(case):
    """run the real agent on the case; observation = snapshots + heap description + roots."""
    objs = build(case['objs'])
    d = _drive(case, objs, list(range(len(case['actions']))))
    obs = d['obs']
    obs['clock_looks'] = len(d['looks'])
    glb, host_locals, frames_locals = d['glb'], d['host_locals'], d['frames_locals']
    global _LIVE
    if has_outside(case) or has_unmodelled(case):
        # a value whose __str__ raises a BaseException, or one outside the fault model of the heap: outside the modelled domain, nothing of it is probed here
        obs['snapshots'] = [dump_snap(s, lambda h: None) for s in d['pushed']]
        _TOKEN[0] += 1
        obs['live_token'] = _TOKEN[0]
        _LIVE = {'token': _TOKEN[0], 'keep': [], 'index_of': lambda o: None, 'frames_locals': [], 'watch_vals': [],
                 'objs': objs, 'pushed': d['pushed'], 'held': set()}
        return obs
    # ---- describe what the agent saw
    # objects alive during the whole run: ids usable to map table entries to objects
    _, _, pre_keep = describe_heap(list(frames_locals))
    pre_ids = {id(o) for o in pre_keep}
    obs['due'] = [is_due(a.get('condition'), glb, host_locals) for a in case['actions']]
    watch_vals = []
    for a in case['actions']:
        vals = []
        for kind, expr in watch_exprs(a):
            try:
                v = eval(expr, glb, host_locals)
            except BaseException as e:   # noqa: B902 — evaluate_expression returns the exception as the value
                v = e
            vals.append((kind, expr, v))
        if case.get('capture') and 'capture_event' in obs:
            vals.append(('capture', obs['capture_event'], d['capture_val']))
        watch_vals.append(vals)
    roots = list(frames_locals) + [v for vals in watch_vals for _, _, v in vals]
    heap, index_of, keep = describe_heap(roots)
    obs['heap'] = heap
    obs['frames_locals'] = [index_of(f) for f in frames_locals]
    obs['watch_roots'] = [[[k, e, index_of(v)] for k, e, v in vals] for vals in watch_vals]
    held = {id(o): index_of(o) for o in keep if id(o) in pre_ids}

    def obj_of_hash(h):
        try:
            return held.get(int(h))
        except (TypeError, ValueError):
            return None
    pushed = d['pushed']
    obs['snapshots'] = [dict(dump_snap(s, obj_of_hash), wire=wire_of(s)) for s in pushed]
    obs['shared_tables'] = len({id(s.var_lookup) for s in pushed}) != len(pushed)
    obs['shared_frames'] = len({id(s.frames[0].variables) for s in pushed if s.frames}) != \
        len([s for s in pushed if s.frames])
    if case.get('solo') and len(case['actions']) > 1:
        # every action once more, alone, on the same objects: what "complete on its own" is measured against
        solo = []
        for i in range(len(case['actions'])):
            di = _drive(case, objs, [i])
            solo.append([dump_snap(s, lambda h: None) for s in di['pushed']])
        obs['solo'] = solo
    _TOKEN[0] += 1
    obs['live_token'] = _TOKEN[0]
    _LIVE = {'token': _TOKEN[0], 'keep': keep, 'index_of': index_of, 'frames_locals': frames_locals,
             'watch_vals': watch_vals, 'objs': objs, 'pushed': pushed, 'held': set(held.values())}
    return obs


TRUTHY = ('yes', 'true', 't', '1', 'y')


def is_due(cond, glb, loc):
    """the statement's reading of a tracepoint condition: absent/blank = due; otherwise the text of its value must be a
    truthy word; a condition that cannot be evaluated or whose value cannot be turned into text is not due."""
    if cond is None or not cond.strip():
        return True
    try:
        v = eval(cond, glb, loc)
    except BaseException as e:   # noqa: B902 — evaluate_expression hands the exception on as the value
        v = e
    try:
        return str(v).lower() in TRUTHY
    except Exception:
        return False


_GATES = {}


class Gate:
    """a value whose first str() on the armed thread stops until it is released (forces a 2-thread schedule from
    inside the collector's own str() call).  Slotted: it has no attributes for the collector to descend into."""
    __slots__ = ()

    def __str__(self):
        st = _GATES.get(id(self))
        if st is not None and not st['used'] and threading.get_ident() != st.get('controller'):
            st['used'] = True
            st['arrived'].set()
            if not st['release'].wait(20):
                raise TimeoutError('gate not released')
        return 'gate'

    def __repr__(self):
        return 'gate'


def run_race(case):
    """two snapshot tracepoints with different limits on two host functions; thread 1 is stopped inside the collection
    of its first local, thread 2 runs its tracepoint to the end, thread 1 carries on."""
    import deep.processor.frame_collector as fcm
    from deep.api.tracepoint.trigger import LocationAction, Trigger, LineLocation, Location
    objs = build(case['objs'])
    names = [n for n, _ in case['locals']]
    src = ('def host(gate0, %s):\n    return 0\ndef host2(%s):\n    return 0\n' % (', '.join(names), ', '.join(names)))
    glb = {'__name__': 'c05host'}
    exec(compile(src, HOST_FILE, 'exec'), glb)
    rig = Rig()
    orig_time = fcm.time_ns
    fcm.time_ns = (lambda: rig.clock)
    gate = Gate()
    st = {'used': False, 'arrived': threading.Event(), 'release': threading.Event(),
          'controller': threading.get_ident()}
    _GATES[id(gate)] = st
    obs = {}
    try:
        acts = [LocationAction('tp%d' % i, None, action_config(a, case), LocationAction.ActionType.Snapshot)
                for i, a in enumerate(case['actions'])]
        rig.install([Trigger(LineLocation(HOST_BASE, 2, Location.Position.START), [acts[0]]),
                     Trigger(LineLocation(HOST_BASE, 4, Location.Position.START), [acts[1]])])
        args = [objs[j] for _, j in case['locals']]
        shim1, shim2 = Shim(rig.handler), Shim(rig.handler)
        res1 = {}

        def first():
            res1.update(run_traced(shim1, glb['host'], gate, *args))
        t1 = threading.Thread(target=first)
        t1.start()
        overlapped = st['arrived'].wait(20)
        res2 = run_traced(shim2, glb['host2'], *args)
        st['release'].set()
        t1.join(30)
        if t1.is_alive():
            raise core.Infra('race: thread 1 did not finish')
        obs['overlapped'] = bool(overlapped)
        for sh in (shim1, shim2):
            if sh.raised:
                obs['raised'] = sh.raised
        for r in (res1, res2):
            if 'exc' in r:
                obs['host_exc'] = f'{type(r["exc"]).__name__}: {r["exc"]}'
        loc1 = [e for e in shim1.events if e[0] == 'line' and e[1] == 2]
        loc2 = [e for e in shim2.events if e[0] == 'line' and e[1] == 4]
        if not loc1 or not loc2:
            raise core.Infra('race: a host function never reached its tracepoint line')
        frames_locals = [loc1[0][2], loc2[0][2]]
        heap, index_of, keep = describe_heap(frames_locals)
        held = {id(o): index_of(o) for o in keep}

        def obj_of_hash(h):
            try:
                return held.get(int(h))
            except (TypeError, ValueError):
                return None
        obs['snapshots'] = [dump_snap(x, obj_of_hash) for x in rig.push.pushed]
        global _LIVE
        _TOKEN[0] += 1
        obs['live_token'] = _TOKEN[0]
        _LIVE = {'token': _TOKEN[0], 'keep': keep, 'index_of': index_of, 'frames_locals': frames_locals,
                 'watch_vals': [[], []], 'objs': objs, 'pushed': list(rig.push.pushed), 'held': set(held.values())}
        return obs
    finally:
        _GATES.pop(id(gate), None)
        fcm.time_ns = orig_time
        rig.close()


def judge_race(case, obs, live):
    v = []
    if 'raised' in obs:
        v.append('trace_call raised into the host: ' + obs['raised'])
    if not obs.get('overlapped'):
        v.append('infrastructure: the first thread never reached the gate')
    snaps = dict(snapshots_by_action(case, obs))
    for ai in (0, 1):
        if ai not in snaps:
            v.append(f'tracepoint tp{ai}: no snapshot')
            continue
        live_i = dict(live, frames_locals=[live['frames_locals'][ai]])
        v += [f'tp{ai} (while the other tracepoint ran on another thread): ' + x
              for x in judge_bounds(case, obs, live_i, ai, snaps[ai])]
    return v


def gen_race(rng):
    tight = {'vars': rng.choice([None, 25]), 'str': rng.choice([0, 4, 8]), 'coll': rng.choice([0, 2, 3]),
             'depth': rng.choice([2, 3])}
    loose = {'vars': None, 'str': rng.choice([None, 64]), 'coll': rng.choice([None, 20]), 'depth': rng.choice([None, 8])}
    c = gen_case(rng, lim=tight, nobj=rng.choice([10, 16, 25]), watches=False, stream='race')
    c['kind'] = 'race'
    if not c['locals']:
        c['locals'] = [['a', 0]]
    c['actions'] = [{'limits': tight}, {'limits': loose}]
    if rng.random() < 0.4:
        c['actions'].reverse()
    return c


def watch_exprs(act):
    out = [('watch', w) for w in act.get('watches', [])]
    if act.get('log') is not None:
        import string
        for _, field, _, _ in string.Formatter().parse(act['log']):
            if field is not None:
                out.append(('log', field))
    return out


_TOKEN = [0]
_LIVE = None


def live_of(obs):
    """the live objects of the evaluation that produced `obs` (kept for the most recent evaluation only: core calls
    the oracle right after run_impl).  Observations themselves stay JSON-able."""
    if _LIVE is not None and _LIVE['token'] == obs.get('live_token'):
        return _LIVE
    return None


# ------------------------------------------------------------------------------------- correspondence
def model_request(case, obs):
    if 'heap' not in obs:
        return None
    acts = []
    for ai, a in enumerate(case['actions']):
        if not obs.get('due', [True] * len(case['actions']))[ai]:
            continue
        lim = limits_of(a['limits'])
        ft = frame_type_of(case, a)
        # which of the selected frames are collected is decided by the MODEL (CollectorTime, regenerated from the source)
        # from the same scripted clock the real collector read
        frames = [{'locals': obs['frames_locals'][i], 'selected': bool(selects(ft, i))}
                  for i in range(len(obs['frames_locals']))]
        watches = [{'src': k, 'expr': e, 'value': v} for k, e, v in obs['watch_roots'][ai] if k != 'capture']
        act = {'limits': lim, 'frames': frames, 'watches': watches, 'max_ms': max_ms_of(a)}
        caps = [(e, v) for k, e, v in obs['watch_roots'][ai] if k == 'capture']
        if caps:
            # every capture of these checks is a DEFERRED one (stage line_capture / method_capture): the value is collected
            # later, by the callback, through the same action context (Collector.deferredSnapshot)
            act['deferred'] = {'event': caps[0][0], 'value': caps[0][1]}
        acts.append(act)
    script = clock_of(case) or [0]
    req = {'op': 'collect', 'heap': [fix_heap(o) for o in obs['heap']], 'actions': acts,
           'clock': {'ts': TS, 'reads': [TS + x for x in script]}}
    if case.get('mutate'):
        # two heaps: the walker saw the objects AFTER the run (= the heap at the return event); the heap at the tracepoint's line
        # is the same with the mutated list as the case built it (the host only appended to it)
        req['heap2'] = req['heap']
        loc = obs['heap'][obs['frames_locals'][0]]
        idx = [i for k, _, i in loc['items'] if k == case['mutate']][0]
        n0 = len([sp for nm, j in case['locals'] if nm == case['mutate'] for sp in case['objs'][j]['e']])
        before = dict(req['heap'][idx])
        before['seq'] = list(before['seq'][:n0])
        before['len'] = n0
        req['heap'] = req['heap'][:idx] + [before] + req['heap'][idx + 1:]
    return req


def counts_looks(case):
    """is the number of clock reads of the real collector comparable with the model's: the model must know the whole stack
    (a MockFrame chain) or the frame type must select nothing below the paused frame"""
    return bool(case.get('mock')) or all(frame_type_of(case, a) != 'all_frame' for a in case['actions'])


def fix_heap(o):
    d = dict(o)
    for k in ('str', 'ph', 'ty', 'tyrepr'):
        d[k] = fix_text(d[k])
    if isinstance(d.get('cls'), str):
        d['cls'] = fix_text(d['cls'])
    d['items'] = [[fix_text(a), b, c] for a, b, c in d['items']]
    if isinstance(d['attrs'], list):
        d['attrs'] = [[fix_text(a), b, c] for a, b, c in d['attrs']]
    return d


def canon_snap(s, nmodel_frames):
    return {
        'frames': [[[int(v[0]) if v[0] is not None else None, fix_text(v[1]), v[2], fix_text(v[3])] for v in f]
                   for f in s['frames'][:nmodel_frames]],
        'vars': [{'vid': int(e['vid']), 'type': e['type'], 'value': fix_text(e['value']),
                  'truncated': bool(e['truncated']),
                  'children': [[int(c[0]), fix_text(c[1]), c[2], fix_text(c[3])] for c in e['children']]}
                 for e in s['vars']],
        'watches': [{'expr': w['expr'], 'source': w['source'],
                     'result': ([int(w['result'][0]) if w['result'][0] is not None else None, w['result'][1]]
                                if w['result'] is not None else None),
                     'error': fix_text(w['error'])} for w in s['watches']],
    }


def compare(case, obs, resp):
    if 'error' in resp:
        return ['model error: ' + resp['error']]
    out = []
    snaps = {s['tp']: s for s in obs.get('snapshots', [])}
    if len(snaps) != len(obs.get('snapshots', [])):
        out.append('more than one snapshot for one tracepoint id')
    due_ids = [i for i in range(len(case['actions'])) if obs.get('due', [True] * len(case['actions']))[i]]
    if 'reads' in resp and 'clock_looks' in obs and counts_looks(case) and not any('failed' in m for m in resp['actions']) \
            and resp['reads'] != obs['clock_looks']:
        out.append(f'the frame collector read the clock {obs["clock_looks"]} times, the model {resp["reads"]} times '
                   f'(frames collected per action, model: {resp.get("collected")})')
    for i, m in zip(due_ids, resp['actions']):
        s = snaps.get('tp%d' % i)
        if 'failed' in m:
            if s is not None:
                out.append(f'action {i}: model says the action fails ({m["failed"]}), implementation pushed a snapshot')
            continue
        if s is None:
            out.append(f'action {i}: model produces a snapshot, implementation pushed none'
                       + (' (raised %s)' % obs['raised'] if 'raised' in obs else ''))
            continue
        nmf = len(m['frames'])
        got = canon_snap(s, nmf)
        want = {'frames': m['frames'],
                'vars': [{k: e[k] for k in ('vid', 'type', 'value', 'truncated', 'children')} for e in m['vars']],
                'watches': m['watches']}
        for part in ('frames', 'vars', 'watches'):
            if got[part] != want[part]:
                out.append(f'action {i} {part}: implementation {core.canon(got[part])[:400]} '
                           f'model {core.canon(want[part])[:400]}')
        if any(f for f in s['frames'][nmf:]):
            out.append(f'action {i}: variables on frames the model does not collect')
    return out


# ------------------------------------------------------------------------------------- reference (the statements)
class Ref:
    """what the property statements say about a live object graph, computed from the live objects."""

    def __init__(self, limits):
        self.lim = limits

    @staticmethod
    def kind(o):
        t = type(o)
        if t.__name__ in SCALAR_NAMES or t.__name__ in ITER_NAMES:
            return 'leaf'
        if t is dict:
            return 'dict'
        if t in LIST_TYPES:
            return 'seq'
        if issubclass(t, Exception) and (t.__module__ == 'builtins' or t is MyError):
            return 'exc'
        if type(o) in (Plain, Priv, StrRaises, ReprRaises, LenRaises, EqRaises):
            return 'obj'
        return 'other'         # exotic: only the generic bounds are judged

    def kids(self, o):
        """[(expected name, expected original name or None, child object)] or None for exotic kinds."""
        k = self.kind(o)
        if k == 'leaf':
            return []
        if k == 'dict':
            out = []
            try:
                pairs = [(key, o[key]) for key in list(o.keys()) if key in o]
            except Exception:
                return []
            for key, _ in pairs:
                name = key if isinstance(key, str) else (safe_text(key) if safe_text(key) is not None
                                                          else placeholder(key))
                out.append((name, None, o[key]))
            return out
        if k == 'seq':
            return [(str(i), None, v) for i, v in enumerate(tuple(o)[:self.lim['coll']])]
        if k == 'exc':
            return [(str(i), None, v) for i, v in enumerate(tuple(o.args)[:self.lim['coll']])]
        if k == 'obj':
            out = []
            pre = '_' + type(o).__name__
            for key, v in list(o.__dict__.items()):
                name = key[len(pre):] if isinstance(key, str) and key.startswith(pre) else key
                out.append((name, key if name != key else None, v))
            return out
        return None

    def render(self, o):
        """the complete text of a value, before truncation; None for exotic kinds."""
        t = type(o)
        if t in ABORT_MSG:
            return '<never rendered: a search that reaches this object aborts>'
        if t.__name__ in ITER_NAMES:
            return 'Iterator of type: %s' % t
        if t is dict or t in LIST_TYPES:
            return 'Size: %d' % len(o)
        s = safe_text(o)
        return s if s is not None else placeholder(o)

    def levels(self, root):
        """breadth-first level of every object within the depth and collection bounds, root = level 0."""
        lv = {id(root): 0}
        objs = {id(root): root}
        frontier = [root]
        d = 0
        while frontier and d + 1 < self.lim['depth']:
            nxt = []
            for o in frontier:
                ks = self.kids(o)
                if ks is None:
                    continue
                for _, _, c in ks:
                    if id(c) not in lv:
                        lv[id(c)] = d + 1
                        objs[id(c)] = c
                        nxt.append(c)
            frontier = nxt
            d += 1
        return lv, objs


def modifiers(name):
    return ['private'] if name.startswith('__') else ['protected'] if name.startswith('_') else []


# ------------------------------------------------------------------------------------- generation
NAMES = ['a', 'b', 'c', 'd', 'e', 'f', 'g', 'h', 'k', 'm', 'n', 'p', 'q', 'r', 's', 't', 'u', 'v', 'w', 'x', 'y', 'z',
         '_prot', '__priv', 'data', 'items', 'value', 'self', 'résumé', 'cfg', 'l2', 'obj1',
         # names that begin with '_' + the type name of a container (only attributes of objects are "private names")
         '_dict_size', '_list_y', '_Plain_z', '_dictx', '_tuple_t', '_MyDict_k']
ATOM_KEYS = sorted(ATOMS)
HOSTILE_KEYS = sorted(HOSTILE)


def gen_text(rng, maxstr):
    r = rng.random()
    base = maxstr if maxstr is not None else rng.choice([4, 8, 1024])
    if r < 0.25:
        n = rng.randint(0, 6)
    elif r < 0.75:
        n = max(0, base + rng.choice([-2, -1, 0, 0, 1, 1, 2, 7]))
    else:
        n = rng.choice([0, 1, base * 3 + 5, 40])
    n = min(n, 1500)
    alphabet = 'abcdefghij klmnopqrstuvwxyz0123456789_-'
    flavour = rng.random()
    chars = []
    for i in range(n):
        if flavour > 0.85 and rng.random() < 0.3:
            chars.append(rng.choice(['\U0001F600', 'é', '中', '́', '\x00', '"', '\\', '\n']))
        elif flavour > 0.95 and rng.random() < 0.15 and (not chars or not 0xD800 <= ord(chars[-1]) <= 0xDFFF):
            chars.append(rng.choice(['\ud800', '\udfff']))
        else:
            chars.append(rng.choice(alphabet))
    return ''.join(chars)


def gen_graph(rng, n, lim, share=0.2, hostile=0, exotic=0.06, outside=False, tree=False):
    """object specs with sharing and cycles; `lim` steers sizes towards the limits (+-1)."""
    coll = lim.get('coll') if lim.get('coll') is not None else 10
    specs = []
    weights = [('int', 18), ('str', 16), ('float', 3), ('bool', 3), ('none', 3), ('list', 14), ('tuple', 8),
               ('set', 4), ('frozenset', 2), ('dict', 14), ('obj', 9), ('exc', 3), ('iter', 2), ('riter', 1),
               ('mylist', 1), ('mydict', 1)]
    pool = [t for t, w in weights for _ in range(w)]
    kinds = []
    for i in range(n):
        if hostile and rng.random() < hostile:
            kinds.append('hostile')
        elif rng.random() < exotic:
            kinds.append('atom')
        else:
            kinds.append(rng.choice(pool))
    if outside:
        kinds[rng.randrange(n)] = 'outside'
    mutable = {'list', 'dict', 'obj', 'exc', 'set', 'mylist', 'mydict'}
    scalar = {'int', 'str', 'float', 'bool', 'none'}
    hashable = [False] * n

    def size():
        r = rng.random()
        if r < 0.15:
            return 0
        if r < 0.65:
            return max(0, coll + rng.choice([-1, 0, 0, 1, 1, 2]))
        if r < 0.9:
            return rng.randint(1, 4)
        return rng.randint(8, 25)

    taken = [False] * n
    scalars = [j for j in range(n) if kinds[j] in scalar]

    def pick(i, allowed):
        """a child index: prefer a *recent* or shared one so the graph is deep as well as wide.  In tree mode every
        object gets at most one container as parent (scalars may be shared): str() of the roots stays linear."""
        if tree:
            if rng.random() < share and scalars:
                j = rng.choice(scalars)
                return j if allowed(j) else None
            for j in range(i + 1, min(n, i + 40)):
                if not taken[j] and allowed(j):
                    taken[j] = True
                    return j
            return None
        cands = [j for j in range(n) if allowed(j)]
        if not cands:
            return None
        if rng.random() < share:
            return rng.choice(cands)
        near = [j for j in cands if i < j <= i + 6] or cands
        return rng.choice(near)

    for i, t in enumerate(kinds):
        if t == 'int':
            specs.append({'t': 'int', 'v': rng.choice([0, 1, -1, 7, 255, 256, 257, 10 ** 6, rng.randint(-10 ** 9, 10 ** 9)])})
            hashable[i] = True
        elif t == 'str':
            specs.append({'t': 'str', 'v': gen_text(rng, lim.get('str'))})
            hashable[i] = True
        elif t == 'float':
            specs.append({'t': 'float', 'v': rng.choice([0.0, 1.5, -2.25, 1e100, 3.14159])})
            hashable[i] = True
        elif t == 'bool':
            specs.append({'t': 'bool', 'v': rng.random() < 0.5})
            hashable[i] = True
        elif t == 'none':
            specs.append({'t': 'none'})
            hashable[i] = True
        elif t in ('list', 'mylist', 'exc'):
            es = [pick(i, lambda j: True) for _ in range(size() if t != 'exc' else rng.randint(0, 3))]
            s = {'t': t, 'e': [e for e in es if e is not None]}
            if t == 'exc':
                s['cls'] = rng.choice(['ValueError', 'KeyError', 'MyError', 'OSError'])
            specs.append(s)
        elif t == 'tuple':
            es = [pick(i, lambda j: j < i or kinds[j] in mutable) for _ in range(size())]
            es = [e for e in es if e is not None]
            specs.append({'t': 'tuple', 'e': es})
            hashable[i] = all(hashable[e] for e in es)
        elif t in ('set', 'frozenset'):
            es = [pick(i, lambda j: j < i and hashable[j]) for _ in range(size())]
            es = sorted({e for e in es if e is not None})
            specs.append({'t': t, 'e': es})
            hashable[i] = t == 'frozenset'
        elif t in ('dict', 'mydict'):
            items = []
            used = set()
            for _ in range(size()):
                r = rng.random()
                if r < 0.7:
                    k = {'s': rng.choice(NAMES) + rng.choice(['', '', '1', '_x'])}
                elif r < 0.85:
                    k = {'i': rng.randint(3, 50)}
                elif r < 0.92:
                    k = {'tup': [rng.randint(0, 3), rng.randint(0, 3)]}
                elif r < 0.97:
                    k = {'f': rng.choice([0.5, 2.5])}
                else:
                    k = {'none': 1}
                ck = core.canon(mk_key(k) if 'tup' not in k else k)
                if ck in used:
                    continue
                used.add(ck)
                j = pick(i, lambda j: True)
                if j is not None:
                    items.append([k, j])
            specs.append({'t': t, 'k': items})
        elif t == 'obj':
            attrs = []
            used = set()
            for _ in range(rng.randint(0, 5)):
                name = rng.choice(NAMES[:24] + ['_Plain__hidden', '_Plainx', '_prot', '__dunder__', '_dict_size', '_list_y'])
                if name in used:
                    continue
                used.add(name)
                j = pick(i, lambda j: True)
                if j is not None:
                    attrs.append([name, j])
            specs.append({'t': 'obj', 'a': attrs})
        elif t == 'iter':
            lists = [j for j in range(n) if kinds[j] == 'list']
            specs.append({'t': 'iter', 'of': rng.choice(lists) if lists else i})
        elif t == 'riter':
            specs.append({'t': 'riter'})
        elif t == 'atom':
            specs.append({'t': 'atom', 'k': rng.choice(ATOM_KEYS)})
        elif t == 'hostile':
            specs.append({'t': 'hostile', 'k': rng.choice(HOSTILE_KEYS)})
        elif t == 'outside':
            specs.append({'t': 'outside', 'k': 'str_base_exception'})
    return specs


def expansion_cost(specs, roots, cap=10 ** 6):
    """size of the text str() would produce for the roots (shared sub-structures are expanded as a tree)"""
    memo = {}
    stack = set()

    def cost(i):
        if i in memo:
            return memo[i]
        if i in stack:
            return 1
        s = specs[i]
        t = s['t']
        kids = []
        if t in ('list', 'mylist', 'tuple', 'set', 'frozenset', 'exc'):
            kids = s['e']
        elif t in ('dict', 'mydict'):
            kids = [j for _, j in s['k']]
        stack.add(i)
        c = 1 + (len(s['v']) // 8 if t == 'str' else 0)
        for j in kids:
            c += cost(j)
            if c > cap:
                break
        stack.discard(i)
        memo[i] = min(c, cap)
        return memo[i]
    return sum(cost(r) for r in roots)


def gen_limits(rng, small=True):
    if small:
        return {'vars': rng.choice([0, 1, 3, 10, 10, 25, None]), 'str': rng.choice([0, 4, 8, 8, None]),
                'coll': rng.choice([0, 2, 3, 3, None]), 'depth': rng.choice([0, 1, 2, 3, 3, 5, 5, None])}
    return {'vars': rng.choice([None, None, 200, 50]), 'str': rng.choice([None, 64, 8]),
            'coll': rng.choice([None, 3, 20]), 'depth': rng.choice([None, None, 3, 8])}


def gen_watches(rng, specs, locs):
    """side-effect free expressions over the locals: a local, a part of a local, fresh temporaries, failures."""
    out = []
    if rng.random() < 0.12:
        # equal-but-distinct temporaries, then another temporary of the same size: none may share an id
        name = rng.choice(locs)[0] if locs else '0'
        a, b = rng.choice([('[%s, 1]' % name, '[%s, 2]' % name), ('{"k": 1}', '{"k": 2}'), ('(%s, 7)' % name, '(%s, 8)' % name),
                           ('tuple([1, 2, 3])', 'tuple([4, 5, 6])'), ('[1, 2]', '[3, 4]'),
                           ('"hello " + "world"', '"hello " + "there"')])
        out += [a, a, b] if rng.random() < 0.7 else [name, a, a, b]
    if rng.random() < 0.06:
        # MANY fresh scalar temporaries (floats, strs, ints beyond the small-int cache) nothing in the frame refers to: each is
        # garbage when the next is made and its address is reused; two different values must never share an id
        forms = ['float(%d) * 2.5', 'int("7%03d") + 1000', '"w%d-" + str(3.5)', 'float(%d) / 7.0', 'str(%d) + "-tail"']
        out += [rng.choice(forms) % (k + 2) for k in range(rng.randint(15, 40))]
    if rng.random() < 0.08:
        # many new small tuples / lists created after the frame was collected
        out.append(rng.choice(['[(i, str(i)) for i in range(40)]', '[(i, i * 1000) for i in range(30)]',
                               '[[i, 1000 + i] for i in range(25)]', 'list(zip(range(1000, 1040), range(2000, 2040)))']))
    for _ in range(rng.choice([0, 0, 1, 1, 2, 3])):
        r = rng.random()
        name, j = rng.choice(locs) if locs else ('nope', None)
        t = specs[j]['t'] if j is not None else None
        if r < 0.3 or j is None:
            out.append(name)
        elif r < 0.5 and t in ('list', 'tuple', 'mylist') and specs[j]['e']:
            out.append('%s[%d]' % (name, rng.randrange(len(specs[j]['e']))))
        elif r < 0.5 and t == 'obj' and specs[j]['a']:
            a = rng.choice(specs[j]['a'])[0]
            out.append('%s.%s' % (name, a) if a.isidentifier() and not a.startswith('__') else name)
        elif r < 0.5 and t in ('dict', 'mydict') and any('s' in k for k, _ in specs[j]['k']):
            k = rng.choice([k['s'] for k, _ in specs[j]['k'] if 's' in k])
            out.append('%s[%r]' % (name, k))
        elif r < 0.62:
            out.append(rng.choice(['{"k": 1}', '{"k": 2}', '[%s, 1]' % name, '(%s, %s)' % (name, name), '"x" * 50',
                                   'list(range(30))', '[[1, 2, 3], [4, 5, 6], [7, 8, 9]]', '1000', '"hello world"']))
        elif r < 0.72:
            out.append(rng.choice(['nope', '1/0', '%s.missing_attr' % name, 'len(5)']))
        else:
            out.append(name)
    return out


def gen_case(rng, lim=None, nobj=None, hostile=0.0, outside=False, nactions=1, small=True, watches=True,
             frame_type='single_frame', capture=None, mock_frames=0, locals_self=None, stream='main'):
    lim = lim if lim is not None else gen_limits(rng, small)
    n = nobj if nobj is not None else rng.choice([3, 6, 10, 16, 25, 40, 70])
    for attempt in range(6):
        tree = attempt >= 2 or n >= 100
        specs = gen_graph(rng, n, lim, share=rng.choice([0.0, 0.1, 0.3, 0.5]), hostile=hostile, outside=outside,
                          tree=tree)
        nloc = rng.randint(0 if n > 3 else 1, min(8, n))
        idxs = [rng.randrange(n) for _ in range(nloc)]
        # the agent computes str() of the whole locals dict (log text of process_variable): keep that affordable
        if expansion_cost(specs, range(n)) <= 20000 or attempt == 5:
            break
    if hostile or outside:
        idxs += [i for i, s in enumerate(specs) if s['t'] in ('hostile', 'outside')][:2]
    names = [x for x in NAMES if x != 'self']
    rng.shuffle(names)
    locs = []
    used_self = False
    for j in idxs:
        nm = names.pop()
        if nm == 'data' and rng.random() < 0.3 and specs[j]['t'] != 'outside':
            nm = 'self'
        elif specs[j]['t'] == 'hostile' and not used_self and rng.random() < 0.5:
            nm = rng.choice(['self', 'self', 'cls'])      # `_process_frame` reads the class of the local called self
        if nm in ('self', 'cls'):
            if used_self:
                nm = nm + '_%d' % j
            used_self = True
        locs.append([nm, j])
    rng.shuffle(locs)
    case = {'objs': specs, 'locals': locs, 'frame_type': frame_type, 'stream': stream, 'actions': []}
    for i in range(nactions):
        a = {'limits': dict(lim) if i == 0 or rng.random() < 0.5 else gen_limits(rng, small)}
        if watches:
            a['watches'] = gen_watches(rng, specs, locs)
            if rng.random() < 0.2 and locs:
                fields = gen_watches(rng, specs, locs)[:2]
                fields = [f for f in fields if not any(c in f for c in '{}!:"\'')]
                a['log'] = 'log ' + ' '.join('%s={%s}' % (k, f) for k, f in enumerate(fields))
        case['actions'].append(a)
    if capture:
        case['capture'] = capture
        case['capture_expr'] = rng.choice([nm for nm, _ in locs]) if locs else '0'
        if capture == 'exception':
            excs = [nm for nm, j in locs if specs[j]['t'] == 'exc']
            case['capture_expr'] = excs[0] if excs else 'ValueError(%s)' % (locs[0][0] if locs else '1')
    if mock_frames:
        frames = [list(locs)]
        for _ in range(mock_frames - 1):
            k = rng.randint(0, 4)
            fr = [[names.pop() if names else 'zz%d' % rng.randrange(99), rng.randrange(n)] for _ in range(k)]
            if rng.random() < 0.4 and locs:
                fr.append(list(rng.choice(locs)))            # the same object in two frames
            frames.append(fr)
        case['mock'] = frames
    if locals_self:
        case['locals_self'] = locals_self
    return case


BIG_RETURNS = ['{"r%d" % i: "ret-%d" % i for i in range(60)}', '{i: [i, i + 1000] for i in range(1000, 1040)}',
               '[[i, i + 1000, str(i)] for i in range(2000, 2040)]', 'dict((str(i), str(i) * 3) for i in range(3000, 3050))',
               '[{"a": i + 4000, "b": [i + 5000]} for i in range(30)]', '"y" * 5000', '[[[[[[7000]]]]]]']
BIG_RAISES = ['ValueError({"e%d" % i: "err-%d" % i for i in range(60)})', 'KeyError(*[[i + 6000] for i in range(40)])',
              'RuntimeError([[i, i + 1000] for i in range(2000, 2040)], "x" * 3000)']


def gen_frame_locals(rng):
    """MockFrame chains in which a local of one frame IS the f_locals dict of another frame of the chain (a function handed
    its caller's `locals()`, or a caller holding the namespace of a callee): instances of the recorded finding
    C07/locals-dict-self-reference when that other frame is collected too (the unwrap deletes the entry the local refers to)."""
    nfr = rng.choice([2, 2, 3])
    c = gen_case(rng, nobj=rng.choice([3, 6, 10]), mock_frames=nfr, stream='frame-locals', watches=rng.random() < 0.3,
                 frame_type=rng.choice(['all_frame', 'all_frame', 'all_frame', 'single_frame']))
    i = rng.randrange(nfr)
    k = rng.choice([x for x in range(nfr) if x != i] + ([i] if rng.random() < 0.2 else []))
    fr = list(c['mock'][i])
    fr.insert(rng.randint(0, len(fr)), ['ns_%d' % k, {'frame': k}])
    c['mock'] = c['mock'][:i] + [fr] + c['mock'][i + 1:]
    return c


K_ABORT = 'C07/aborted-watch-leaves-ids'


def aborted_watch_case(case):
    """structural: an object that aborts a search is bound to a module-level name, and in some action an expression that
    mentions that name is followed by another watch / log field"""
    bad = [n for n, j in case.get('globals', []) if case['objs'][j]['t'] == 'aborting']
    for a in case['actions']:
        exprs = [e for _, e in watch_exprs(a)]
        if any(b in e for b in bad for e in exprs[:-1]):
            return True
    return False


def gen_aborted(rng):
    """a watch / log field whose collection ABORTS part-way (its value reaches an object on which an unguarded probe raises),
    followed by watches that reach objects the aborted one had already given ids to (recorded finding K_ABORT)."""
    c = gen_case(rng, nobj=rng.choice([3, 6, 10]), watches=False, stream='aborted-watch',
                 frame_type=rng.choice(['no_frame', 'single_frame', 'single_frame']))
    specs = c['objs']
    specs.append({'t': 'str', 'v': 'shared value'})
    specs.append({'t': 'list', 'e': [len(specs) - 1, 0]})
    sh = len(specs) - rng.choice([1, 2])
    specs.append({'t': 'aborting', 'k': rng.choice(['str_stops', 'str_stops', 'meta_name'])})
    c['globals'] = [['SH', sh], ['BAD', len(specs) - 1]]
    first = rng.choice(['[SH, BAD]', '[SH, BAD]', '(SH, [BAD])', '{"a": SH, "b": BAD}', '[BAD, SH]', '[[SH], BAD, 1000]'])
    later = rng.sample(['SH', '[SH]', '(SH, SH)', '"fresh" + "text"', 'SH'], rng.randint(1, 3))
    if rng.random() < 0.25 and not any(ch in first + ''.join(later[:1]) for ch in '{}"'):
        c['actions'][0]['log'] = 'first={%s} then={%s}' % (first, later[0])
        c['actions'][0]['watches'] = later[1:]
    else:
        c['actions'][0]['watches'] = [first] + later
    return c


def gen_base_exc(rng):
    """a value whose __str__ raises a BaseException that is not an Exception (KeyboardInterrupt), together with a string limit
    smaller than any type-and-identity placeholder (4 / 8 / 12): as a local (also inside a list local) or reachable through a
    watch only.  On the unchanged code the search that meets it is left by the exception (no snapshot, or an error watch):
    outside the claimed domain of totality (C06) — what IS delivered is judged: every delivered value obeys the limit and the flag."""
    c = gen_case(rng, nobj=rng.choice([3, 6, 10]), watches=False, stream='base-exc',
                 lim={'vars': None, 'str': rng.choice([4, 8, 12]), 'coll': None, 'depth': None})
    specs = c['objs']
    specs.append({'t': 'outside', 'k': 'str_base_exception'})
    bad = len(specs) - 1
    k = rng.random()
    if k < 0.35:
        c['locals'] = c['locals'] + [['stopper', bad]]
    elif k < 0.6:
        specs.append({'t': 'list', 'e': [0, bad]})
        c['locals'] = c['locals'] + [['holder', len(specs) - 1]]
    else:
        c['globals'] = [['STOPPER', bad]]
        c['actions'][0]['watches'] = rng.choice([['STOPPER'], ['[1000, STOPPER]', '"after"'], ['(STOPPER,)']])
    rng.shuffle(c['locals'])
    return c


K_LOGFMT = 'C16/snapshot-log-format-error-loses-snapshot'


def log_format_fails(case):
    """structural: the log message of a snapshot action has a field with a NUMERIC format spec; values are interpolated as text,
    so formatting raises ValueError out of process_log"""
    import string
    for a in case['actions']:
        if a.get('log') is not None:
            for _, field, spec, _ in string.Formatter().parse(a['log']):
                if field is not None and spec and spec[-1] in 'dfeEgGxXobn%':
                    return True
    return False


def gen_log_format(rng):
    """a snapshot action whose log message CANNOT be formatted (numeric format spec on a value interpolated as text) over an
    expression whose value is not among the frame's variables, deferred (line_capture / method_capture), the line returning /
    raising that same object: the LOG field was evaluated and numbered before the formatting failed."""
    cap = rng.choice(['return', 'return', 'exception'])
    c = gen_case(rng, nobj=rng.choice([3, 6, 10]), watches=rng.random() < 0.3, capture=cap, stream='log-format',
                 frame_type=rng.choice(['single_frame', 'single_frame', 'no_frame']),
                 lim={'vars': None, 'str': rng.choice([None, 8]), 'coll': None, 'depth': rng.choice([None, 3])})
    specs = c['objs']
    specs.append({'t': 'str', 'v': '0.25'})
    specs.append(rng.choice([{'t': 'list', 'e': [len(specs) - 1, 0]},
                             {'t': 'dict', 'k': [[{'s': 'eur'}, len(specs) - 1], [{'s': 'usd'}, 0]]}]))
    c['globals'] = [['RATES', len(specs) - 1]]
    names = [nm for nm, _ in c['locals'] if nm.isidentifier() and nm.isascii()]
    good = ('%s={%s} ' % (names[0], names[0])) if names and rng.random() < 0.5 else ''
    c['actions'][0]['log'] = good + rng.choice(['rate={RATES:.4f}', 'n={RATES:d}', 'r={RATES:08.3f} done'])
    c['capture_expr'] = rng.choice(['RATES', 'RATES', '[RATES, 1000]']) if cap == 'return' else 'ValueError(RATES)'
    c['stage'] = rng.choice(['line_capture', 'method_capture'])
    return c


def gen_huge(rng):
    """one HUGE mapping (10 001 … 30 000 entries — mappings are not capped by the collection limit) reachable from the frame
    while other values still wait in the search: as an early local, or as an attribute of the first local, followed by
    locals that have children of their own.  All its entries are bound to one object, so the variable budget is not what
    ends the search.  Every later local must still be on the frame, with its children."""
    c = gen_case(rng, nobj=rng.choice([6, 10]), watches=False, stream='huge', small=False,
                 lim={'vars': rng.choice([None, None, 40000]), 'str': None, 'coll': None, 'depth': None})
    specs = c['objs']
    n = rng.choice([10001, 10001, 10050, 12000, 15000, 30000])
    specs.append({'t': 'int', 'v': 77777})
    one = len(specs) - 1
    specs.append({'t': 'dict', 'k': [[{'s': 'first'}, one]], 'big': {'n': n, 'v': one}})
    big = len(specs) - 1
    # later locals with children of their own
    specs.append({'t': 'list', 'e': [one, one, one]})
    specs.append({'t': 'dict', 'k': [[{'s': 'x'}, one], [{'s': 'y'}, len(specs) - 1]]})
    tail = [['after_list', len(specs) - 2], ['after_dict', len(specs) - 1], ['after_int', one]]
    locs = [l for l in c['locals'] if l[0] not in ('self', 'cls')][:3]
    if rng.random() < 0.5:
        head = [['cache', big]]
        c['huge'] = 'local'
    else:
        specs.append({'t': 'obj', 'a': [['cache', big], ['size', one]]})
        head = [['holder', len(specs) - 1]]
        c['huge'] = 'attribute'
    k = rng.randint(0, min(1, len(locs)))
    c['locals'] = locs[:k] + head + locs[k:] + tail
    return c


K_STALE = 'C15/stale-capture-of-recorded-object'


def gen_stale(rng):
    """a deferred snapshot whose host CHANGES a recorded local between the tracepoint's line and the return event and returns
    that same object: the captured value is answered by the identity cache with the entry made at the line (recorded finding
    K_STALE).  The model runs the two phases on two heaps."""
    c = gen_case(rng, nobj=rng.choice([3, 6, 10]), capture='return', watches=rng.random() < 0.3, stream='stale-capture',
                 lim={'vars': None, 'str': rng.choice([None, 8]), 'coll': rng.choice([None, 3]), 'depth': rng.choice([None, 3])})
    c['objs'].append({'t': 'list', 'e': [0] * rng.randint(0, 2)})
    c['locals'] = [l for l in c['locals'] if l[0] != 'acc'] + [['acc', len(c['objs']) - 1]]
    rng.shuffle(c['locals'])
    c['mutate'] = 'acc'
    c['capture_expr'] = 'fill(acc)'
    c['stage'] = rng.choice(['line_capture', 'method_capture'])
    return c


def gen_deferred(rng):
    """deferred snapshots (stage line_capture / method_capture): the frame (and the watches) already used most or all of the
    variable budget when the tracepoint line was reached; the snapshot is completed LATER, by the callback at the return /
    exception event of that line, with a large returned / raised value (a wide dict — dicts are not capped by the collection
    limit —, nested lists, a long string, a deep chain, or one of the locals again).  Bounds are judged over the WHOLE pushed
    snapshot: frame + watches + captured value share one budget and one set of limits."""
    vars_ = rng.choice([3, 10, 25, 30, 30])
    lim = {'vars': vars_, 'str': rng.choice([8, 64, None]), 'coll': rng.choice([3, 5, None]), 'depth': rng.choice([3, 4, None])}
    cap = rng.choice(['return', 'return', 'exception'])
    nobj = rng.choice([16, 25, 40, 70]) if vars_ > 3 else rng.choice([6, 10, 16])
    c = gen_case(rng, lim=lim, nobj=nobj, capture=cap, watches=rng.random() < 0.4, stream='deferred')
    c['stage'] = rng.choice(['line_capture', 'line_capture', 'method_capture'])
    names = [nm for nm, _ in c['locals']]
    r = rng.random()
    if cap == 'return':
        if r < 0.75 or not names:
            c['capture_helper'], c['capture_expr'] = rng.choice(BIG_RETURNS), 'big()'
        else:
            c['capture_expr'] = rng.choice(['[%s, %s]' % (names[0], names[-1]), names[0],
                                            '{"again": %s, "new": list(range(8000, 8040))}' % names[-1]])
    elif r < 0.8 or not names:
        c['capture_helper'], c['capture_expr'] = rng.choice(BIG_RAISES), 'big()'
    else:
        c['capture_expr'] = 'ValueError(%s, list(range(9000, 9040)))' % names[0]
    return c


def gen_clock(rng, nobj=None):
    """the time-budget stream: a MockFrame chain of 1-5 frames, frame type mostly all_frame, 1-2 actions with budgets from
    {default, 0, 1, 50, 100, 250} ms, and a clock script of readings around the boundary (budget -1 ns / exactly / +1 ns / +1 ms,
    far beyond, before the time stamp, huge), monotone half of the time — otherwise in any order (a clock that goes back)."""
    nfr = rng.choice([1, 2, 3, 3, 4, 5])
    ft = rng.choice(['all_frame'] * 6 + ['single_frame', 'no_frame'])
    c = gen_case(rng, nobj=nobj or rng.choice([6, 10, 16, 25]), mock_frames=nfr, frame_type=ft, stream='clock',
                 nactions=rng.choice([1, 1, 1, 2]))
    for a in c['actions']:
        a['max_ms'] = rng.choice([None, None, 0, 1, 50, 100, 250])
    n = rng.randint(1, nfr * len(c['actions']) + 1)
    reads = []
    for _ in range(n):
        b = max_ms_of(rng.choice(c['actions'])) * MS
        reads.append(rng.choice([0, 1, b - 1, b, b, b + 1, b + 1, b + MS, 10 ** 12, -5, b // 2, 2 ** 45]))
    if rng.random() < 0.5:
        reads.sort()
    if rng.random() < 0.3:
        reads = [min(x, max_ms_of(c['actions'][0]) * MS) for x in reads[:-1]] + [reads[-1]]      # spent late, or never
    c['clock'] = {'reads': reads}
    return c


def clock_label(case, obs):
    """how the time budget cut the stack of the first action: all selected frames collected / some / none"""
    plan, looks = time_plan(case, obs.get('due', [True] * len(case['actions'])), len(case.get('mock') or [0]))
    sel = [selects(frame_type_of(case, case['actions'][0]), i) for i in range(len(case.get('mock') or [0]))]
    row = plan.get(0, [])
    nsel, ncol = sum(sel), sum(row)
    return 'none-selected' if nsel == 0 else 'all' if ncol == nsel else 'none' if ncol == 0 else 'cut'


# ------------------------------------------------------------------------------------- oracles (the statements)
def expands_unknown(o):
    """an object of a kind the reference does not enumerate children for, but which may have some"""
    if Ref.kind(o) != 'other':
        return False
    try:
        if type(o).__name__ in LIST_NAMES:
            return True
        if isinstance(o, Exception):
            return True
        return hasattr(o, '__dict__') and len(o.__dict__) > 0
    except Exception:
        return True


def snap_vids(s):
    vids = set()
    for f in s['frames']:
        vids.update(v[0] for v in f)
    for e in s['vars']:
        vids.add(e['vid'])
        vids.update(c[0] for c in e['children'])
    for w in s['watches']:
        if w['result'] is not None:
            vids.add(w['result'][0])
    return {int(v) for v in vids if v is not None}


def judge_bounds(case, obs, live, ai, s):
    """C05: the four bounds, exact truncation, breadth-first spending of the budget, no early stop."""
    v = []
    lim = limits_of(case['actions'][ai]['limits'])
    ref = Ref(lim)
    keep = live['keep']
    table = {int(e['vid']): e for e in s['vars']}
    collected = plan_of(case, obs, live)[0].get(ai, [False])[0]
    vids = snap_vids(s)
    n_alloc = max(vids | ({1} if collected and (s['frames'] and (s['frames'][0] or lim['vars'] >= 0)) else set()),
                  default=0)
    if len(table) > lim['vars'] + 1 or n_alloc > lim['vars'] + 1:
        v.append(f'{len(table)} variables (highest id {n_alloc}) with MAX_VARIABLES={lim["vars"]}')
    for vid, e in table.items():
        val = e['value']
        if len(val) > lim['str']:
            v.append(f'variable {vid}: value of {len(val)} characters with MAX_STRING_LENGTH={lim["str"]}')
        o = keep[e['obj']] if e['obj'] is not None else None
        if o is not None:
            full = ref.render(o)
            if val != full[:lim['str']] or bool(e['truncated']) != (len(full) > lim['str']):
                v.append(f'variable {vid} ({e["type"]}): value {val[:40]!r} truncated={e["truncated"]} but the full '
                         f'text has {len(full)} characters (limit {lim["str"]}): expected {full[:lim["str"]][:40]!r} '
                         f'truncated={len(full) > lim["str"]}')
            if type(o) in LIST_TYPES or (Ref.kind(o) == 'exc'):
                if len(e['children']) > lim['coll']:
                    v.append(f'variable {vid} ({e["type"]}): {len(e["children"])} children with '
                             f'MAX_COLLECTION_SIZE={lim["coll"]}')
        else:
            if e['truncated'] and len(val) != lim['str']:
                v.append(f'variable {vid}: flagged truncated but has {len(val)} characters (limit {lim["str"]})')
            if e['type'] in LIST_NAMES and len(e['children']) > lim['coll']:
                v.append(f'variable {vid} ({e["type"]}): {len(e["children"])} children with '
                         f'MAX_COLLECTION_SIZE={lim["coll"]}')
    # depth: breadth-first distance in the snapshot's own graph (frame variables are level 1, watch results level 0)
    dist = {}
    frontier = []
    for f in s['frames']:
        for r in f:
            if r[0] is not None and int(r[0]) not in dist:
                dist[int(r[0])] = 1
                frontier.append(int(r[0]))
    for w in s['watches']:
        if w['result'] is not None and w['result'][0] is not None:
            k = int(w['result'][0])
            if dist.get(k, 99) > 0:
                dist[k] = 0
                frontier.append(k)
    frontier.sort(key=lambda k: dist[k])
    i = 0
    while i < len(frontier):
        k = frontier[i]
        i += 1
        for c in table.get(k, {'children': []})['children']:
            ck = int(c[0])
            if ck not in dist or dist[ck] > dist[k] + 1:
                dist[ck] = dist[k] + 1
                frontier.append(ck)
    cap = max(lim['depth'] - 1, 0)
    deep = [k for k in table if dist.get(k, 0) > cap]
    if deep:
        v.append(f'variable {deep[0]} is nested {dist[deep[0]]} levels deep with MAX_VAR_DEPTH={lim["depth"]}')
    # the budget: spent breadth-first, and fully spent before anything within the bounds is dropped
    if collected and live['frames_locals'] and not case.get('mock'):
        root = live['frames_locals'][0]
        lv, objs = ref.levels(root)
        if not any(expands_unknown(o) for o in objs.values()):
            rec = {id(keep[e['obj']]) for e in table.values() if e['obj'] is not None}
            missing = [k for k in lv if k not in rec and k != id(root)]
            if missing:
                m = min(lv[k] for k in missing)
                x = objs[[k for k in missing if lv[k] == m][0]]
                deeper = [k for k in rec if k in lv and lv[k] > m]
                if deeper:
                    v.append(f'budget not spent breadth-first: a value of type {type(x).__name__} at depth {m} is missing '
                             f'while a value at depth {lv[deeper[0]]} is recorded')
                if n_alloc < lim['vars'] + 1:
                    v.append(f'a value of type {type(x).__name__} at depth {m} (within MAX_VAR_DEPTH={lim["depth"]} and '
                             f'MAX_COLLECTION_SIZE={lim["coll"]}) is missing although only {n_alloc} of '
                             f'{lim["vars"] + 1} variable ids were used')
    return v


_NO_TARGET = object()
D31_TAG = ' [made for the locals dict of a collected frame: C07/locals-dict-self-reference]'


def judge_identity(case, obs, live, ai, s):
    """C07: closure, one object one id, references denote the right object, temporaries do not share ids."""
    v = []
    lim = limits_of(case['actions'][ai]['limits'])
    ref = Ref(lim)
    keep, index_of = live['keep'], live['index_of']
    table = {}
    for e in s['vars']:
        if int(e['vid']) in table:
            v.append(f'two table entries under id {e["vid"]}')
        table[int(e['vid'])] = e

    def resolves(r, where, target=_NO_TARGET):
        if r[0] is None:
            v.append(f'{where}: reference {r[1]!r} carries no id')
            return None
        if int(r[0]) not in table:
            # the one way a reference can dangle in the model (C07.c07_dangling_only_locals): it was made for the locals
            # dict of a frame whose variables were collected
            tag = D31_TAG if any(target is d for d in live['frames_locals']) else ''
            v.append(f'{where}: reference {r[1]!r} -> id {r[0]} has no entry in the variable table' + tag)
            return None
        return table[int(r[0])]
    seen_obj = {}
    for vid, e in table.items():
        if e['obj'] is not None:
            if e['obj'] in seen_obj:
                v.append(f'one object recorded twice: ids {seen_obj[e["obj"]]} and {vid}')
            seen_obj[e['obj']] = vid

    def check_kids(where, children, kids, targets=None):
        """children must be, in order, references to the first kids (by name and by object identity)"""
        tg = kids if kids is not None else targets
        for i, c in enumerate(children):
            e = resolves(c, where, tg[i][2] if tg is not None and i < len(tg) else _NO_TARGET)
            if kids is None or e is None:
                continue
            if i >= len(kids):
                v.append(f'{where}: child {c[1]!r} beyond the {len(kids)} children of the value')
                continue
            name, orig, target = kids[i]
            if c[1] != name or c[3] != orig:
                v.append(f'{where}: child {i} is named {c[1]!r}/{c[3]!r}, expected {name!r}/{orig!r}')
            ti = index_of(target)
            if ti in live['held'] and e['obj'] != ti:
                v.append(f'{where}: child {c[1]!r} -> id {c[0]} is the entry of another object')
    # frames
    for fi, f in enumerate(s['frames']):
        if fi < len(live['frames_locals']):
            d = live['frames_locals'][fi]
            check_kids(f'frame {fi}', f, [(k, None, d[k]) for k in list(d.keys())])
        else:
            for r in f:
                resolves(r, f'frame {fi}')
    vals = live['watch_vals'][ai]
    # values the watch expressions created (not alive before the run): which object each child reference was made for is
    # known from the live value (only used to say WHAT a dangling reference was made for)
    made = {}
    for w, (kind, expr, val) in zip(s['watches'], vals):
        if w['result'] is not None and w['result'][0] is not None and index_of(val) not in live['held']:
            made[int(w['result'][0])] = val
    for vid, e in table.items():
        o = keep[e['obj']] if e['obj'] is not None else None
        check_kids(f'variable {vid}', e['children'], ref.kids(o) if o is not None else None,
                   ref.kids(made[vid]) if o is None and vid in made else None)
    # watches
    fresh = {}
    for w, (kind, expr, val) in zip(s['watches'], vals):
        if w['result'] is None:
            continue
        e = resolves(w['result'], f'watch {expr!r}', val)
        if e is None:
            continue
        vi = index_of(val)
        if vi in live['held']:
            if e['obj'] != vi:
                v.append(f'watch {expr!r} -> id {w["result"][0]} is the entry of another object')
        else:
            # a value created by the expression: a new object, never the same object as anything else
            k = int(w['result'][0])
            if k in fresh and fresh[k][1] is not val:
                v.append(f'watches {fresh[k][0]!r} and {expr!r} evaluate to different objects but share id {k}')
            fresh[k] = (expr, val)
            if e['obj'] is not None:
                v.append(f'watch {expr!r} creates a new object but got id {k} of a variable of the frame')
            if e['type'] != type(val).__name__ or e['value'] != ref.render(val)[:lim['str']]:
                v.append(f'watch {expr!r} -> id {k} describes {e["type"]} {e["value"][:30]!r}, the value is '
                         f'{type(val).__name__} {ref.render(val)[:30]!r}')
            ks = ref.kids(val)
            if ks is not None and lim['depth'] > 1:
                got = [(c[1], table[int(c[0])]['value'] if c[0] is not None and int(c[0]) in table else None)
                       for c in e['children']]
                want = [(n, ref.render(t)[:lim['str']]) for n, _, t in ks][:len(got)]
                for i_, c in enumerate(e['children'][:len(want)]):
                    if c[0] is None or int(c[0]) not in table:
                        got[i_] = want[i_]        # a child without entry: reported above (check_kids -> resolves), once
                if got != want:
                    v.append(f'watch {expr!r} -> id {k}: children {got[:4]} do not describe the value {want[:4]}')
                else:
                    # and below: what is recorded under a value the expression created must describe that value
                    bad = []

                    def below(entry, value, depth, path):
                        kids = ref.kids(value)
                        if kids is None or depth + 1 >= lim['depth'] or bad or depth > 3:
                            return
                        for c, (n, _, t) in zip(entry['children'], kids):
                            ce = table.get(int(c[0])) if c[0] is not None else None
                            if ce is None:
                                continue
                            if c[1] != n or ce['type'] != type(t).__name__ or ce['value'] != ref.render(t)[:lim['str']]:
                                bad.append(f'{path}[{n}] is recorded as {c[1]!r}: {ce["type"]} {ce["value"][:30]!r}, the value '
                                           f'there is {type(t).__name__} {ref.render(t)[:30]!r}')
                                return
                            below(ce, t, depth + 1, f'{path}[{n}]')
                    below(e, val, 0, expr)
                    if bad:
                        v.append(f'watch {expr!r} -> id {k}: ' + bad[0])
    return v


def judge_frames(case, obs, live, i, s):
    """which frames of action i's snapshot carry variables: decided by the tracepoint's OWN frame type and by the time budget
    (`time_plan`); every frame of the stack is listed; a frame that carries variables carries its locals, all of them unless
    the variable budget ran out."""
    v = []
    a = case['actions'][i]
    lim = limits_of(a['limits'])
    ft = frame_type_of(case, a)
    n_alloc = max(snap_vids(s) | {1}, default=1)
    plan = plan_of(case, obs, live)[0].get(i, [])
    if case.get('mock') and len(s['frames']) != len(live['frames_locals']):
        v.append(f'tp{i}: {len(s["frames"])} frames in the snapshot, the stack has {len(live["frames_locals"])}')
    for fi in range(min(len(live['frames_locals']), len(s['frames']))):
        want = plan[fi] if fi < len(plan) else False
        got_names = [r[1] for r in s['frames'][fi]]
        if not want:
            if got_names and selects(ft, fi):
                v.append(f'tp{i}: frame {fi} carries variables {got_names[:5]} although it was reached after the time '
                         f'budget of {max_ms_of(a)} ms was spent (clock script {clock_of(case)})')
            elif got_names:
                v.append(f'tp{i}: frame {fi} carries variables {got_names[:5]} although frame_type is {ft}')
            continue
        if lim['depth'] < 2:
            continue
        names = list(live['frames_locals'][fi].keys())
        if got_names != names[:len(got_names)]:
            v.append(f'tp{i}: variables of frame {fi} {got_names[:8]} are not its locals {names[:8]}')
        elif (fi == 0 or case.get('clock')) and len(got_names) < len(names) \
                and n_alloc + sum(plan[1:fi + 1]) < lim['vars'] + 1:
            # a frame reached within the time budget is collected WHOLE (the clock does not cut a frame half-way); the
            # locals dict of every collected frame used up one id that is not visible in the snapshot
            v.append(f'tp{i}: local {names[len(got_names)]!r} of frame {fi} is missing ({len(got_names)} of '
                     f'{len(names)} locals, {n_alloc} of {lim["vars"] + 1} variable ids used, frame_type {ft})')
    return v


def judge_total(case, obs, live):
    """C06: a snapshot per due tracepoint, variables intact (offenders as placeholders), snapshots independent."""
    v = []
    if 'raised' in obs:
        v.append('trace_call raised into the host: ' + obs['raised'])
    if obs.get('trace_kept') is False:
        v.append('the trace function was removed')
    if 'host_exc' in obs:
        v.append('the host function raised: ' + obs['host_exc'])
    snaps = {}
    for s in obs.get('snapshots', []):
        snaps.setdefault(s['tp'], []).append(s)
    for i, a in enumerate(case['actions']):
        got = snaps.get('tp%d' % i, [])
        if not obs.get('due', [True] * len(case['actions']))[i]:
            if got:
                v.append(f'tracepoint tp{i}: a snapshot although its condition {a.get("condition")!r} does not hold')
            continue
        if len(got) != 1:
            v.append(f'tracepoint tp{i}: {len(got)} snapshots handed to the push service, 1 is due')
            continue
        s = got[0]
        lim = limits_of(a['limits'])
        ref = Ref(lim)
        keep = live['keep']
        table = {int(e['vid']): e for e in s['vars']}
        ft = frame_type_of(case, a)
        n_alloc = max(snap_vids(s) | {1}, default=1)
        # which frames carry variables is decided by the tracepoint's OWN frame_type
        v += judge_frames(case, obs, live, i, s)
        for vid, e in table.items():
            o = keep[e['obj']] if e['obj'] is not None else None
            if o is None:
                continue
            full = ref.render(o)
            if e['type'] != type(o).__name__ or e['value'] != full[:lim['str']]:
                v.append(f'tp{i} variable {vid}: recorded as {e["type"]} {e["value"][:40]!r}, the value is '
                         f'{type(o).__name__} {full[:40]!r}')
        if 'solo' in obs:
            alone = obs['solo'][i]
            if len(alone) != 1:
                v.append(f'tp{i}: alone it produces {len(alone)} snapshots')
            else:
                def strip(x):
                    return {'frames': x['frames'], 'vars': [{k: e[k] for k in e if k != 'obj'} for e in x['vars']],
                            'watches': x['watches']}
                if strip(alone[0]) != strip(s):
                    v.append(f'tp{i}: its snapshot differs from the one it produces alone: '
                             f'{core.canon(strip(s))[:300]} vs alone {core.canon(strip(alone[0]))[:300]}')
    if not case.get('recursion'):
        for s in obs.get('snapshots', []):
            for fi in range(min(len(live['frames_locals']), len(s['frames']))):
                me = live['frames_locals'][fi].get('self')
                want = None
                if me is not None:
                    try:
                        want = me.__class__.__name__
                    except Exception:
                        want = None
                if s['frame_classes'][fi] != want:
                    v.append(f'{s["tp"]}: frame {fi} reports class {s["frame_classes"][fi]!r}; its `self` says {want!r}')
    if case.get('recursion'):
        for s in obs.get('snapshots', []):
            if s['frame_funcs'][:3] != ['walk', 'walk', 'walk'] or s['frame_classes'][:4] != ['Alpha', 'Beta', 'Alpha', None]:
                v.append(f'{s["tp"]}: frames {list(zip(s["frame_funcs"][:4], s["frame_classes"][:4]))} — the stack is walk() on an '
                         'Alpha, called from walk() on a Beta, called from walk() on an Alpha, called from host()')
    if obs.get('shared_tables'):
        v.append('two snapshots of one trace event share one variable table object')
    if obs.get('shared_frames'):
        v.append('two snapshots of one trace event share one frame variable list')
    return v


def has_hostile(case):
    return any(s['t'] == 'hostile' for s in case['objs'])


def has_unmodelled(case):
    return any(s['t'] == 'unmodelled' for s in case['objs'])


def has_outside(case):
    return any(s['t'] == 'outside' for s in case['objs'])


def refers_to_locals(case):
    return bool(case.get('locals_self')) or any('locals()' in e for a in case['actions'] for _, e in watch_exprs(a)) or \
        any(isinstance(j, dict) for fr in (case.get('mock') or []) for _, j in fr)


def snapshots_by_action(case, obs):
    out = []
    snaps = {}
    for s in obs.get('snapshots', []):
        snaps.setdefault(s['tp'], s)
    for i in range(len(case['actions'])):
        if 'tp%d' % i in snaps:
            out.append((i, snaps['tp%d' % i]))
    return out


def shrink_case(case):
    """smaller candidates: fewer actions, fewer watches, fewer locals, fewer elements."""
    if len(case['actions']) > 1:
        for i in range(len(case['actions'])):
            c = dict(case)
            c['actions'] = case['actions'][:i] + case['actions'][i + 1:]
            yield c
    for ai, a in enumerate(case['actions']):
        for key in ('watches', 'log'):
            if a.get(key):
                c = dict(case)
                a2 = dict(a)
                if key == 'watches' and len(a[key]) > 1:
                    for j in range(len(a[key])):
                        a3 = dict(a)
                        a3[key] = a[key][:j] + a[key][j + 1:]
                        c2 = dict(case)
                        c2['actions'] = case['actions'][:ai] + [a3] + case['actions'][ai + 1:]
                        yield c2
                a2.pop(key)
                c['actions'] = case['actions'][:ai] + [a2] + case['actions'][ai + 1:]
                yield c
    if len(case['locals']) > 1 and not case.get('mock'):
        for i in range(len(case['locals'])):
            name = case['locals'][i][0]
            if case.get('capture_expr') == name or any(name in e for a in case['actions'] for _, e in watch_exprs(a)):
                continue
            c = dict(case)
            c['locals'] = case['locals'][:i] + case['locals'][i + 1:]
            yield c
    for i, s in enumerate(case['objs']):
        for key in ('e', 'k', 'a'):
            if isinstance(s.get(key), list) and len(s[key]) > 1:
                for cut in (s[key][:len(s[key]) // 2], s[key][:-1]):
                    c = dict(case)
                    s2 = dict(s)
                    s2[key] = cut
                    c['objs'] = case['objs'][:i] + [s2] + case['objs'][i + 1:]
                    yield c
