"""C02 — snapshot fidelity: a snapshot truthfully describes the paused frame.

Every case is a generated host program (two modules written to a temp dir, imported, removed afterwards) plus a
tracepoint configuration.  It is run twice on fresh threads (`run_on_thread`, the same shape as `rig.run_traced`):

  run A  under the REAL agent (`rig.Rig`: real ConfigService + TriggerHandler.trace_call, recording push service);
  run B  under an INDEPENDENT recorder (own trace function, own location test, own object walker that uses `is`
         on live objects it keeps alive) — no agent code involved.

The oracle compares each snapshot of run A with the recording of the same event of run B, field by field, against a
reference written from the property statement.  The Lean model gets run B's stack/heap description and must
produce run A's snapshot (correspondence).

What is relied on between the two runs (same process, same program, same inputs): same control flow; equal hashes
of equal ints/strs (so `tuple(a_set)` of ints/strs has the same order in both runs — set children are nevertheless
matched as multisets of (type, text)); object addresses differ, so `0x…` and `@<id>` inside texts are masked on both
sides before comparing.
"""
import hashlib
import importlib
import os
import re
import shutil
import sys
import tempfile
import threading

import core
import rig
from props import c02_gen

ID = 'C02'
EXTRACT = ['collector', 'frames', 'collector_time']
LEAN_TARGETS = ['DeepModel.Props.C02']
AUDIT = 'DeepModel/Audit/C02.lean'
DRIVER = 'DeepModel/Driver/C02.lean'
BUDGET = {'quick': 400, 'thorough': 4000}
TIME = {'quick': 70, 'thorough': 800}
RULE = ('generated host programs (two modules, app/ and lib/): call chain 1-6 levels of kinds {function, default args, '
        '*args/**kw, method (on plain / inheriting / falsy self), classmethod, staticmethod, closure, method of a '
        'nested class, recursive, library function calling back through a lambda}, optionally run twice x 0-6 locals '
        'per level of kinds {scalars incl. unicode / 1024-1025 char strings, nested list/tuple/set/dict beyond the '
        'depth and size limits, non-str keys, user objects with private / protected / inherited / slotted attributes, '
        'nested and local classes, list/dict subclasses, exceptions with args, iterators/generators, functions / '
        'classes / modules, shared references, self and mutual cycles, del-ed, shadowing and underscore-named locals} x '
        'tracepoint {line | function entry} at a generated position, optionally a twin tracepoint at the same '
        'location x frame_type {single_frame, all_frame, no_frame, unknown text, empty, absent} x 0-6 watches over '
        'locals / globals / caller-only names / failing expressions / pairs of fresh temporaries x fire_count {1, 2, '
        'every hit} x limits {default, small via action config}, plus a stream of two tracepoints with different limits '
        'hit alternately on one thread or by two threads with a forced schedule (each snapshot judged by its own '
        'limits), values whose == raises / is not a bool / is always or never true x APP_ROOT / IN_APP_INCLUDE / IN_APP_EXCLUDE given in '
        'code or through DEEP_IN_APP_* environment variables.  Distinct = distinct canonical JSON.  Non-trivial = a '
        'snapshot with >= 2 program frames and >= 1 collected variable that has children.')
TRUSTED = ['CPython frame objects (f_back, f_locals, f_code, f_lineno) and sys.settrace event delivery are read, not '
           'modelled; run A (agent) and run B (recorder) of one program take the same path',
           'eval() of a watch expression: the model receives the object the recorder computed per frame as an oracle',
           'masking of 0x<address> and @<id> inside value texts before comparison (addresses differ between the runs)',
           'frames below the program (run_on_thread, threading.py) are compared by file/function/line/class/app flag '
           'and variable names; their object graphs are not recorded']
ASSUMPTIONS = ['watch expressions and __str__ of host objects are free of side effects',
               '"class of self" = the class the object reports (self.__class__.__name__, as isinstance sees it; equal to '
               'type(self).__name__ except for proxies / mocks with a spec, which the generator includes); the type of a '
               'collected VARIABLE is type(o).__name__ ("the object\'s real type name")',
               'no local refers to the frame\'s own locals() dict (known finding C07/locals-dict-self-reference)',
               'the time budget (MAX_TP_PROCESS_TIME) is not reached: the collector clock is scripted',
               'no log_msg on the snapshot tracepoint (log expressions are C16)',
               'tracepoint echo, main stream: the arguments compared are those the snapshot action keeps (frame_type, '
               'stack_type, fire_count, fire_period, log_msg, limits); the strict-echo stream (every 17th case) is '
               'judged by the full statement and is the known finding C02/echo-drops-condition '
               '(notes/probes/c02_observations.py; Lean: c02_echo_all_args_partial + c02_echo_drops_condition_witness)']

HOST_FRAME_TYPES = [None, 'single_frame', 'all_frame', 'no_frame', 'weird_type', '']
SNAP_KEYS = ['frame_type', 'stack_type', 'fire_count', 'fire_period', 'log_msg']
SNAP_DEFAULTS = {'frame_type': 'single_frame', 'stack_type': 'stack', 'fire_count': '1', 'fire_period': '1000'}
DEFAULT_LIMITS = {'MAX_VARIABLES': 1000, 'MAX_STRING_LENGTH': 1024, 'MAX_COLLECTION_SIZE': 10, 'MAX_VAR_DEPTH': 5}
MASK = re.compile(r'0x[0-9a-fA-F]*|@\d+')
STD = os.path.dirname(threading.__file__)
RIGDIR = os.path.dirname(os.path.abspath(__file__))


def mask(s):
    return MASK.sub('#', s) if isinstance(s, str) else s


# ======================================================================================= generation
def gen_watches(rng, prog, cand, source):
    names = c02_gen.local_names_before(source, cand['line'])
    callers = ['m_local', 'keep'] + ['p%d' % i for i in range(cand['level'])]
    pool = []
    for n in names:
        pool += [n, n, 'type(%s).__name__' % n, '[%s]' % n, 'str(%s)' % n]
    pool += ['G_INT', 'G_INT + 1', 'G_STR', 'G_LIST', 'shadow', 'len(G_LIST)', "G_STR + '!'", 'Plain(5)', '{"k": 1}',
             'undefined_name_xyz', '1 / 0', 'G_LIST[99]', 'None', "'lit'", '(1, 2)', 'B', 'math.pi']
    pool += callers
    k = rng.choice([0, 0, 1, 1, 2, 3, 4])
    out = []
    for _ in range(k):
        w = rng.choice(pool)
        if w not in out:
            out.append(w)
    if rng.random() < 0.1:
        # MANY fresh scalar temporaries (floats, strs, ints beyond the small-int cache) that nothing in the frame refers to:
        # each is garbage when the next is made, CPython reuses the address - every result must still be ITS value, and two
        # different values never share an id
        n = rng.randint(15, 40)
        forms = ['G_INT * 1000 + %d', 'float(G_INT) * 1.5 + %d', "G_STR + '-%d'", 'math.pi * %d', "str(%d) + G_STR",
                 'G_INT + 100000 + %d', 'float(%d) / 7.0']
        out += [rng.choice(forms) % (k + 2) for k in range(n)]
        out = [w for i, w in enumerate(out) if w not in out[:i]]
    if rng.random() < 0.3:
        # two fresh temporaries of one type in a row: the first is garbage when the second is made
        out += rng.choice([['{"k": 1}', '{"k": 2}'], ['[1, 2]', '[3, 4]'], ['Plain(5)', 'Plain(6)'],
                           ["G_STR + 'a'", "G_STR + 'b'"], ['(G_INT, 1)', '(G_INT, 2)'],
                           # equal but distinct temporaries, then a different one of the same size
                           ['[0] * 3', '[0, 0, 0]', 'list((0, 0, 0))', '[1] * 3', '[2, 2, 2]'],
                           ['{"k": [7]}', 'dict(k=[7])', '{"k": [8]}', '{"k": [9]}'],
                           # values whose == raises, is not a bool, is always / never true
                           ['EqRaises()', 'EqArray()', 'EqRaises()'], ['EqArray()', '[EqArray()]', 'EqArray().data'],
                           ['EqAlways()', 'NaNLike()', 'EqAlways()', "float('nan')", "float('nan')"],
                           ['G_LIST', 'EqAlways()', '[1, 2, 3]', 'NaNLike()', '[1, 2, 3] + []']])
        out = [w for i, w in enumerate(out) if w not in out[:i]]
    return out


def gen_app(rng):
    r = rng.random()
    app = {}
    if r < 0.25:
        app['APP_ROOT'] = '$HOST/app'
    elif r < 0.4:
        app['APP_ROOT'] = '$HOST'
    elif r < 0.5:
        app['APP_ROOT'] = '$HOST/app/'
    elif r < 0.6:
        app['APP_ROOT'] = '/nonexistent/root'
    elif r < 0.7:
        app['APP_ROOT'] = ''
    elif r < 0.8:
        app['APP_ROOT'] = '$HOST/lib'
    else:
        app['APP_ROOT'] = '$HOST/a'          # a prefix that is not a directory boundary
    if rng.random() < 0.5:
        app['IN_APP_INCLUDE'] = rng.choice([[], ['$HOST/lib'], ['$STD'], ['/zzz', '$HOST/lib', '$HOST'], ['$RIG'],
                                            ['$HOST/app', '$HOST/lib']])
    r = rng.random()
    if r < 0.55:
        app['IN_APP_EXCLUDE'] = rng.choice([[], ['$STD'], ['$HOST/lib'], ['$HOST/lib', '$STD'], ['$HOST'],
                                            ['/zzz', '/yyy', '$RIG'], ['$HOST/app', '$HOST/lib', '$STD']])
    elif r < 0.7:
        # given through the environment (DEEP_IN_APP_EXCLUDE), as a comma separated text
        app['ENV_IN_APP_EXCLUDE'] = rng.choice(['$HOST/lib', '$HOST/lib,$STD', '/zzz,/yyy,$HOST/app', '$STD'])
    if 'IN_APP_INCLUDE' not in app and rng.random() < 0.15:
        app['ENV_IN_APP_INCLUDE'] = rng.choice(['$HOST/lib', '$HOST/lib,$RIG', '/zzz'])
    return app


def gen_case(rng, force=None):
    force = force or {}
    prog = c02_gen.gen_program(rng, depth=force.get('depth'), nlocals=force.get('nlocals'))
    cand = rng.choice(prog['cands'])
    source = prog[cand['file']]
    tp = {'file': cand['file'], 'line': cand['line'], 'args': {}, 'watches': gen_watches(rng, prog, cand, source)}
    kind = force.get('kind') or rng.choice(['line'] * 5 + ['entry'])
    if kind == 'entry':
        tp['method'] = cand['func']
        tp['args']['method_name'] = cand['func']
        tp['watches'] = [w for w in tp['watches'] if not w.lstrip('_').startswith('x')]
    ft = force['frame_type'] if 'frame_type' in force else rng.choice(HOST_FRAME_TYPES + ['all_frame', 'single_frame'])
    if ft is not None:
        tp['args']['frame_type'] = ft
    r = rng.random()
    if r < 0.2:
        tp['args']['fire_count'] = '-1'
        tp['args']['fire_period'] = '0'
    elif r < 0.3:
        tp['args']['fire_count'] = '2'
        tp['args']['fire_period'] = '0'
    if rng.random() < 0.2:
        tp['args']['condition'] = rng.choice(['True', 'G_INT > 0', '1 == 1'])
    if rng.random() < 0.15:
        tp['args']['stack_type'] = rng.choice(['stack', 'no_stack'])
    if rng.random() < 0.2 or force.get('limits'):
        lim = {}
        if rng.random() < 0.6:
            lim['MAX_STRING_LENGTH'] = rng.choice([0, 3, 8, 20, 1023])
        if rng.random() < 0.6:
            lim['MAX_COLLECTION_SIZE'] = rng.choice([0, 1, 2, 3, 11])
        if rng.random() < 0.6:
            lim['MAX_VAR_DEPTH'] = rng.choice([0, 1, 2, 3, 4, 7])
        if rng.random() < 0.4:
            lim['MAX_VARIABLES'] = rng.choice([0, 1, 2, 5, 10, 30])
            if ft == 'all_frame':
                tp['watches'] = []        # with a cut budget the rig's own frames decide what is left for watches
        tp['limits'] = lim
    if rng.random() < 0.12:
        tp['twin'] = True             # a second tracepoint with the same configuration at the same location
    return {'kind': 'prog', 'a': prog['a'], 'b': prog['b'], 'tp': tp, 'app': gen_app(rng),
            'meta': {'kinds': prog['kinds'], 'level': cand['level'], 'text': cand['text']}}


DROPPED_ARGS = ('condition', 'method_name', 'stage', 'snapshot', 'span')
FINDING_ECHO = 'C02/echo-drops-condition'


def echo_instance(case):
    """structural predicate of known finding C02/echo-drops-condition: the tracepoint has an argument the snapshot
    action does not keep, or it is a function-entry tracepoint (whose configured line is not echoed)."""
    tp = case['tp']
    return bool(tp.get('method')) or any(k in tp['args'] for k in DROPPED_ARGS)


def gen_strict_echo(rng):
    """the known-finding stream: same programs, tracepoints with arguments the action drops; judged by the FULL
    statement (the echo is the tracepoint's own id, path, line, arguments, watches)."""
    r = rng.random()
    case = gen_case(rng, {'kind': 'entry' if r < 0.3 else 'line'})
    a = case['tp']['args']
    if r >= 0.3 or rng.random() < 0.5:
        a['condition'] = rng.choice(['True', 'G_INT > 0', '1 == 1'])
    if rng.random() < 0.3:
        a['stage'] = 'method_start' if case['tp'].get('method') else 'line_start'
    if rng.random() < 0.2:
        a['snapshot'] = 'collect'
    case['strict_echo'] = True
    return case


PAIR_BODY = '''
import threading
ARMED = [False]
collecting = threading.Event()
carry_on = threading.Event()


class Gate:
    """a value that (when armed by the harness) stops the thread that renders it as text, the first time"""
    def __init__(self):
        self.used = False

    def __str__(self):
        if ARMED[0] and not self.used:
            self.used = True
            collecting.set()
            carry_on.wait(30)
        self.used = True
        return 'Gate'


def worker():
    gate = Gate()
    data = list(range(@N1@))
    text = 'w' * @M1@
    nest = [[[[[1, 2]]]], 'x' * @M1@]
    return len(data)    #LW


def other():
    small = list(range(@N2@))
    words = 'o' * @M2@
    nest = {'k': [[[[3]]]], 'long': 'y' * @M2@}
    return len(small)    #LO


def main():
    worker()
    other()
    worker()
    return other()
'''


def gen_pair(rng):
    """two tracepoints with DIFFERENT limits, hit alternately on one thread, or by two threads with a forced
    schedule: the second thread runs through its tracepoint while the first is stopped in the middle of collecting its
    frame.  Every snapshot is judged against the limits of its own tracepoint."""
    def lim():
        out = {}
        if rng.random() < 0.7:
            out['MAX_COLLECTION_SIZE'] = rng.choice([1, 2, 3, 5, 12])
        if rng.random() < 0.6:
            out['MAX_STRING_LENGTH'] = rng.choice([4, 8, 20])
        if rng.random() < 0.5:
            out['MAX_VAR_DEPTH'] = rng.choice([2, 3, 4, 6])
        return out
    lw, lo = lim(), lim()
    while lw == lo:
        lo = lim()
    if rng.random() < 0.3:
        (lw if rng.random() < 0.5 else lo).clear()        # one of them with the default limits
        if lw == lo:
            lw['MAX_COLLECTION_SIZE'] = 2
    a = (c02_gen.PRELUDE_A + PAIR_BODY).replace('@N1@', str(rng.choice([4, 7, 11, 14]))) \
        .replace('@N2@', str(rng.choice([3, 6, 11, 13]))).replace('@M1@', str(rng.choice([6, 15, 40]))) \
        .replace('@M2@', str(rng.choice([5, 12, 30])))
    lines = a.split('\n')
    lw_line = next(i + 1 for i, l in enumerate(lines) if '#LW' in l)
    lo_line = next(i + 1 for i, l in enumerate(lines) if '#LO' in l)
    mode = rng.choice(['threads', 'threads', 'alternate'])
    every = {'fire_count': '-1', 'fire_period': '0'}

    def tp(tid, line, limits, watches):
        args = dict(every)
        ft = rng.choice([None, 'single_frame', 'all_frame'])
        if ft:
            args['frame_type'] = ft
        t = {'id': tid, 'file': 'a', 'line': line, 'args': args, 'watches': watches}
        if limits:
            t['limits'] = limits
        return t
    return {'kind': 'pair', 'mode': mode, 'a': a, 'b': c02_gen.PRELUDE_B, 'app': {'APP_ROOT': '$HOST/app'},
            'tps': [tp('tp-worker', lw_line, lw, rng.choice([[], ['data'], ['text + "!"', 'len(data)']])),
                    tp('tp-other', lo_line, lo, rng.choice([[], ['small'], ['words * 2', 'nest']]))],
            'meta': {'kinds': ['pair'], 'level': 0, 'text': mode}}


def gen(rng, tier):
    k = 0
    while True:
        k += 1
        if k % 19 == 0:
            yield gen_pair(rng)
        elif k % 17 == 0:
            yield gen_strict_echo(rng)
        elif k % 7 == 0:
            yield gen_case(rng, {'frame_type': 'all_frame'})
        elif k % 11 == 0:
            yield gen_case(rng, {'limits': True})
        elif k % 13 == 0:
            yield gen_case(rng, {'depth': 6, 'nlocals': 1})
        else:
            yield gen_case(rng)


# ======================================================================================= materialising programs
class Host:
    """the two modules of a case on disk; import names are unique per materialisation."""
    _n = [0]

    def __init__(self, case):
        Host._n[0] += 1
        h = hashlib.sha1((case['a'] + case['b']).encode()).hexdigest()[:8]
        self.dir = tempfile.mkdtemp(prefix='c02h_%d_' % os.getpid())
        self.an = 'c02a_%s' % h
        self.bn = 'c02b_%s' % h
        os.makedirs(os.path.join(self.dir, 'app'))
        os.makedirs(os.path.join(self.dir, 'lib'))
        self.apath = os.path.join(self.dir, 'app', self.an + '.py')
        self.bpath = os.path.join(self.dir, 'lib', self.bn + '.py')
        for p, src in ((self.apath, case['a']), (self.bpath, case['b'])):
            with open(p, 'w', encoding='utf-8') as f:
                f.write(src.replace('@@A@@', self.an).replace('@@B@@', self.bn))

    def subst(self, s):
        return s.replace('$HOST', self.dir).replace('$STD', STD).replace('$RIG', RIGDIR)

    def load(self):
        """fresh import of module A (and through it B)."""
        self.unload()
        sys.path.insert(0, os.path.join(self.dir, 'lib'))
        sys.path.insert(0, os.path.join(self.dir, 'app'))
        sys.dont_write_bytecode, old = True, sys.dont_write_bytecode
        try:
            importlib.invalidate_caches()
            return importlib.import_module(self.an)
        finally:
            sys.dont_write_bytecode = old

    def unload(self):
        for n in (self.an, self.bn):
            sys.modules.pop(n, None)
        for d in (os.path.join(self.dir, 'app'), os.path.join(self.dir, 'lib')):
            while d in sys.path:
                sys.path.remove(d)

    def close(self):
        self.unload()
        shutil.rmtree(self.dir, ignore_errors=True)

    def tp_path(self, tp):
        return os.path.basename(self.apath if tp['file'] == 'a' else self.bpath)

    def is_host_file(self, f):
        return f in (self.apath, self.bpath)


def limits_of(case):
    lim = dict(DEFAULT_LIMITS)
    lim.update(case['tp'].get('limits') or {})
    return lim


# ======================================================================================= running a program
def start_on_thread(trace, fn):
    """start fn() on a fresh thread with `trace` installed by sys.settrace — as rig.run_traced does, except that the
    frame of `body` holds the trace function only as a bound method (no attributes), so the frames below the program
    (this one and threading's) are small and the same in both runs whatever the agent has accumulated.
    Returns (thread, result dict filled in when the thread ends)."""
    res = {}

    def body(trace, fn):
        sys.settrace(trace)
        try:
            res['ret'] = fn()
        except BaseException as e:  # noqa: B902
            res['exc'] = e
        finally:
            res['trace_after'] = sys.gettrace()
            sys.settrace(None)
    t = threading.Thread(target=body, args=(trace, fn))
    t.start()
    return t, res


def run_on_thread(trace, fn):
    t, res = start_on_thread(trace, fn)
    t.join()
    return res


# ======================================================================================= run A: the real agent
def tp_ids(case):
    if case['tp'].get('id'):
        return [case['tp']['id']]
    return ['tp-c02', 'tp-c02-twin'] if case['tp'].get('twin') else ['tp-c02']


def build_triggers(case, host):
    from deep.api.tracepoint.trigger import build_trigger, LocationAction, Trigger, LineLocation, FunctionLocation, \
        Location
    tp = case['tp']
    path = host.tp_path(tp)
    out = []
    for tid in tp_ids(case):
        trig = build_trigger(tid, path, tp['line'], dict(tp['args']), list(tp['watches']), [])
        if tp.get('limits'):
            acts = []
            for a in trig.actions:
                c = dict(a.config)
                c.update(tp['limits'])
                acts.append(LocationAction(a.id, a.condition, c, a.action_type))
            if tp.get('method'):
                loc = FunctionLocation(path, tp['method'], Location.Position.START)
            else:
                loc = LineLocation(path, tp['line'], Location.Position.START)
            trig = Trigger(loc, acts)
        out.append(trig)
    return out


def run_agent(case, host):
    import deep.processor.frame_collector as fc
    custom = {k: (host.subst(v) if isinstance(v, str) else [host.subst(x) for x in v])
              for k, v in case['app'].items() if not k.startswith('ENV_')}
    saved = {}
    for k in ('IN_APP_EXCLUDE', 'IN_APP_INCLUDE'):
        saved[k] = os.environ.pop('DEEP_' + k, None)
        if 'ENV_' + k in case['app']:
            os.environ['DEEP_' + k] = host.subst(case['app']['ENV_' + k])
    r = rig.Rig(custom)
    orig = fc.time_ns
    fc.time_ns = lambda: r.clock            # scripted clock: the time budget is never reached
    try:
        r.install(build_triggers(case, host))
        mod = host.load()
        res = run_on_thread(r.handler.trace_call, mod.main)
        out = {'snaps': [rig.dump_snapshot(s) for s in r.push.pushed[:24]], 'count': len(r.push.pushed)}
        out['ret'] = mask(repr(res.get('ret')))[:200] if 'ret' in res else None
        out['exc'] = type(res['exc']).__name__ if 'exc' in res else None
        out['trace_kept'] = res.get('trace_after') is not None
        for s in out['snaps']:
            s.pop('attributes', None)
        return out
    finally:
        fc.time_ns = orig
        r.close()
        for k, v in saved.items():
            os.environ.pop('DEEP_' + k, None)
            if v is not None:
                os.environ['DEEP_' + k] = v


# ======================================================================================= run B: the recorder
def text_of(o):
    try:
        return str(o)
    except Exception:
        return None


def reported_class(o):
    """"class of self" per the statement: the name of the class the object reports (`o.__class__`, what isinstance and a
    reader of the method see; the same as type(o) except for proxies); None when it cannot be read."""
    try:
        return o.__class__.__name__
    except BaseException:      # noqa: B902
        return None


class Walker:
    """describes live objects as raw facts; identity by `is` on objects it keeps alive."""

    def __init__(self):
        self.keep = []
        self.by_id = {}
        self.facts = []

    def ref(self, o):
        i = self.by_id.get(id(o))
        if i is not None and self.keep[i] is o:
            return i, False
        self.keep.append(o)
        self.by_id[id(o)] = len(self.keep) - 1
        self.facts.append(None)
        return len(self.keep) - 1, True

    def key(self, k):
        if isinstance(k, str):
            return k, True
        t = text_of(k)
        return (t if t is not None else '%s@%d' % (type(k), id(k))), False

    def describe(self, i, expand):
        """facts of object i; returns the child objects that were referenced (for the walk)."""
        o = self.keep[i]
        t = type(o)
        kids = []
        f = {'ty': t.__name__, 'qual': t.__qualname__, 'tyrepr': str(t), 'dict': t is dict, 'str': text_of(o),
             'ph': '%s@%d' % (t, id(o)), 'mro': [c.__name__ for c in t.__mro__],
             'len': {'raises': 'n/a'}, 'items': [], 'seq': {'raises': 'n/a'}, 'isexc': False,
             'args': {'raises': 'n/a'}, 'hasdict': False, 'attrs': {'raises': 'n/a'}, 'cut': not expand}
        # the walker itself goes by type(o) (never by o.__class__, which a proxy may fake or refuse); the one fact
        # taken through isinstance is the one the statement's "exception" kind is about
        try:
            f['isexc'] = bool(isinstance(o, Exception))
        except Exception as e:
            f['isexc'] = {'raises': '%s: %s' % (type(e).__name__, e)}
        if issubclass(t, (dict, list, tuple, set, frozenset, str, bytes)):
            f['len'] = len(o)

        def r(x):
            j, new = self.ref(x)
            if new:
                kids.append(j)
            return j
        if t is dict:
            f['items'] = [list(self.key(k)) + [r(v)] for k, v in list(o.items())] if expand else []
        if issubclass(t, (list, tuple, set, frozenset)):
            f['seq'] = [r(x) for x in tuple(o)] if expand else []
        if issubclass(t, BaseException):
            f['args'] = [r(x) for x in tuple(o.args)] if expand else []
        d = getattr(o, '__dict__', None) if not issubclass(t, type) and t.__name__ != 'module' else None
        has = hasattr(o, '__dict__')
        f['hasdict'] = bool(has)
        if has:
            if isinstance(d, dict) and expand:
                f['attrs'] = [list(self.key(k)) + [r(v)] for k, v in list(d.items())]
            else:
                f['attrs'] = []
                f['pruned'] = d is None
        self.facts[i] = f
        return kids

    def walk(self, roots, maxdepth):
        """breadth-first from `roots` (depth 0); objects deeper than maxdepth are described without children."""
        q = [(i, 0) for i in roots]
        seen = set(roots)
        while q:
            i, d = q.pop(0)
            if self.facts[i] is not None and not self.facts[i]['cut']:
                continue
            kids = self.describe(i, d <= maxdepth)
            for j in kids:
                if j not in seen:
                    seen.add(j)
                    q.append((j, d + 1))
        for i, f in enumerate(self.facts):
            if f is None:
                self.describe(i, False)


class Recorder:
    """own trace function: location test, stack walk, locals, watch evaluation — no agent code."""

    def __init__(self, case, host, cap=12):
        self.case, self.host, self.cap = case, host, cap
        self.records = []
        self.errors = []
        tp = case['tp']
        self.path = host.tp_path(tp)
        self.line = tp['line']
        self.method = tp.get('method')
        self.depth = limits_of(case)['MAX_VAR_DEPTH']

    def trace_call(self, frame, event, arg):
        try:
            f = os.path.basename(frame.f_code.co_filename)
            if self.method:
                hit = event == 'call' and f == self.path and frame.f_code.co_name == self.method
            else:
                hit = event == 'line' and f == self.path and frame.f_lineno == self.line
            if hit and len(self.records) < self.cap:
                self.records.append(self.capture(frame))
        except BaseException as e:      # noqa: B902 — a recorder failure is an infrastructure problem
            self.errors.append('%s: %s' % (type(e).__name__, e))
        return self.trace_call

    def capture(self, frame):
        w = Walker()
        frames = []
        roots = []
        shallow = []
        cur = frame
        while cur is not None:
            loc = cur.f_locals
            li, _ = w.ref(loc)
            s = loc.get('self') if isinstance(loc, dict) else None
            ishost = self.host.is_host_file(cur.f_code.co_filename)
            classes = [[k, reported_class(v)] for k, v in loc.items() if v is not None and isinstance(k, str)]
            frames.append({'file': cur.f_code.co_filename, 'func': cur.f_code.co_name, 'line': cur.f_lineno,
                           'selfclass': (reported_class(s) if s is not None else None), 'locals': li,
                           'classes': classes, 'names': list(loc.keys()), 'host': ishost})
            (roots if ishost else shallow).append(li)
            cur = cur.f_back
        evals = []
        cur = frame
        chain = [frame, frame.f_back] if frame.f_back is not None else [frame]
        for expr in self.case['tp']['watches']:
            row = []
            for fr in chain:
                try:
                    v = eval(expr, fr.f_globals, fr.f_locals)
                    raised = False
                except BaseException as e:   # noqa: B902
                    v, raised = e, True
                i, _ = w.ref(v)
                roots.append(i)
                row.append({'obj': i, 'raised': raised})
            evals.append(row)
        w.walk(roots, max(self.depth, 1) + 1)
        # frames of the rig / threading: their locals dict and the direct values only
        for li in shallow:
            kids = w.describe(li, True)
            for j in kids:
                if w.facts[j] is None:
                    w.describe(j, False)
        for i, f in enumerate(w.facts):
            if f is None:
                w.describe(i, False)
        return {'frames': frames, 'heap': w.facts, 'evals': evals}


def run_recorder(case, host):
    rec = Recorder(case, host)
    mod = host.load()
    res = run_on_thread(rec.trace_call, mod.main)
    out = {'records': rec.records, 'errors': rec.errors}
    out['ret'] = mask(repr(res.get('ret')))[:200] if 'ret' in res else None
    out['exc'] = type(res['exc']).__name__ if 'exc' in res else None
    return out


def run_impl(case):
    if case.get('kind') == 'pair':
        return run_pair(case)
    host = Host(case)
    try:
        try:
            a = run_agent(case, host)
        except BaseException as e:      # noqa: B902
            a = {'raised': '%s: %s' % (type(e).__name__, e), 'snaps': [], 'count': 0}
        b = run_recorder(case, host)
        if b['errors']:
            raise core.Infra('recorder failed: %s' % b['errors'][:2])
        app = {k: (host.subst(v) if isinstance(v, str) else [host.subst(x) for x in v])
               for k, v in case['app'].items()}
        # what the documentation says the environment form means: comma separated list (the interpreter's own
        # prefix is always excluded as well)
        if 'ENV_IN_APP_EXCLUDE' in app:
            app['IN_APP_EXCLUDE'] = app.pop('ENV_IN_APP_EXCLUDE').split(',') + [sys.exec_prefix]
        if 'ENV_IN_APP_INCLUDE' in app:
            app['IN_APP_INCLUDE'] = app.pop('ENV_IN_APP_INCLUDE').split(',')
        env = {'host': host.dir, 'apath': host.apath, 'bpath': host.bpath, 'tp_path': host.tp_path(case['tp']),
               'app': app}
        return {'agent': a, 'rec': b, 'env': env}
    finally:
        host.close()


# ======================================================================================= the statement, as a reference
ITER_TYPES = ('list_iterator', 'list_reverseiterator')
SEQ_TYPES = ('list', 'tuple', 'set', 'frozenset')
SCALAR_TYPES = ('str', 'int', 'float', 'bool', 'NoneType', 'type', 'module') + ITER_TYPES


def app_rule(env, filename):
    """statement: exclude wins, then include, then APP_ROOT; the matched prefix is cut off the path."""
    app = env['app']
    import sys as _sys
    excl = app['IN_APP_EXCLUDE'] if 'IN_APP_EXCLUDE' in app else [_sys.exec_prefix]
    incl = app.get('IN_APP_INCLUDE', [])
    root = app.get('APP_ROOT', '/app')
    for p in excl:
        if filename.startswith(p):
            return False, filename[len(p):]
    for p in incl:
        if filename.startswith(p):
            return True, filename[len(p):]
    if filename.startswith(root):
        return True, filename[len(root):]
    return False, filename


def collects(frame_type, idx):
    """statement: all_frame = every frame, no_frame = none, anything else (single_frame, unknown, absent) = top only."""
    if frame_type == 'all_frame':
        return True
    if frame_type == 'no_frame':
        return False
    return idx == 0


def render(f):
    """statement: element count for containers, fixed text for list iterators, str() otherwise."""
    if f['ty'] in ITER_TYPES:
        return 'Iterator of type: ' + f['tyrepr']
    if f['dict'] or f['ty'] in SEQ_TYPES:
        return 'Size: %d' % f['len']
    return f['str'] if f['str'] is not None else f['ph']


def kind_children(f, lim):
    """statement: children by kind -> ('dict'|'seq'|'attrs'|'none', [(key_text, is_str, obj)])"""
    if f['ty'] in SCALAR_TYPES:
        return 'none', []
    if f['dict']:
        return 'dict', [(k, s, o) for k, s, o in f['items']]
    if f['ty'] in SEQ_TYPES:
        return ('set' if f['ty'] in ('set', 'frozenset') else 'seq'), \
            [(str(n), True, o) for n, o in enumerate(f['seq'][:max(lim['MAX_COLLECTION_SIZE'], 0)])]
    if isinstance(f['isexc'], dict):
        return 'none', []              # an object that cannot be inspected is shown without children
    if f['isexc']:
        return 'seq', [(str(n), True, o) for n, o in enumerate(f['args'][:max(lim['MAX_COLLECTION_SIZE'], 0)])]
    if f['hasdict'] and isinstance(f['attrs'], list):
        return 'attrs', [(k, s, o) for k, s, o in f['attrs']]
    return 'none', []


def reference_walk(rec, lim, frame_type, watch_objs):
    """breadth-first, each object once, from the locals of each collected frame in stack order, then the watch
    values.  Returns (expanded: obj -> bool, total objects incl. the locals dicts)."""
    heap = rec['heap']
    seen = {}
    maxd = lim['MAX_VAR_DEPTH']

    def bfs(root):
        if root in seen:
            return
        q = [(root, 0)]
        while q:
            o, d = q.pop(0)
            if o in seen:
                continue
            exp = d + 1 < maxd
            seen[o] = exp
            if exp:
                for _, _, c in kind_children(heap[o], lim)[1]:
                    q.append((c, d + 1))
    for idx, fr in enumerate(rec['frames']):
        if collects(frame_type, idx):
            bfs(fr['locals'])
    for o in watch_objs:
        bfs(o)
    return seen, len(seen)


class Matcher:
    """walks a snapshot table and the recorded heap in parallel; vid <-> object must be a bijection."""

    def __init__(self, table, heap, lim, expanded, exact, out):
        self.table, self.heap, self.lim, self.expanded, self.exact, self.out = table, heap, lim, expanded, exact, out
        self.v2o, self.o2v = {}, {}
        self.todo = []

    def err(self, msg):
        if len(self.out) < 12:
            self.out.append(msg)

    def ref(self, where, vid, obj):
        if vid is None:
            self.err('%s: reference without id' % where)
            return
        vid = str(vid)
        if vid in self.v2o or obj in self.o2v:
            if self.v2o.get(vid) != obj or self.o2v.get(obj) != vid:
                if vid in self.v2o:
                    self.err('%s: id %s, which elsewhere in the snapshot stands for a different object (%s #%s, '
                             'here %s #%s)' % (where, vid, self.heap[self.v2o[vid]]['ty'], self.v2o[vid],
                                               self.heap[obj]['ty'], obj))
                else:
                    self.err('%s: id %s, but the same object (%s #%s) has id %s elsewhere in the snapshot' %
                             (where, vid, self.heap[obj]['ty'], obj, self.o2v[obj]))
            return
        self.v2o[vid], self.o2v[obj] = obj, vid
        self.todo.append((where, vid, obj))

    def name_ok(self, kind, ref, key, is_str, owner):
        vid, name, mods, orig = ref
        want_mods = ['private'] if name.startswith('__') else ['protected'] if name.startswith('_') else []
        if list(mods) != want_mods:
            return 'modifiers %s for name %r' % (mods, name)
        if kind == 'attrs':
            real = orig if orig is not None else name
            if real != key:
                return 'attribute %r shown as %r (original %r)' % (key, name, orig)
            if orig is not None and not any(key == '_' + c + name for c in owner['mro']):
                return 'attribute %r shown as %r, which is not its private name in any class of the object' % (key, name)
            return None
        if name != key:
            return 'name %r, expected %r' % (name, key)
        if orig is not None:
            return 'name %r carries an original name %r' % (name, orig)
        return None

    def run(self):
        while self.todo:
            where, vid, obj = self.todo.pop(0)
            e = self.table.get(vid)
            f = self.heap[obj]
            if e is None:
                self.err('%s: id %s is not in the variable table' % (where, vid))
                continue
            if e['type'] != f['ty']:
                self.err('%s: type %r, the object is a %r' % (where, e['type'], f['ty']))
            full = render(f)
            n = self.lim['MAX_STRING_LENGTH']
            want = full[:n] if n >= 0 else full
            if mask(e['value']) != mask(want):
                self.err('%s: value %r, expected %r' % (where, e['value'][:80], want[:80]))
            if bool(e['truncated']) != (len(full) > n):
                self.err('%s: truncated=%s for a text of %d characters with limit %d' %
                         (where, e['truncated'], len(full), n))
            kind, kids = kind_children(f, self.lim)
            if f.get('cut') or f.get('pruned'):
                if e['children'] and f.get('cut'):
                    self.err('%s: children listed beyond the recorded depth' % where)
                continue
            got = e['children']
            if self.exact:
                want_kids = kids if self.expanded.get(obj) else []
                if len(got) != len(want_kids):
                    self.err('%s (%s): %d children, expected %d %s' %
                             (where, f['ty'], len(got), len(want_kids), [k[0] for k in want_kids][:6]))
                    continue
            else:
                if len(got) > len(kids):
                    self.err('%s (%s): %d children, the object has %d' % (where, f['ty'], len(got), len(kids)))
                    continue
                want_kids = kids[:len(got)]
            if kind == 'set':
                # order of a set is not part of the statement: match by (type, text) of the element
                def keyof_obj(o):
                    return (self.heap[o]['ty'], mask(render(self.heap[o])[:max(n, 0)]))

                def keyof_vid(v):
                    t = self.table.get(str(v))
                    return (t['type'], mask(t['value'])) if t else ('?', '?')
                if self.exact:
                    a = sorted(keyof_vid(c[0]) for c in got)
                    b = sorted(keyof_obj(k[2]) for k in want_kids)
                    if a != b:
                        self.err('%s: set elements %s, expected %s' % (where, a[:5], b[:5]))
                        continue
                pool = {}
                for k in kids:
                    pool.setdefault(keyof_obj(k[2]), []).append(k[2])
                if [c[1] for c in got] != [str(i) for i in range(len(got))]:
                    self.err('%s: set element names %s' % (where, [c[1] for c in got][:6]))
                for c in got:
                    cand = pool.get(keyof_vid(c[0]), [])
                    if not cand:
                        self.err('%s: element %s is not an element of the set' % (where, keyof_vid(c[0]),))
                        continue
                    self.ref('%s{%s}' % (where, c[1]), c[0], cand.pop(0))
                continue
            for c, (key, is_str, o) in zip(got, want_kids):
                bad = self.name_ok(kind, c, key, is_str, f)
                if bad:
                    self.err('%s: child %s' % (where, bad))
                self.ref('%s.%s' % (where, key), c[0], o)


def given_args(case):
    return case['tp']['args']


def check_echo(case, env, snap, out, tid='tp-c02'):
    tp = case['tp']
    t = snap['tracepoint']
    if t['id'] != tid:
        out.append('tracepoint id %r, the tracepoint is %r' % (t['id'], tid))
    if t['path'] != env['tp_path']:
        out.append('tracepoint path %r, configured %r' % (t['path'], env['tp_path']))
    if not tp.get('method') and t['line'] != tp['line']:
        out.append('tracepoint line %r, configured %r' % (t['line'], tp['line']))
    if list(t['watches']) != list(tp['watches']):
        out.append('tracepoint watches %r, configured %r' % (t['watches'], tp['watches']))
    args = t['args']
    if 'watches' in args:
        out.append("tracepoint args contain the key 'watches'")
    for k, v in args.items():
        if v is None:
            out.append('tracepoint arg %r is null' % k)
    given = given_args(case)
    for k in SNAP_KEYS:
        if k in given and args.get(k) != given[k]:
            out.append('tracepoint arg %s=%r, configured %r' % (k, args.get(k), given[k]))
        if k not in given and k in args and args[k] != SNAP_DEFAULTS.get(k):
            out.append('tracepoint arg %s=%r was not configured (default %r)' % (k, args[k], SNAP_DEFAULTS.get(k)))
    for k, v in (tp.get('limits') or {}).items():
        if args.get(k) != v:
            out.append('tracepoint arg %s=%r, configured %r' % (k, args.get(k), v))


def check_echo_full(case, env, snap, out):
    """the full statement: the snapshot names the tracepoint that fired — every argument it was configured with,
    and the line it was configured at."""
    tp = case['tp']
    t = snap['tracepoint']
    for k, v in tp['args'].items():
        if k not in t['args']:
            out.append('tracepoint argument %s=%r is not in the echoed args %s' % (k, v, sorted(t['args'])))
        elif t['args'][k] != v:
            out.append('tracepoint argument %s=%r echoed as %r' % (k, v, t['args'][k]))
    if t['line'] != tp['line']:
        out.append('tracepoint line %r, configured %r' % (t['line'], tp['line']))


def expected_count(case, nrec):
    a = case['tp']['args']
    try:
        fc = int(a.get('fire_count', '1'))
    except ValueError:
        fc = 1
    per = a.get('fire_period', '1000')
    if fc == -1:
        return nrec if per == '0' else min(nrec, 1)
    if per != '0':
        return min(nrec, 1, max(fc, 0))
    return min(nrec, max(fc, 0))


def check_snapshot(case, env, snap, rec, out, first_hit=True):
    lim = limits_of(case)
    ft = case['tp']['args'].get('frame_type')
    heap = rec['heap']
    pre = len(out)
    # -- frames: the real call stack, in order
    fs, rs = snap['frames'], rec['frames']
    if len(fs) != len(rs):
        out.append('%d frames, the real stack has %d: %s vs %s' %
                   (len(fs), len(rs), [f['func'] for f in fs][:8], [r['func'] for r in rs][:8]))
        return
    for i, (f, r) in enumerate(zip(fs, rs)):
        app, short = app_rule(env, r['file'])
        for k, got, want in (('file', f['file'], r['file']), ('function', f['func'], r['func']),
                             ('line', f['line'], r['line']), ('class of self', f['class'], r['selfclass']),
                             ('app_frame', bool(f['app']), app), ('short path', f['short'], short)):
            if got != want:
                out.append('frame %d: %s %r, really %r' % (i, k, got, want))
        if not collects(ft, i) and f['vars']:
            out.append('frame %d carries %d variables with frame_type=%r' % (i, len(f['vars']), ft))
    if len(out) > pre:
        return
    # -- variables
    watch_objs = [row[0]['obj'] for row in rec['evals']]
    expanded, total = reference_walk(rec, lim, ft, watch_objs)
    exact = total <= lim['MAX_VARIABLES']
    m = Matcher(snap['vars'], heap, lim, expanded, exact, out)
    for i, (f, r) in enumerate(zip(fs, rs)):
        if not collects(ft, i):
            continue
        names = [k for k, s, o in heap[r['locals']]['items']]
        got = [v[1] for v in f['vars']]
        depth_ok = lim['MAX_VAR_DEPTH'] > 1
        if not r['host']:
            # frames below the program (run_on_thread, threading): names only.  Their objects are not recorded, so
            # with a configured variable budget it is unknown whether it ends inside them: then the names must
            # be a prefix of the locals, else all of them
            full = exact and 'MAX_VARIABLES' not in (case['tp'].get('limits') or {})
            if got != ((names if depth_ok else []) if full else names[:len(got)]):
                out.append('frame %d (%s): variables %s, locals are %s' % (i, r['func'], got, names))
            continue
        want = names if (exact and depth_ok) else names[:len(got)]
        if not depth_ok and exact:
            want = []
        if got != want:
            out.append('frame %d (%s): variables %s, the locals are %s' % (i, r['func'], got, names))
            continue
        for v, (k, s, o) in zip(f['vars'], heap[r['locals']]['items']):
            if v[2] != (['private'] if k.startswith('__') else ['protected'] if k.startswith('_') else []):
                out.append('frame %d: modifiers %s of local %r' % (i, v[2], k))
            m.ref('frame%d.%s' % (i, k), v[0], o)
    m.run()
    # -- watches: evaluated against the top frame
    ws = [w for w in snap['watches'] if w['source'] == 'WATCH']
    exprs = case['tp']['watches']
    if [w['expr'] for w in ws] != list(exprs):
        out.append('watch results for %s, configured %s' % ([w['expr'] for w in ws], exprs))
        return
    for w, row in zip(ws, rec['evals']):
        ev = row[0]
        f = heap[ev['obj']]
        if w['error'] is not None:
            if w['error'] == 'variable limit reached' and not exact:
                continue
            if not ev['raised'] or w['error'] != (f['str'] or ''):
                out.append('watch %r: error %r, in the top frame it %s' %
                           (w['expr'], w['error'], ('raises %s' % f['ty']) if ev['raised'] else ('is %s' % f['str'])))
            continue
        if not w['result'] or w['result'][0] is None:
            out.append('watch %r: no result and no error' % w['expr'])
            continue
        if w['result'][1] != w['expr']:
            out.append('watch %r: result named %r' % (w['expr'], w['result'][1]))
        m.ref('watch(%s)' % w['expr'], w['result'][0], ev['obj'])
    m.run()


def oracle(case, obs):
    if case.get('kind') == 'pair':
        return oracle_pair(case, obs)
    out = oracle_main(case, obs)
    if case.get('strict_echo') and 'raised' not in obs['agent']:
        ids = tp_ids(case)
        for k, snap in enumerate(obs['agent']['snaps'][:4]):
            sub = []
            check_echo_full(case, obs['env'], snap, sub)
            out += ['hit %d (%s): %s' % (k // len(ids), ids[k % len(ids)], s) for s in sub]
    return out


def oracle_main(case, obs):
    out = []
    a, b = obs['agent'], obs['rec']
    if 'raised' in a:
        return ['agent raised: ' + a['raised']]
    if a.get('exc') != b.get('exc') or a.get('ret') != b.get('ret'):
        out.append('program result differs with the agent: %r/%r vs %r/%r' % (a.get('ret'), a.get('exc'),
                                                                              b.get('ret'), b.get('exc')))
    if not a.get('trace_kept'):
        out.append('trace function removed')
    ids = tp_ids(case)
    n = expected_count(case, len(b['records'])) * len(ids)
    if a['count'] != n and len(b['records']) < 12:
        out.append('%d snapshots for %d hits of the location by %d tracepoint(s) (fire_count=%s fire_period=%s)' %
                   (a['count'], len(b['records']), len(ids), case['tp']['args'].get('fire_count', '1'),
                    case['tp']['args'].get('fire_period', '1000')))
        return out
    for k, snap in enumerate(a['snaps']):
        hit, j = divmod(k, len(ids))
        if hit >= len(b['records']):
            break
        sub = []
        check_echo(case, obs['env'], snap, sub, ids[j])
        check_snapshot(case, obs['env'], snap, b['records'][hit], sub, first_hit=(hit == 0))
        out += ['hit %d (%s): %s' % (hit, ids[j], s) for s in sub[:8]]
        if len(out) > 10:
            break
    return out


# ======================================================================================= model correspondence
def resolved_app(env):
    app = env['app']
    return {'root': app.get('APP_ROOT', '/app'), 'incl': app.get('IN_APP_INCLUDE', []),
            'excl': app['IN_APP_EXCLUDE'] if 'IN_APP_EXCLUDE' in app else [sys.exec_prefix]}


HEAP_KEYS = ('ty', 'tyrepr', 'dict', 'str', 'ph', 'len', 'items', 'seq', 'isexc', 'args', 'hasdict', 'attrs')


def model_request(case, obs):
    if case.get('kind') == 'pair':
        return model_request_pair(case, obs)
    a, b = obs['agent'], obs['rec']
    if 'raised' in a or not a['snaps']:
        return None
    tp = case['tp']
    hits = []
    ids = tp_ids(case)
    for k in range(len(a['snaps'])):
        hit, j = divmod(k, len(ids))
        if hit >= len(b['records']):
            break
        hits.append(hit_request(tp, ids[j], obs['env'], b['records'][hit]))
    return {'op': 'multi', 'hits': hits}


def match_tables(ta, tb, roots, out, setlike=('set', 'frozenset')):
    """simultaneous walk of two variable tables from pairs of references; exact in every field (texts masked)."""
    a2b, b2a = {}, {}
    todo = list(roots)

    def err(m):
        if len(out) < 10:
            out.append(m)

    def key(t, v):
        e = t.get(str(v))
        return (e['type'], mask(e['value'])) if e else ('?', '?')
    while todo:
        where, ra, rb = todo.pop(0)
        if list(ra[1:]) != list(rb[1:]):
            err('%s: reference %s in the implementation, %s in the model' % (where, ra[1:], rb[1:]))
        va, vb = str(ra[0]), str(rb[0])
        if va in a2b or vb in b2a:
            if a2b.get(va) != vb or b2a.get(vb) != va:
                err('%s: id %s of the implementation is id %s of the model elsewhere, here %s' %
                    (where, va, a2b.get(va), vb))
            continue
        a2b[va], b2a[vb] = vb, va
        ea, eb = ta.get(va), tb.get(vb)
        if ea is None or eb is None:
            if (ea is None) != (eb is None):
                err('%s: entry %s in the table: implementation %s, model %s' % (where, va, ea is not None, eb is not None))
            continue
        for k in ('type', 'truncated'):
            if ea[k] != eb[k]:
                err('%s: %s %r in the implementation, %r in the model' % (where, k, ea[k], eb[k]))
        if mask(ea['value']) != mask(eb['value']):
            err('%s: value %r in the implementation, %r in the model' % (where, ea['value'][:60], eb['value'][:60]))
        ca, cb = list(ea['children']), list(eb['children'])
        if len(ca) != len(cb):
            err('%s: %d children in the implementation, %d in the model' % (where, len(ca), len(cb)))
            continue
        if ea['type'] in setlike:
            if [c[1] for c in ca] != [c[1] for c in cb]:
                err('%s: set element names differ' % where)
            sa = sorted(ca, key=lambda c: key(ta, c[0]))
            sb = sorted(cb, key=lambda c: key(tb, c[0]))
            for x, y in zip(sa, sb):
                todo.append(('%s{}' % where, [x[0]], [y[0]]))
            continue
        for x, y in zip(ca, cb):
            todo.append(('%s.%s' % (where, x[1]), x, y))


def compare_hit(case, env, snap, rec, resp, out, first_hit=True):
    if 'failed' in resp:
        out.append('model: collection failed: %s' % resp['failed'])
        return
    t, mt = snap['tracepoint'], resp['tracepoint']
    margs = {k: v for k, v in mt['args']}
    if (t['id'], t['path'], t['line'], list(t['watches'])) != (mt['id'], mt['path'], mt['line'], list(mt['watches'])) \
            or dict(t['args']) != margs or list(t['args'].keys()) != [k for k, _ in mt['args']]:
        out.append('tracepoint echo: implementation %s, model %s' % (t, mt))
    fa, fb = snap['frames'], resp['frames']
    if len(fa) != len(fb):
        out.append('%d frames in the implementation, %d in the model' % (len(fa), len(fb)))
        return
    lim = limits_of(case)
    ft = case['tp']['args'].get('frame_type')
    _, total = reference_walk(rec, lim, ft, [row[0]['obj'] for row in rec['evals']])
    exact = total <= lim['MAX_VARIABLES']
    ta = snap['vars']
    tb = {str(e['vid']): e for e in resp['vars']}
    roots = []
    for i, (x, y, r) in enumerate(zip(fa, fb, rec['frames'])):
        for k in ('file', 'short', 'func', 'line', 'class', 'app'):
            if x[k] != y[k]:
                out.append('frame %d: %s %r in the implementation, %r in the model' % (i, k, x[k], y[k]))
        if r['host']:
            if [v[1:] for v in x['vars']] != [v[1:] for v in y['vars']]:
                out.append('frame %d: variables %s in the implementation, %s in the model' %
                           (i, [v[1] for v in x['vars']], [v[1] for v in y['vars']]))
                continue
            roots += [('frame%d.%s' % (i, v[1]), v, w) for v, w in zip(x['vars'], y['vars'])]
        elif exact and 'MAX_VARIABLES' not in (case['tp'].get('limits') or {}) \
                and [v[1] for v in x['vars']] != [v[1] for v in y['vars']]:
            out.append('frame %d: variables %s in the implementation, %s in the model' %
                       (i, [v[1] for v in x['vars']], [v[1] for v in y['vars']]))
    wa = [w for w in snap['watches'] if w['source'] == 'WATCH']
    wb = resp['watches']
    if len(wa) != len(wb):
        out.append('%d watch results in the implementation, %d in the model' % (len(wa), len(wb)))
    for x, y in zip(wa, wb):
        if x['expr'] != y['expr'] or x['error'] != y['error'] or (x['result'] is None) != (y['result'] is None):
            out.append('watch %r: implementation %s, model %s' % (x['expr'], x, y))
        elif x['result'] is not None:
            if x['result'][0] is None or y['result'][0] is None:
                if x['result'][0] != y['result'][0]:
                    out.append('watch %r: id %s in the implementation, %s in the model' %
                               (x['expr'], x['result'][0], y['result'][0]))
            else:
                roots.append(('watch(%s)' % x['expr'], [x['result'][0], x['result'][1], [], None],
                              [y['result'][0], y['result'][1], [], None]))
    match_tables(ta, tb, roots, out)


def compare(case, obs, resp):
    if case.get('kind') == 'pair':
        return compare_pair(case, obs, resp)
    if 'error' in resp:
        return ['model error: ' + resp['error']]
    out = []
    a, b = obs['agent'], obs['rec']
    ids = tp_ids(case)
    for k, (snap, r) in enumerate(zip(a['snaps'], resp['hits'])):
        hit = k // len(ids)
        sub = []
        compare_hit(case, obs['env'], snap, b['records'][hit], r, sub, first_hit=(hit == 0))
        out += ['hit %d: %s' % (hit, s) for s in sub[:6]]
    return out


# ======================================================================================= two tracepoints, own limits
def pseudo(case, tp):
    """a pair case seen from one of its tracepoints, in the shape the single-tracepoint functions take"""
    return {'kind': 'prog', 'a': case['a'], 'b': case['b'], 'tp': tp, 'app': case['app']}


class Both:
    """one trace function for several recorders"""

    def __init__(self, recs):
        self.recs = recs

    def trace_call(self, frame, event, arg):
        for r in self.recs:
            r.trace_call(frame, event, arg)
        return self.trace_call


def run_pair_agent(case, host):
    import deep.processor.frame_collector as fc
    r = rig.Rig({k: host.subst(v) for k, v in case['app'].items()})
    orig = fc.time_ns
    fc.time_ns = lambda: r.clock
    try:
        trigs = []
        for tp in case['tps']:
            trigs += build_triggers(pseudo(case, tp), host)
        r.install(trigs)
        mod = host.load()
        gated = False
        if case['mode'] == 'threads':
            # thread W is stopped (events, no sleeps) while its frame is being collected; thread O then runs through
            # its own tracepoint; then W goes on
            mod.ARMED[0] = True
            tw, resw = start_on_thread(r.handler.trace_call, mod.worker)
            for _ in range(3000):
                if mod.collecting.wait(0.01) or not tw.is_alive():
                    break
            gated = mod.collecting.is_set() and tw.is_alive()
            reso = run_on_thread(r.handler.trace_call, mod.other)
            mod.carry_on.set()
            tw.join(60)
            if tw.is_alive():
                raise core.Infra('pair: the worker thread did not finish')
            results = [resw, reso]
        else:
            results = [run_on_thread(r.handler.trace_call, mod.main)]
        snaps = {}
        for sn in r.push.pushed[:24]:
            d = rig.dump_snapshot(sn)
            d.pop('attributes', None)
            snaps.setdefault(d['tracepoint']['id'], []).append(d)
        return {'snaps': snaps, 'count': len(r.push.pushed), 'gated': gated,
                'exc': [type(x['exc']).__name__ for x in results if 'exc' in x],
                'trace_kept': all(x.get('trace_after') is not None for x in results)}
    finally:
        fc.time_ns = orig
        r.close()


def run_pair_recorder(case, host):
    recs = [Recorder(pseudo(case, tp), host) for tp in case['tps']]
    both = Both(recs)
    mod = host.load()
    if case['mode'] == 'threads':
        run_on_thread(both.trace_call, mod.worker)
        run_on_thread(both.trace_call, mod.other)
    else:
        run_on_thread(both.trace_call, mod.main)
    errs = [e for r in recs for e in r.errors]
    return {'records': {tp['id']: r.records for tp, r in zip(case['tps'], recs)}, 'errors': errs}


def run_pair(case):
    host = Host(case)
    try:
        try:
            a = run_pair_agent(case, host)
        except core.Infra:
            raise
        except BaseException as e:      # noqa: B902
            a = {'raised': '%s: %s' % (type(e).__name__, e), 'snaps': {}, 'count': 0}
        b = run_pair_recorder(case, host)
        if b['errors']:
            raise core.Infra('recorder failed: %s' % b['errors'][:2])
        env = {'host': host.dir, 'apath': host.apath, 'bpath': host.bpath, 'tp_path': host.tp_path(case['tps'][0]),
               'app': {k: host.subst(v) for k, v in case['app'].items()}}
        return {'agent': a, 'rec': b, 'env': env}
    finally:
        host.close()


def pair_items(case, obs):
    """(tracepoint, its pseudo case, k, snapshot, recording) for every snapshot that has a recording"""
    for tp in case['tps']:
        snaps = obs['agent']['snaps'].get(tp['id'], [])
        recs = obs['rec']['records'].get(tp['id'], [])
        for k, (sn, rec) in enumerate(zip(snaps, recs)):
            yield tp, pseudo(case, tp), k, sn, rec


def oracle_pair(case, obs):
    a = obs['agent']
    if 'raised' in a:
        return ['agent raised: ' + a['raised']]
    out = []
    if a.get('exc'):
        out.append('program failed with the agent: %s' % a['exc'])
    if not a.get('trace_kept'):
        out.append('trace function removed')
    for tp in case['tps']:
        n, m = len(a['snaps'].get(tp['id'], [])), len(obs['rec']['records'].get(tp['id'], []))
        if n != m:
            out.append('%s: %d snapshots for %d hits' % (tp['id'], n, m))
    for tp, ps, k, sn, rec in pair_items(case, obs):
        sub = []
        check_echo(ps, obs['env'], sn, sub, tp['id'])
        check_snapshot(ps, obs['env'], sn, rec, sub, first_hit=(k == 0))
        out += ['%s hit %d (own limits %s): %s' % (tp['id'], k, tp.get('limits') or 'default', x) for x in sub[:6]]
    return out[:12]


def hit_request(tp, tid, env, rec):
    return {'op': 'snapshot', 'id': tid, 'path': env['tp_path'],
            'line': -1 if tp.get('method') else tp['line'],
            'args': [[k, v] for k, v in tp['args'].items()], 'watches': list(tp['watches']),
            'limits': [[k, v] for k, v in (tp.get('limits') or {}).items()],
            'app': resolved_app(env),
            'stack': [{'file': f['file'], 'func': f['func'], 'line': f['line'], 'locals': f['locals'],
                       'classes': f['classes']} for f in rec['frames']],
            'heap': [{k: o[k] for k in HEAP_KEYS} for o in rec['heap']],
            'evals': [[e, [x['obj'] for x in row]] for e, row in zip(tp['watches'], rec['evals'])]}


def model_request_pair(case, obs):
    if 'raised' in obs['agent']:
        return None
    hits = [hit_request(tp, tp['id'], obs['env'], rec) for tp, ps, k, sn, rec in pair_items(case, obs)]
    return {'op': 'multi', 'hits': hits} if hits else None


def compare_pair(case, obs, resp):
    if 'error' in resp:
        return ['model error: ' + resp['error']]
    out = []
    for (tp, ps, k, sn, rec), r in zip(pair_items(case, obs), resp['hits']):
        sub = []
        compare_hit(ps, obs['env'], sn, rec, r, sub, first_hit=(k == 0))
        out += ['%s hit %d: %s' % (tp['id'], k, x) for x in sub[:6]]
    return out


# ======================================================================================= bookkeeping
def label(case, obs):
    if case.get('kind') == 'pair':
        return 'pair/%s/%s' % (case['mode'], 'interleaved' if obs['agent'].get('gated') else 'sequential')
    tp = case['tp']
    ft = tp['args'].get('frame_type', '<absent>')
    n = obs['agent'].get('count', 0)
    return '%s%s/%s/%s/%s' % ('strict-echo:' if case.get('strict_echo') else '',
                              'entry' if tp.get('method') else 'line', ft or "''",
                            'limits' if tp.get('limits') else 'default', 'none' if n == 0 else 'one' if n == 1 else 'many')


def nontrivial(case, obs):
    if case.get('kind') == 'pair':
        return case['mode'] == 'alternate' or bool(obs['agent'].get('gated'))
    for s in obs['agent'].get('snaps', []):
        hostframes = [f for f in s['frames'] if f['file'] in (obs['env']['apath'], obs['env']['bpath'])]
        if len(hostframes) >= 2 and any(v['children'] for v in s['vars'].values()):
            return True
    return False


def known_finding(case, obs):
    """C02/echo-drops-condition: only for cases of the strict-echo stream that satisfy the finding's structural
    predicate, and only when nothing but the echo is wrong (any other violation is reported as such)."""
    if case.get('kind') == 'pair':
        return None
    if case.get('strict_echo') and echo_instance(case) and not oracle_main(case, obs):
        return FINDING_ECHO
    return None


def known_replays():
    a = c02_gen.PRELUDE_A + CORPUS_BODY
    line = next(i + 1 for i, l in enumerate(a.split('\n')) if '#L1' in l)
    return [(FINDING_ECHO,
             "line tracepoint with a `condition` argument: the tracepoint echoed in the snapshot lacks `condition` "
             "(the echo is the snapshot action's config, not the tracepoint's args)",
             {'kind': 'prog', 'a': a, 'b': c02_gen.PRELUDE_B, 'strict_echo': True,
              'tp': {'file': 'a', 'line': line, 'args': {'condition': 'first >= 0'}, 'watches': []},
              'app': {'APP_ROOT': '$HOST/app'}, 'meta': {'kinds': ['known'], 'level': 0, 'text': 'known'}})]


CORPUS_BODY = '''

def inner(first, second):
    total = first + second      #L1
    return total


class Basket(EmptyBox):
    def add(self, item):
        before = len(self.items)    #L2
        self.items.append(item)
        return inner(before, 9000)


class Shape:
    def __init__(self, kids=()):
        self.kids = list(kids)

    def area(self, scale):
        if self.kids:
            return self.kids[0].area(scale + 1)
        size = 2 * scale    #L3
        return size


class Group(Shape):
    pass


class Layer(Shape):
    pass


class Sprite(Shape):
    pass


def main():
    b = Basket()
    b.add(7)
    shape = Group([Layer([Sprite()]), Sprite()]).area(3)
    return b.add(8)
'''


def corpus_pairs():
    """two tracepoints with different limits: two threads interleaved, and one thread alternating"""
    import random
    out = []
    for mode, lw, lo in (('threads', {'MAX_COLLECTION_SIZE': 2, 'MAX_STRING_LENGTH': 8}, {}),
                         ('threads', {}, {'MAX_COLLECTION_SIZE': 1, 'MAX_VAR_DEPTH': 2}),
                         ('alternate', {'MAX_STRING_LENGTH': 4}, {'MAX_COLLECTION_SIZE': 12, 'MAX_VAR_DEPTH': 6})):
        c = gen_pair(random.Random('c02-corpus-pair'))
        c['mode'] = mode
        c['meta']['text'] = mode
        for tp, lim in zip(c['tps'], (lw, lo)):
            tp.pop('limits', None)
            if lim:
                tp['limits'] = dict(lim)
            tp['args'].pop('frame_type', None)
        out.append(c)
    return out


def corpus():
    """hand-written regression cases: shapes of past defects (new-valued watch after the frame, falsy self, two
    tracepoints on one line, globals in watches, fresh temporaries, DEEP_IN_APP_EXCLUDE list, limits for watches)."""
    a = c02_gen.PRELUDE_A + CORPUS_BODY
    b = c02_gen.PRELUDE_B
    lines = a.split('\n')
    l1 = next(i + 1 for i, l in enumerate(lines) if '#L1' in l)
    l2 = next(i + 1 for i, l in enumerate(lines) if '#L2' in l)
    l3 = next(i + 1 for i, l in enumerate(lines) if '#L3' in l)

    def case(tp, app=None):
        tp.setdefault('args', {})
        tp.setdefault('watches', [])
        return {'kind': 'prog', 'a': a, 'b': b, 'tp': tp, 'app': app or {'APP_ROOT': '$HOST/app'},
                'meta': {'kinds': ['corpus'], 'level': 0, 'text': 'corpus'}}
    every = {'fire_count': '-1', 'fire_period': '0'}
    return [
        case({'file': 'a', 'line': l1, 'args': dict(every, frame_type='all_frame'),
              'watches': ['first + second', 'G_INT', 'b', 'second']}),
        case({'file': 'a', 'line': l2, 'args': dict(every), 'watches': ['{"k": 1}', '{"k": 2}', 'self', 'G_LIST']}),
        case({'file': 'a', 'line': l1, 'args': {'frame_type': 'no_frame'}, 'twin': True, 'watches': ['total']}),
        case({'file': 'a', 'line': l1, 'args': {}, 'twin': True, 'watches': ['first']}),
        case({'file': 'a', 'line': l1, 'method': 'inner', 'args': {'method_name': 'inner', 'frame_type': 'weird'},
              'watches': ["G_STR * 5", 'list(range(30))'],
              'limits': {'MAX_STRING_LENGTH': 8, 'MAX_COLLECTION_SIZE': 2, 'MAX_VAR_DEPTH': 3}}),
        case({'file': 'a', 'line': l2, 'args': {'frame_type': 'all_frame'}, 'watches': []},
             {'APP_ROOT': '$HOST', 'ENV_IN_APP_EXCLUDE': '$HOST/lib,$STD', 'IN_APP_INCLUDE': ['$HOST/app']}),
        # one inherited method (one code object) on the stack three times, self of three classes
        case({'file': 'a', 'line': l3, 'args': {'frame_type': 'all_frame'}, 'watches': ['type(self).__name__']}),
        case({'file': 'a', 'line': l3, 'args': {'frame_type': 'single_frame'}, 'watches': ['scale']}),
        # values whose == raises / is not a bool / is always or never true; equal but distinct temporaries
        case({'file': 'a', 'line': l1, 'args': {}, 'watches': ['EqArray()', 'EqRaises()', 'EqAlways()', 'NaNLike()',
                                                               '[0] * 3', '[0, 0, 0]', '[1] * 3', '[2, 2, 2]']}),
    ] + corpus_pairs()


def shrink(case):
    if case.get('kind') == 'pair':
        for i in (0, 1):
            if case['tps'][i]['watches']:
                c = dict(case)
                c['tps'] = [dict(t) for t in case['tps']]
                c['tps'][i]['watches'] = []
                yield c
        return
    tp = case['tp']
    if tp.get('twin'):
        c = dict(case)
        c['tp'] = {k: v for k, v in tp.items() if k != 'twin'}
        yield c
    for i in range(len(tp['watches'])):
        c = dict(case)
        c['tp'] = dict(tp)
        c['tp']['watches'] = tp['watches'][:i] + tp['watches'][i + 1:]
        yield c
    if case['app']:
        for k in case['app']:
            c = dict(case)
            c['app'] = {x: v for x, v in case['app'].items() if x != k}
            yield c
    if tp.get('limits'):
        for k in tp['limits']:
            c = dict(case)
            c['tp'] = dict(tp)
            c['tp']['limits'] = {x: v for x, v in tp['limits'].items() if x != k}
            yield c
