"""C12 — installed tracepoints converge to the service's latest configuration; hash reported; no-change inert;
a failed poll keeps the last good configuration and polling continues.

Drives the REAL TracepointConfigService + TriggerHandler (+ its update listener) + LongPoll.poll against a fake grpc
channel scripted with real protobuf PollResponses; the apply tasks submitted to the real TaskHandler are run by a step
executor in a generated order, also split into their three regions (read under the update lock / evaluate the listener
argument / install) with two gates, and also racing for the lock.  A second kind of case runs the real LongPoll.start() timer thread with a
short interval (number or text) over a script of failing / malformed / good polls."""
import threading
import time

import core
import svcbench
import svcref

ID = 'C12'
EXTRACT = ['configsvc', 'tasks']
LEAN_TARGETS = ['DeepModel.Props.C12']
AUDIT = 'DeepModel/Audit/C12.lean'
DRIVER = 'DeepModel/Driver/C12.lean'
BUDGET = {'quick': 950, 'thorough': 8000}
RULE = ('[line-granular preemption, oracle only: 6 victim/intruder pairs (poll answer vs register/unregister and the '
        'reverse) x the victim parked before its k-th line in tracepoint_config.py, k = 1..24] (ts_nanos of the answers is arbitrary, not monotone) first EVERY lock-respecting interleaving of two apply tasks over their four regions (up to the lock / lock + '
        'read / listener argument / install) with the second change (update or registration) at every point: 2 x 21 '
        'schedules; then histories of 1..12 ops (thorough ..30): poll answers (UPDATE with 0..3 tracepoints of which some cannot be '
        'interpreted; NO_CHANGE carrying stray data; answer of a type outside the enum; response whose conversion '
        'raises; stub raising; garbage instead of a response), register / unregister, and the apply tasks scheduled explicitly: whole tasks in any order, or '
        'split into their four regions with other ops in between (any number of tasks parked in front of the lock), ~12% of cases with a second task started '
        'while the lock is held (must block); usually drained at the end in a random order. Timer cases (1 in 10; failing polls raise a connection error with a message, one without arguments, KeyError(), a grpc.RpcError subclass without arguments, an exception whose str() raises, an OSError, or the stub returns garbage): '
        'LongPoll.start() with POLL_TIMER 0.01 as float or as text, script of 2..6 polls with failures first. '
        'Poll-thread cases (1 in 9): the real RepeatedTimer thread running the real LongPoll.poll with its Event replaced by a gate, so '
        'each pass of the loop is one scheduled tick — 3..9 events: ticks whose stub answers UPDATE / NO_CHANGE / an unknown type / an '
        'unconvertible payload, hands back garbage, raises one of 6 Exception kinds or (25%) a BaseException (custom, '
        'KeyboardInterrupt, SystemExit); (25%) the real TaskHandler.flush() somewhere; (30%) the real LongPoll.shutdown() '
        'followed by more ticks. '
        'Non-trivial = two or more updates/registrations were in flight together and ran in an order other than '
        'submission order, or a poll failed/was malformed after a configuration was installed. Distinct = distinct '
        'canonical JSON of the case.')
TRUSTED = ['threading.Lock / Thread / Event and concurrent.futures.Future behave as documented (step executor, gates)',
           'the task pool runs each accepted task exactly once (C09); any order, any number of workers',
           'protobuf runtime: a constructed PollResponse reads back the fields it was given',
           'uuid4 handles are unique; build_trigger results are carried as opaque (path, line, tag)']
ASSUMPTIONS = ['poll-thread cases: `RepeatedTimer.event` is the Event the loop waits on (gated by the bench); `_time` and '
               '`Event.wait` do not raise (interval coerced, not zero); an UPDATE answered after TaskHandler.flush() closed '
               'the handler is outside the statement (the model says it kills the thread: c12_update_after_flush_kills_timer); '
               'the oracle also holds LongPoll.shutdown() to its docstring: the thread ends, no request is made after it',
               'an update_listeners task is three atomic regions: lock + read of the polled config; evaluation of '
               '`new_config + self._custom`; the listener storing it. The update lock makes the triple exclusive '
               '(extracted: applyLocked)',
               'a poll that dies of a BaseException that is not an Exception (KeyboardInterrupt, SystemExit) is outside '
               '"failed poll": the timer loop is not expected to survive it',
               'an answer whose response_type is outside the enum counts as an unintelligible poll']


# --------------------------------------------------------------------------------------- generation
def gen_seq(rng, tier):
    s = svcref.Sched(rng)
    s.contention = rng.random() < 0.12
    n = rng.randint(1, 12 if tier == 'quick' else rng.choice([12, 20, 30]))
    for _ in range(n):
        r = rng.random()
        if r < 0.22:
            s.update(bad=0.2)
        elif r < 0.27:
            s.malformed()
        elif r < 0.32:
            s.nochange()
        elif r < 0.35:
            s.unknown()
        elif r < 0.39:
            s.fail()
        elif r < 0.48:
            s.register()
        elif r < 0.54:
            s.unregister()
        elif r < 0.62:
            s.start() or s.read() or s.advance() or s.update()
        elif r < 0.72:
            s.read() or s.advance() or s.update()
        elif r < 0.86:
            s.advance() or s.apply() or s.register()
        else:
            s.apply() or s.advance()
    if rng.random() < 0.85:
        s.drain()
    return {'kind': 'seq', 'ops': s.ops}


def gen_timer(rng):
    s = svcref.Sched(rng)
    for _ in range(rng.randint(1, 3)):
        rng.choice([s.fail, s.fail, s.malformed, s.unknown])()
    s.update(bad=0.2)
    for _ in range(rng.randint(0, 2)):
        rng.choice([s.fail, s.nochange, s.malformed, s.update, s.unknown])()
    return {'kind': 'timer', 'interval': rng.choice([0.01, '0.01', '0.02', 0.02]), 'script': s.ops}


def gen_thread(rng):
    """events for the real poll thread under a gated Event"""
    s = svcref.Sched(rng)
    n = rng.randint(3, 7)
    for _ in range(n):
        rng.choice([s.update, s.update, s.nochange, s.unknown, s.fail, s.fail, s.malformed])()
    evs = [{'ev': 'tick', 'op': op} for op in s.ops]
    if rng.random() < 0.25:
        evs.insert(rng.randrange(len(evs) + 1), {'ev': 'tick', 'op': {
            'op': 'pollFail', 'base': True, 'how': rng.choice(['interrupt', 'keyboard', 'systemexit'])}})
    if rng.random() < 0.25:
        evs.insert(rng.randrange(1, len(evs) + 1), {'ev': 'flush'})
    if rng.random() < 0.3:
        evs.insert(rng.randrange(max(len(evs) - 2, 1), len(evs) + 1), {'ev': 'stop'})
    # a failure before the send (grpc.metadata() raising): a pass without a request
    for _ in range(rng.randint(0, 1)):
        evs.insert(rng.randrange(len(evs) + 1), {'ev': 'tick', 'op': {'op': 'pollFail', 'base': False, 'how': 'metadata'}})
    interval = rng.choice([0.05, '0.05', 3, 10])
    if rng.random() < 0.12:
        # labelled stream: an interval the loop test cannot use (0: `_time` raises ZeroDivisionError, inf: Event.wait
        # raises OverflowError) — a configuration value, not a poll outcome: not judged, compared with the model
        interval = rng.choice([0, '0', 0.0, 'inf', float('inf')])
    return {'kind': 'thread', 'interval': interval, 'evs': evs}


def interval_unusable(iv):
    try:
        f = float(iv)
    except (TypeError, ValueError):
        return False
    return f == 0 or f == float('inf')


def race_case(rng):
    """two tasks inside update_listeners at once, if the implementation lets them: the first takes the lock, something
    changes (update / register / unregister), the second is started and — were it not blocked — runs to completion
    before the first goes on.  With the lock the second blocks and the tail of the schedule lets it run afterwards."""
    s = svcref.Sched(rng)
    for _ in range(rng.randint(0, 2)):
        rng.choice([s.update, s.register])()
        s.drain(atomic_only=True)
    s.update(n=rng.randint(1, 2))
    s.emit({'op': 'taskStart', 'i': 0})
    s.emit({'op': 'taskRead', 'k': 0})
    if rng.random() < 0.3:
        s.emit({'op': 'taskCall', 'k': 0})
    rng.choice([lambda: s.update(n=rng.randint(0, 2)), s.register, s.update])()
    tail = [{'op': 'taskStart', 'i': 0}, {'op': 'taskRead', 'k': 0}, {'op': 'taskCall', 'k': 1},
            {'op': 'taskInstall', 'k': 1}, {'op': 'taskCall', 'k': 0}, {'op': 'taskInstall', 'k': 0},
            {'op': 'taskRead', 'k': 0}, {'op': 'taskCall', 'k': 0}, {'op': 'taskInstall', 'k': 0}]
    for op in tail:
        s.emit(op)
    return {'kind': 'seq', 'ops': s.ops}


def two_task_schedules():
    """EVERY interleaving of two apply tasks over their four regions (start = up to the lock, read = lock + read,
    call, install) that respects the lock, with the second change (an update or a registration) arriving at every
    possible point after the first task was submitted.  Task A belongs to the first update, task B to the change."""
    A = ['A0', 'A1', 'A2', 'A3']
    B = ['C', 'B0', 'B1', 'B2', 'B3']
    out = []

    def merge(a, b, acc):
        if not a and not b:
            out.append(list(acc))
            return
        if a:
            merge(a[1:], b, acc + [a[0]])
        if b:
            merge(a, b[1:], acc + [b[0]])
    merge(A, B, [])
    cases = []
    for seq in out:
        # lock exclusion: X1..X3 of one task may not contain the other's X1
        pos = {x: i for i, x in enumerate(seq)}
        if pos['A1'] < pos['B1'] < pos['A3'] or pos['B1'] < pos['A1'] < pos['B3']:
            continue
        for change in ('update', 'register'):
            ops = [_upd('h1', 1, ('a.py', 1, 'old'))]
            queued, pre, hold = ['A'], [], []
            for x in seq:
                if x == 'C':
                    if change == 'update':
                        ops.append(_upd('h2', 2, ('a.py', 2, 'new')))
                    else:
                        ops.append({'op': 'register', 'path': 'a.py', 'line': 1, 'tag': 'w1', 'args': {}})
                    queued.append('B')
                    continue
                t, r = x[0], x[1]
                if r == '0':
                    ops.append({'op': 'taskStart', 'i': queued.index(t)})
                    queued.remove(t)
                    pre.append(t)
                elif r == '1':
                    ops.append({'op': 'taskRead', 'k': pre.index(t)})
                    pre.remove(t)
                    hold.append(t)
                elif r == '2':
                    ops.append({'op': 'taskCall', 'k': hold.index(t)})
                else:
                    ops.append({'op': 'taskInstall', 'k': hold.index(t)})
                    hold.remove(t)
            cases.append({'kind': 'seq', 'ops': ops})
    return cases


def gen(rng, tier):
    for c in two_task_schedules():
        yield c
    for c in svcref.preempt_cases():
        yield c
    k = 0
    while True:
        k += 1
        if k % 10 == 0:
            yield gen_timer(rng)
        elif k in (15, 215, 415, 615):
            yield svcref.gen_backlog(rng)           # SCALE: ops behind 1000..3000 queued tasks (a few per run)
        elif k % 9 == 4:
            yield gen_thread(rng)
        elif k % 50 == 7:
            yield race_case(rng)
        else:
            yield gen_seq(rng, tier)


def search(rng, tier):
    """when the tie broke: schedules that put two tasks in flight, out of order and racing for the lock"""
    k = 0
    while True:
        k += 1
        if k % 8 == 0:
            yield gen_timer(rng)
            continue
        if k % 40 == 5:
            yield svcref.gen_backlog(rng)
            continue
        if k % 8 == 3:
            yield gen_thread(rng)
            continue
        if k % 4 == 1:
            yield race_case(rng)
            continue
        s = svcref.Sched(rng)
        s.contention = k % 3 == 0
        for _ in range(rng.randint(2, 4)):
            rng.choice([s.update, s.update, s.register, s.unregister, s.nochange, s.fail, s.unknown])()
            if rng.random() < 0.5:
                s.start()
            if rng.random() < 0.3:
                s.read()
        if s.queued >= 2 and not s.holding and rng.random() < 0.5:
            s.apply(s.queued - 1)
        s.drain()
        yield {'kind': 'seq', 'ops': s.ops}


def _upd(h, ts, *tps):
    return {'op': 'poll', 'nc': False, 'rt': 1, 'ts': ts, 'hash': h,
            'tps': [{'path': p, 'line': l, 'tag': t, 'args': {}} for p, l, t in tps]}


def corpus():
    ap = lambda i: {'op': 'applyTask', 'i': i}   # noqa: E731
    return [
        # D15: two updates in flight, applied newest first
        {'kind': 'seq', 'ops': [_upd('h1', 1, ('a.py', 1, 'old')), _upd('h2', 2, ('a.py', 2, 'new')), ap(1), ap(0)]},
        # read / update / read blocked / install / read / install
        {'kind': 'seq', 'ops': [_upd('h1', 1, ('a.py', 1, 'old')), {'op': 'taskStart', 'i': 0}, {'op': 'taskRead', 'k': 0},
                                _upd('h2', 2, ('a.py', 2, 'new')), {'op': 'taskStart', 'i': 0}, {'op': 'taskRead', 'k': 0},
                                {'op': 'taskCall', 'k': 0}, {'op': 'taskInstall', 'k': 0}, {'op': 'taskRead', 'k': 0},
                                {'op': 'taskCall', 'k': 0}, {'op': 'taskInstall', 'k': 0}]},
        # a task parked in front of the lock while a newer update is applied completely (seeded C12-A)
        {'kind': 'seq', 'ops': [_upd('h1', 1, ('a.py', 1, 'old')), {'op': 'taskStart', 'i': 0},
                                _upd('h2', 2, ('a.py', 2, 'new')), ap(0), {'op': 'taskRead', 'k': 0},
                                {'op': 'taskCall', 'k': 0}, {'op': 'taskInstall', 'k': 0}]},
        # a registration arrives between the read of the polled configuration and the listener call
        {'kind': 'seq', 'ops': [_upd('h1', 1, ('a.py', 1, 's1')), {'op': 'taskStart', 'i': 0}, {'op': 'taskRead', 'k': 0},
                                {'op': 'register', 'path': 'a.py', 'line': 1, 'tag': 'w1', 'args': {}},
                                {'op': 'taskCall', 'k': 0},
                                {'op': 'register', 'path': 'a.py', 'line': 1, 'tag': 'w2', 'args': {}},
                                {'op': 'taskInstall', 'k': 0}, ap(0), ap(0)]},
        # a task blocked on the lock goes on by itself when the holder is done; its listener argument is evaluated at
        # its taskCall, before the unregister that follows (was a stale-arrival race in the bench, thorough seed 0)
        {'kind': 'seq', 'ops': [_upd('h1', 1, ('a.py', 1, 's1')),
                                {'op': 'register', 'path': 'b.py', 'line': 10, 'tag': 'w1', 'args': {}},
                                {'op': 'taskStart', 'i': 1}, {'op': 'taskRead', 'k': 0}, {'op': 'taskCall', 'k': 0},
                                {'op': 'taskStart', 'i': 0}, {'op': 'taskRead', 'k': 0},
                                {'op': 'pollFail', 'base': False, 'how': 'garbage'},
                                {'op': 'taskInstall', 'k': 0}, {'op': 'taskRead', 'k': 0}, {'op': 'taskCall', 'k': 0},
                                {'op': 'unregister', 'handle': 0}, {'op': 'taskInstall', 'k': 0}, ap(0)]},
        # an UPDATE with an empty configuration after a non-empty one: nothing from the service stays installed
        {'kind': 'seq', 'ops': [_upd('h1', 1, ('a.py', 1, 's1')), ap(0),
                                {'op': 'register', 'path': 'b.py', 'line': 10, 'tag': 'w1', 'args': {}}, ap(0),
                                _upd('h2', 2), ap(0)]},
        # D14: one tracepoint of the response cannot be interpreted
        {'kind': 'seq', 'ops': [{'op': 'poll', 'nc': False, 'rt': 1, 'ts': 1, 'hash': 'h1', 'tps': [
            {'path': 'a.py', 'line': 1, 'tag': 's1', 'args': {}},
            {'path': 'a.py', 'line': 2, 'tag': 's2', 'args': {}, 'interp': False},
            {'path': 'b.py', 'line': 3, 'tag': 's3', 'args': {}}]}, ap(0)]},
        # failures after a good configuration
        {'kind': 'seq', 'ops': [_upd('h1', 1, ('a.py', 1, 's1')), ap(0), {'op': 'pollFail', 'base': False, 'how': 'rpc'},
                                {'op': 'poll', 'nc': False, 'rt': 1, 'ts': 2, 'hash': 'h2', 'tps': [
                                    {'path': 'a.py', 'line': 2, 'tag': 's2', 'args': {}, 'conv': False}]},
                                {'op': 'poll', 'nc': True, 'rt': 0, 'ts': 3, 'hash': 'stray', 'tps': []},
                                {'op': 'pollFail', 'base': False, 'how': 'garbage'},
                                {'op': 'pollFail', 'base': False, 'how': 'bad_update'},
                                {'op': 'poll', 'nc': False, 'rt': 5, 'ts': 4, 'hash': '', 'tps': []}]},
        # failing polls whose exception has no arguments / cannot be rendered, then a good one
        {'kind': 'timer', 'interval': 0.01, 'script': [{'op': 'pollFail', 'base': False, 'how': 'noargs'},
                                                       {'op': 'pollFail', 'base': False, 'how': 'rpc_noargs'},
                                                       {'op': 'pollFail', 'base': False, 'how': 'badstr'},
                                                       {'op': 'pollFail', 'base': False, 'how': 'keyerror'},
                                                       _upd('h1', 1, ('a.py', 1, 's1'))]},
        # the poll thread: failures of every kind, an update, a BaseException ends it, later ticks do nothing
        {'kind': 'thread', 'interval': 0.05, 'evs': [
            {'ev': 'tick', 'op': {'op': 'pollFail', 'base': False, 'how': 'keyerror'}},
            {'ev': 'tick', 'op': {'op': 'pollFail', 'base': False, 'how': 'garbage'}},
            {'ev': 'tick', 'op': _upd('h1', 1, ('a.py', 1, 's1'))},
            {'ev': 'tick', 'op': {'op': 'poll', 'nc': False, 'rt': 7, 'ts': 2, 'hash': 'u', 'tps': []}},
            {'ev': 'tick', 'op': {'op': 'pollFail', 'base': True, 'how': 'systemexit'}},
            {'ev': 'tick', 'op': _upd('h2', 3, ('a.py', 2, 's2'))}]},
        # the shutdown window: flush closes the task handler, the next UPDATE is stored but its task is refused
        {'kind': 'thread', 'interval': '0.05', 'evs': [
            {'ev': 'tick', 'op': _upd('h1', 1, ('a.py', 1, 's1'))}, {'ev': 'flush'},
            {'ev': 'tick', 'op': {'op': 'poll', 'nc': True, 'rt': 0, 'ts': 2, 'hash': '', 'tps': []}},
            {'ev': 'tick', 'op': _upd('h2', 3, ('a.py', 2, 's2'))},
            {'ev': 'tick', 'op': _upd('h3', 4, ('a.py', 3, 's3'))}, {'ev': 'stop'}]},
        # POLL_TIMER 0 and inf: the loop test raises outside the try (labelled, not judged, compared with the model)
        {'kind': 'thread', 'interval': 0, 'evs': [{'ev': 'tick', 'op': _upd('h1', 1, ('a.py', 1, 's1'))}, {'ev': 'stop'}]},
        {'kind': 'thread', 'interval': 'inf', 'evs': [{'ev': 'tick', 'op': _upd('h1', 1, ('a.py', 1, 's1'))}]},
        # a failure before the send: no request reaches the stub, the thread goes on
        {'kind': 'thread', 'interval': 0.05, 'evs': [
            {'ev': 'tick', 'op': {'op': 'pollFail', 'base': False, 'how': 'metadata'}},
            {'ev': 'tick', 'op': _upd('h1', 1, ('a.py', 1, 's1'))},
            {'ev': 'tick', 'op': {'op': 'pollFail', 'base': False, 'how': 'metadata'}}]},
        # shutdown stops the polling
        {'kind': 'thread', 'interval': 3, 'evs': [
            {'ev': 'tick', 'op': _upd('h1', 1, ('a.py', 1, 's1'))}, {'ev': 'stop'},
            {'ev': 'tick', 'op': _upd('h2', 3, ('a.py', 2, 's2'))}, {'ev': 'stop'}]},
        # SCALE: an update and a registration behind 1100 queued tasks
        {'kind': 'backlog', 'n': 1100, 'ops': [_upd('h1', 1, ('a.py', 1, 's1')),
                                               {'op': 'register', 'path': 'a.py', 'line': 1, 'tag': 'w1', 'args': {}}]},
        # D23: text interval
        {'kind': 'timer', 'interval': '0.01', 'script': [{'op': 'pollFail', 'base': False, 'how': 'rpc'},
                                                         _upd('h1', 1, ('a.py', 1, 's1'))]},
    ]


# --------------------------------------------------------------------------------------- implementation
class ScriptChannel(svcbench.FakeChannel):
    def __init__(self, script):
        super().__init__()
        self.pending = list(script)

    def script(self):
        if not self.pending:
            return ('resp', svcbench.make_response({'op': 'poll', 'nc': True, 'rt': 0, 'tps': []}))
        op = self.pending.pop(0)
        if op['op'] == 'poll':
            return ('resp', svcbench.make_response(op))
        if op.get('how') in ('garbage', 'bad_update'):
            return ('resp', svcbench.garbage_response(op.get('how')))
        return ('raise', svcbench.poll_failure(op.get('how')))


def run_timer(case):
    b = svcbench.SvcBench(poll_timer=case['interval'])
    ch = ScriptChannel(case['script'])
    b.channel = ch
    b.deep.grpc.channel = ch
    n = len(case['script'])
    old_hook = threading.excepthook
    threading.excepthook = lambda a: None      # a dying timer thread is an observation, not noise
    obs = {}
    try:
        try:
            b.deep.poll.start()
        except BaseException as e:  # noqa: B902
            obs['start_raised'] = f'{type(e).__name__}: {e}'
        timer = b.deep.poll.timer
        deadline = time.time() + svcbench.WAIT
        while ch.calls < n + 1 and timer is not None and timer.thread.is_alive() and time.time() < deadline:
            time.sleep(0.002)
        alive = bool(timer is not None and timer.thread.is_alive())
        if alive and ch.calls < n + 1:
            raise core.Infra('poll timer alive but made only %d of %d polls in %s s' % (ch.calls, n + 1, svcbench.WAIT))
        obs['alive'] = alive
        obs['polls_made'] = min(ch.calls, n + 1)
        try:
            b.deep.poll.shutdown()
        except BaseException as e:  # noqa: B902
            obs['shutdown_raised'] = f'{type(e).__name__}: {e}'
        obs['hashes'] = list(ch.hashes[:n + 1])
        while b.exec.waiting():
            b.do({'op': 'applyTask', 'i': 0})
        obs['final'] = b.snapshot()
        return obs
    finally:
        threading.excepthook = old_hook
        b.close()


def run_impl(case):
    if case['kind'] == 'timer':
        return run_timer(case)
    if case['kind'] == 'preempt':
        return svcbench.run_preempt(case)
    if case['kind'] == 'backlog':
        return svcbench.run_backlog(case)
    if case['kind'] == 'thread':
        return svcbench.run_thread(case)
    return svcbench.run_ops(case['ops'])


# --------------------------------------------------------------------------------------- judging
STATE_KEYS = ('hash', 'polled', 'installed', 'custom', 'queued', 'pre', 'holding')


def oracle_seq(case, obs):
    v = []
    ref = svcref.Reference()
    prev = {'hash': None, 'polled': [], 'installed': [], 'custom': [], 'queued': 0, 'pre': 0, 'holding': 0}
    for n, (op, t) in enumerate(zip(case['ops'], obs['trace'])):
        k = op['op']
        what = f'op {n} ({k})'
        sent = svcref.norm_hash(ref.latest_hash)
        good_update = (k == 'poll' and op.get('rt', 1) == 1)
        inert = (k == 'pollFail') or (k == 'poll' and not good_update)
        if k in ('poll', 'pollFail'):
            if t.get('req_hash') != sent:
                v.append(f'{what}: the poll reported hash {t.get("req_hash")!r}; the last configuration received has '
                         f'hash {sent!r}')
            if good_update and 'poll_raised' in t:
                v.append(f'{what}: an intelligible update was rejected: poll raised {t["poll_raised"]}')
            if k == 'poll' and op.get('rt', 1) == 0 and 'poll_raised' in t:
                v.append(f'{what}: NO_CHANGE answer made poll raise {t["poll_raised"]}')
            if k == 'poll' and 'poll_raised' in t and t['poll_raised'] not in ('ValueError', 'AttributeError',
                                                                               'TypeError'):
                v.append(f'{what}: poll died of {t["poll_raised"]}, which the timer loop does not survive')
        if 'raised' in t or 'task_raised' in t:
            v.append(f'{what}: raised {t.get("raised") or t.get("task_raised")}')
        ref.apply(op)
        if inert:
            changed = [key for key in STATE_KEYS if t[key] is not None and prev[key] is not None and t[key] != prev[key]]
            if changed:
                kind = 'NO_CHANGE answer' if (k == 'poll' and op.get('rt', 1) == 0) else \
                    'answer of unknown type %s' % op.get('rt') if (k == 'poll' and op.get('rt', 1) != 1) else \
                    'failed/unintelligible poll'
                v.append(f'{what}: {kind} changed {changed}: ' +
                         '; '.join(f'{key} {prev[key]} -> {t[key]}' for key in changed)[:300])
        if svcref.norm_hash(t['hash']) != svcref.norm_hash(ref.latest_hash):
            v.append(f'after {what}: current hash {t["hash"]!r}, the last configuration received has '
                     f'{ref.latest_hash!r}')
        if t['queued'] == 0 and t['pre'] == 0 and t['holding'] == 0 and sorted(t['installed']) != ref.expected():
            v.append(f'after {what}, nothing in flight: stale configuration installed after quiescence: installed {sorted(t["installed"])}; latest configuration + '
                     f'live registrations = {ref.expected()}')
        prev = t
        if len(v) >= 4:
            break
    return v


def oracle_timer(case, obs):
    v = []
    n = len(case['script'])
    for key in ('start_raised', 'shutdown_raised'):
        if key in obs:
            v.append(f'{key}: {obs[key]}')
    if not obs.get('alive'):
        v.append(f'the poll timer thread (interval {case["interval"]!r}) died after {obs.get("polls_made")} of '
                 f'{n + 1} polls')
    ref = svcref.Reference()
    want = []
    for op in case['script']:
        want.append(svcref.norm_hash(ref.latest_hash))
        ref.apply(op)
    want.append(svcref.norm_hash(ref.latest_hash))
    got = obs.get('hashes', [])
    if obs.get('alive') and got != want:
        v.append(f'hashes reported by successive polls {got}, expected {want}')
    if obs.get('alive') and sorted(obs['final']['installed']) != ref.expected():
        v.append(f'after the script and all apply tasks: installed {sorted(obs["final"]["installed"])}, expected '
                 f'{ref.expected()}')
    return v


def _is_base(ev):
    return ev['ev'] == 'tick' and ev['op']['op'] == 'pollFail' and bool(ev['op'].get('base'))


def oracle_thread(case, obs):
    """the statement on the real poll thread: while the agent is running (its task handler accepts work, shutdown was
    not called, no BaseException was thrown into the poll), every tick issues a poll that reports the hash of the last
    configuration received; whatever the outcome, the thread is still polling afterwards and the stored configuration is
    the last good one."""
    v = []
    if obs.get('skipped') or obs.get('bench_error'):
        return v
    ref = svcref.Reference()
    running = not interval_unusable(case['interval'])    # POLL_TIMER 0 / inf: the thread never polls (probe + note)
    stopped = False
    issued = 0
    for n, (ev, t) in enumerate(zip(case['evs'], obs['trace'])):
        what = f'event {n} ({ev["ev"]}{" " + ev["op"]["op"] if ev["ev"] == "tick" else ""})'
        if 'raised' in t:
            v.append(f'{what}: raised {t["raised"]}')
        if ev['ev'] == 'stop' or stopped:
            # LongPoll.shutdown() ("Shutdown the timer"): the thread ends without another poll and stays silent
            if t['alive']:
                v.append(f'{what}: LongPoll.shutdown() was called and the poll thread is still running')
            if t['issued'] != issued:
                v.append(f'{what}: {t["issued"] - issued} poll request(s) made during/after LongPoll.shutdown()')
            stopped = True
        if ev['ev'] != 'tick':
            running = False           # flush / shutdown: the agent is going down, the statement is silent from here
            issued = t['issued']
            continue
        if not running:
            issued = t['issued']
            continue
        op = ev['op']
        sent = svcref.norm_hash(ref.latest_hash)
        if op.get('how') == 'metadata':
            pass      # the failure comes before the send: whether a request was made is compared with the model
        elif t['issued'] != issued + 1:
            v.append(f'{what}: the poll thread made {t["issued"] - issued} request(s) in this pass of its loop, expected 1')
        elif svcref.norm_hash(t['sent'][-1]) != sent:
            v.append(f'{what}: the poll reported hash {t["sent"][-1]!r}; the last configuration received has {sent!r}')
        issued = t['issued']
        ref.apply(op)
        if svcref.norm_hash(t['hash']) != svcref.norm_hash(ref.latest_hash):
            v.append(f'after {what}: current hash {t["hash"]!r}, the last configuration received has '
                     f'{ref.latest_hash!r}')
        if sorted(t['polled']) != sorted(ref.latest):
            v.append(f'after {what}: configuration held {sorted(t["polled"])}, the last good one is {sorted(ref.latest)}')
        if _is_base(ev):
            running = False           # not a "failed poll": the loop is not expected to survive it
            continue
        if not t['alive']:
            v.append(f'{what}: polling stopped — the poll thread died ({t.get("died")}) of an outcome it must survive')
            running = False
        if len(v) >= 4:
            break
    iv = obs.get('interval')
    for x in ([] if interval_unusable(case['interval']) else obs.get('timeouts', [])):
        if not (isinstance(x, (int, float)) and 0 < x <= iv + 1e-9):
            v.append(f'the timer waited with timeout {x!r}; interval is {iv!r}')
            break
    return v


def oracle(case, obs):
    if case['kind'] == 'backlog':
        return svcref.backlog_oracle(case, obs)
    if case['kind'] == 'thread':
        return oracle_thread(case, obs)
    if case['kind'] == 'preempt':
        return svcref.preempt_oracle(case, obs)
    return oracle_timer(case, obs) if case['kind'] == 'timer' else oracle_seq(case, obs)


def timer_model_ops(case):
    text = isinstance(case['interval'], str)
    ops = [{'op': 'timerStart', 'text': text}] + svcref.driver_ops(case['script'])
    ref = svcref.Reference()
    for op in case['script']:
        ref.apply(op)
    ops += [{'op': 'applyTask', 'i': 0}] * len(ref.updates)
    return ops


def thread_model_evs(case):
    out = [{'ev': 'testFails'}] if interval_unusable(case['interval']) else []
    for ev in case['evs']:
        if ev['ev'] != 'tick':
            out.append({'ev': ev['ev']})
            continue
        op = ev['op']
        d = svcref.driver_ops([op])[0]
        if op['op'] == 'poll':
            out.append({'ev': 'tick', 'out': 'answer', 'rt': d['rt'], 'ts': d['ts'], 'hash': d['hash'], 'tps': d['tps']})
        elif op.get('how') in ('garbage', 'bad_update'):
            out.append({'ev': 'tick', 'out': 'garbage', 'tps': []})
        elif op.get('how') == 'metadata':
            out.append({'ev': 'tick', 'out': 'before_send', 'base': False, 'tps': []})
        else:
            out.append({'ev': 'tick', 'out': 'raises', 'base': bool(op.get('base')), 'tps': []})
    return out


def compare_thread(case, obs, resp):
    if 'error' in resp:
        return ['model error: ' + resp['error']]
    if obs.get('skipped'):
        return []
    if obs.get('bench_error'):
        return ['the bench could not run the case on this implementation: ' + obs['bench_error']]
    d = []
    if len(resp['trace']) != len(obs['trace']) + (1 if interval_unusable(case['interval']) else 0):
        return [f'trace length: model {len(resp["trace"])} vs implementation {len(obs["trace"])}']
    mtrace = resp['trace'][1:] if interval_unusable(case['interval']) else resp['trace']
    for n, (ev, m, i) in enumerate(zip(case['evs'], mtrace, obs['trace'])):
        what = f'event {n} {ev["ev"]}'
        for key in ('alive', 'issued', 'queued', 'died'):
            if m[key] != i[key]:
                d.append(f'{what}: {key} model {m[key]!r} vs implementation {i[key]!r}')
        if i.get('handler_open') is not None and m['handler_open'] != i['handler_open']:
            d.append(f'{what}: task handler open model {m["handler_open"]} vs implementation {i["handler_open"]}')
        if [svcref.norm_hash(x) for x in m['sent']] != [svcref.norm_hash(x) for x in i['sent']]:
            d.append(f'{what}: hashes sent model {m["sent"]} vs implementation {i["sent"]}')
        if svcref.norm_hash(m['hash']) != svcref.norm_hash(i['hash']):
            d.append(f'{what}: hash model {m["hash"]!r} vs implementation {i["hash"]!r}')
        if sorted(m['polled']) != sorted(i['polled']):
            d.append(f'{what}: polled model {sorted(m["polled"])} vs implementation {sorted(i["polled"])}')
        if len(d) >= 4:
            break
    return d


def model_request(case, obs):
    if case['kind'] == 'backlog':
        return svcref.backlog_request(case)
    if case['kind'] == 'thread':
        return {'evs': thread_model_evs(case)}
    if case['kind'] == 'preempt':
        return None          # the model has no regions inside update_new_config / add_custom / remove_custom
    if case['kind'] == 'timer':
        return {'ops': timer_model_ops(case)}
    return {'ops': svcref.driver_ops(case['ops'])}


def compare(case, obs, resp):
    if case['kind'] == 'backlog':
        return svcref.backlog_compare(case, obs, resp)
    if case['kind'] == 'thread':
        return compare_thread(case, obs, resp)
    if case['kind'] == 'seq':
        return svcref.compare_traces(case['ops'], obs, resp)
    if 'error' in resp:
        return ['model error: ' + resp['error']]
    d = []
    last = resp['trace'][-1]
    if last['timer_alive'] != obs.get('alive'):
        d.append(f'timer alive: model {last["timer_alive"]} vs implementation {obs.get("alive")}')
    if obs.get('alive'):
        mh = [svcref.norm_hash(t['req_hash']) for t in resp['trace'] if 'req_hash' in t] + [svcref.norm_hash(last['hash'])]
        if mh != obs['hashes']:
            d.append(f'hashes sent: model {mh} vs implementation {obs["hashes"]}')
        for key in ('installed', 'polled'):
            if sorted(last[key]) != sorted(obs['final'][key]):
                d.append(f'final {key}: model {sorted(last[key])} vs implementation {sorted(obs["final"][key])}')
    return d


def _reordered(case):
    """apply tasks ran in an order other than submission order, or a read and its install were separated"""
    ops = case['ops']
    for i, o in enumerate(ops):
        if o['op'] in ('applyTask', 'taskStart') and o['i'] > 0:
            return True
        if o['op'] in ('taskStart', 'taskRead', 'taskCall') and i + 1 < len(ops) and \
                ops[i + 1]['op'] not in ('taskRead', 'taskCall', 'taskInstall'):
            return True
    return False


def _fail_after_good(case):
    ref = svcref.Reference()
    for o in case['ops']:
        bad = o['op'] == 'pollFail' or (o['op'] == 'poll' and o.get('rt', 1) != 1)
        if bad and ref.latest_hash is not None:
            return True
        ref.apply(o)
    return False


def label(case, obs):
    if case['kind'] == 'backlog':
        return 'scale/backlog-%s' % ('1000+' if case['n'] >= 1000 else 'small')
    if case['kind'] == 'preempt':
        return 'preempt/%s-vs-%s/%s' % (case['victim']['op'], case['intruder']['op'],
                                        'parked' if obs.get('reached') else 'beyond-last-line')
    if case['kind'] == 'timer':
        return 'timer/' + ('text' if isinstance(case['interval'], str) else 'number')
    if case['kind'] == 'thread':
        parts = ['thread']
        if interval_unusable(case['interval']):
            parts.append('interval-unusable')
        if any(_is_base(e) for e in case['evs']):
            parts.append('base-exception')
        if any(e['ev'] == 'flush' for e in case['evs']):
            parts.append('flush')
        if any(e['ev'] == 'stop' for e in case['evs']):
            parts.append('stop')
        tr = obs.get('trace') or [{}]
        parts.append('alive' if tr[-1].get('alive') else 'ended')
        return '/'.join(parts)
    ks = [o['op'] for o in case['ops']]
    t = obs['trace']
    parts = (['degraded'] if obs.get('degraded') else []) + ['reordered' if _reordered(case) else 'in-order']
    if any(o['op'] == 'taskRead' and not r.get('moved') for o, r in zip(case['ops'], t)):
        parts.append('lock-contended')
    if _fail_after_good(case):
        parts.append('inert-poll-after-config')
    parts.append('settled' if t and t[-1]['queued'] == 0 and t[-1]['pre'] == 0 and t[-1]['holding'] == 0 else 'in-flight')
    if 'register' in ks or 'unregister' in ks:
        parts.append('custom')
    return '/'.join(parts)


def nontrivial(case, obs):
    if case['kind'] == 'backlog':
        return True
    if case['kind'] == 'preempt':
        return bool(obs.get('reached'))
    if case['kind'] == 'timer':
        return True
    if case['kind'] == 'thread':
        return len(obs.get('trace') or []) > 0 and not obs.get('skipped')
    return _reordered(case) or _fail_after_good(case)


def shrink(case):
    if case['kind'] == 'backlog':
        for i in range(len(case['ops']) - 1, -1, -1):
            if len(case['ops']) > 1 and case['ops'][i]['op'] != 'register':
                yield dict(case, ops=case['ops'][:i] + case['ops'][i + 1:])
        return
    if case['kind'] == 'preempt':
        return
    if case['kind'] == 'thread':
        evs = case['evs']
        for i in range(len(evs)):
            if len(evs) > 1:
                yield {'kind': 'thread', 'interval': case['interval'], 'evs': evs[:i] + evs[i + 1:]}
        return
    if case['kind'] == 'timer':
        sc = case['script']
        for i in range(len(sc)):
            yield {'kind': 'timer', 'interval': case['interval'], 'script': sc[:i] + sc[i + 1:]}
        return
    ops = case['ops']
    for n in range(len(ops) - 1, 0, -1):
        yield {'kind': 'seq', 'ops': ops[:n]}
    for i in range(len(ops)):
        if ops[i]['op'] != 'register':
            yield {'kind': 'seq', 'ops': ops[:i] + ops[i + 1:]}
