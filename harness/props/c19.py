"""C19 — configuration resolution: precedence, environment text, application frames, short paths, poll interval."""
import json
import os
import shutil
import subprocess
import sys
import threading
import time
import types

import core

ID = 'C19'
EXTRACT = ['config']
LEAN_TARGETS = ['DeepModel.Props.C19']
AUDIT = 'DeepModel/Audit/C19.lean'
DRIVER = 'DeepModel/Driver/C19.lean'
BUDGET = {'quick': 1400, 'thorough': 12000}
TIME = {'quick': 60, 'thorough': 800}
RULE = ('lookup: a FRESH interpreter per case (module defaults are read from the environment at import) under a '
        'generated os.environ (DEEP_<documented key> texts, DEEP_<unknown>, unrelated variables) x a generated code '
        'dict (text, numbers, bools, None, lists, callables of every kind: def, lambda, bound method, classmethod, '
        'staticmethod, functools.partial, class, instance with __call__, builtin function, builtin method, raising; foreign objects) over all documented keys, PLUGINS, unknown '
        'keys and names the object has of its own; ~12 lookups per interpreter, through ConfigService(custom) or through '
        'the real deep.start (APP_ROOT from code / DEEP_APP_ROOT / calculated from the calling file), plus is_app_frame / '
        'parse_short_name on generated paths and, in a third of the cases, LongPoll.start with the resolved POLL_TIMER '
        '(thread liveness, ticks for small intervals). frame: in-process, generated absolute/relative paths x '
        'include/exclude/app-root sets given as code lists or as DEEP_IN_APP_INCLUDE/EXCLUDE text (nested prefixes, '
        'prefixes of prefixes, the interpreter prefix, empty strings, path texts not in normal form — trailing slash, //, . '
        'and .. components — with probe files such as <root>2/x.py; the same texts for APP_ROOT from code and from '
        'DEEP_APP_ROOT through deep.start). timer: RepeatedTimer with the interval as '
        'number or text. d30: IN_APP_INCLUDE/EXCLUDE given in code as the documented comma separated str (known '
        'finding stream). scale: 17-200 include/exclude prefixes with nested and sibling prefixes (code lists or DEEP_IN_APP_* text), '
        'probe files under a parent prefix that sort after one of its nested prefixes. use: every DOCUMENTED setting (enumerated from the doc table; IN_APP_EXCLUDE / APP_ROOT have their own '
        'streams) at its USE SITE — GRPCService.start channel kind and target, LongPoll.start timer, logging.init file, '
        'AuthProvider.get_provider, is_app_frame — given in code as the native value (bool, int, float, list) and as '
        'DEEP_<KEY> text (deep.config re-imported), both routes must make the consumer do the same; third route: the native '
        'value in code AND a DIFFERENT text in DEEP_<KEY> (a consumer reading the environment itself shows up). seq: 2-4 frame configurations one after the other in the SAME (fresh) interpreter over the same files, '
        'each step judged by its own configuration (self-contained replays for process-lifetime state). ga: ConfigService.__getattribute__ alone, in-process — code dict of 0–6 entries over module settings, '
        'unknown names, names the object has of its own and dunders (None, plain values, callables of every kind), an object '
        'whose custom dict is None (a fifth), DEEP_<name> for names the module does not have; ~14 names read per case. '
        'Non-trivial = a level below "code" decided / an exclusion or inclusion matched / the timer '
        'ticked. Distinct = distinct canonical JSON.')
TRUSTED = ['os.getenv / process environment; inspect.stack()[1].filename = the file that calls deep.start',
           'float(text) for the interval texts used; Py.parseInt for integer texts in the model',
           'str.startswith, str.split for one-character separators']
ASSUMPTIONS = ['names the object has of its own are its methods, properties and the attributes __init__ sets (attributes set '
               'later are own too: outside the generated objects); property getters return, except in the labelled '
               'ga/own-getter-* stream',
               'code-given IN_APP_INCLUDE / IN_APP_EXCLUDE are lists of str (the documented comma separated str form is '
               'the known finding C19/include-string-in-code)',
               'with include/exclude from the environment the interpreter prefix (sys.exec_prefix) is an additional '
               'exclude prefix, as deep.config appends it; a code-given exclude list is used as given',
               'an empty DEEP_APP_ROOT counts as unset; a code-given None counts as not given',
               'logging.init (use site of LOGGING_CONF) is replaced by a no-op when deep.start is driven']

PY = '/venv/bin/python'
_DOCUMENTED_PINNED = ['SERVICE_URL', 'SERVICE_SECURE', 'LOGGING_CONF', 'POLL_TIMER', 'SERVICE_AUTH_PROVIDER', 'IN_APP_INCLUDE',
              'IN_APP_EXCLUDE', 'APP_ROOT']
# docs/config/config.md: Default column
_DOC_DEFAULT_PINNED = {'SERVICE_URL': {'s': 'deep:43315'}, 'SERVICE_SECURE': {'s': 'True'}, 'LOGGING_CONF': None,
                       'POLL_TIMER': {'i': 10}, 'SERVICE_AUTH_PROVIDER': None}


def doc_table():
    """(documented keys, documented defaults) enumerated from the settings table of docs/config/config.md of the
    tree under test (Key and Default columns) — the pinned copies above are only the fallback for a tree without docs."""
    import re
    try:
        with open(os.path.join(core.REPO, 'docs/config/config.md'), encoding='utf-8') as f:
            rows = re.findall(r'^\|\s*([A-Z][A-Z0-9_]+)\s*\|\s*([^|]*?)\s*\|', f.read(), flags=re.M)
    except OSError:
        rows = []
    if not rows:
        return list(_DOCUMENTED_PINNED), dict(_DOC_DEFAULT_PINNED)
    keys, dflt = [], {}
    for k, d in rows:
        keys.append(k)
        if k in ('IN_APP_INCLUDE', 'IN_APP_EXCLUDE') or d == 'Calculated':
            continue        # list-valued / derived settings: judged by their own rules (ref_lookup)
        dflt[k] = None if d == 'None' else ({'i': int(d)} if d.lstrip('-').isdigit() else {'s': d})
    return keys, dflt


DOCUMENTED, DOC_DEFAULT = doc_table()
UNKNOWN = ['MY_KEY', 'UNKNOWN_A', 'SERVICE_TIMEOUT', 'lower_key', 'APP_ROOTS']
BOOL_KEYS = ['SERVICE_SECURE', 'PLUGIN_X', 'PLUGIN_Y']      # read through str2bool at their use sites
DUNDERS = ['__hash__', '__class__', '__doc__', '__module__', '__name__', '__file__', '__str__']
TRUTHY = ('yes', 'true', 't', '1', 'y')                    # docstring of str2bool
PXASYM = 'C19/exclude-list-in-code-without-interpreter-prefix'
OWN = ['plugins', 'resource', '_plugins', 'is_app_frame', 'tracepoints']
D30 = 'C19/include-string-in-code'
BASE = f'/tmp/verif_c19_{os.getpid()}'

# --------------------------------------------------------------------------------------- values
TEXTS = ['x', 'deep:43315', 'host:1', 'False', 'True', '', ' spaced ', 'a,b', '10', 'é']


def g_cval(rng, depth=0):
    r = rng.random()
    if r < 0.35:
        return {'s': rng.choice(TEXTS)}
    if r < 0.5:
        return {'i': rng.choice([0, 1, 10, -3, 10000])}
    if r < 0.58:
        return {'b': rng.random() < 0.5}
    if r < 0.64:
        return {'f': rng.choice(['0.5', '2.0', '0.0'])}
    if r < 0.74:
        return None
    if r < 0.82:
        return {'l': [{'s': rng.choice(['/a', '/b/c', 'x'])} for _ in range(rng.choice([0, 1, 2]))]}
    if r < 0.95 and depth == 0:
        return g_callable(rng, g_cval(rng, 1))
    return {'o': 'object'}


CALLABLE_KINDS = ['lambda', 'def', 'method', 'classmethod', 'static', 'partial', 'class', 'instance', 'builtin',
                  'builtin_method', 'raise']


def g_callable(rng, ret, may_raise=True):
    """a callable of one of the kinds Python has, returning `ret` when called without arguments (may_raise=False:
    the result matters to a use site — the kinds whose result the generator cannot choose are left out)"""
    ck = rng.choice(CALLABLE_KINDS if may_raise else [c for c in CALLABLE_KINDS if c not in ('raise', 'builtin')])
    if ck == 'builtin':
        ret = {'s': 'utf-8'}                    # sys.getdefaultencoding
    elif ck == 'builtin_method' and not (isinstance(ret, dict) and ('s' in ret or 'i' in ret or 'f' in ret or 'l' in ret)
                                         and '{' not in str(ret.get('s', ''))):
        ck = 'instance'
    elif ck == 'raise':
        ret = None
    return {'call': ret, 'ck': ck}


PY_MK = r'''
def mk(v):
    if v is None:
        return None
    if 's' in v:
        return v['s']
    if 'i' in v:
        return v['i']
    if 'b' in v:
        return v['b']
    if 'f' in v:
        return float(v['f'])
    if 'l' in v:
        return [mk(x) for x in v['l']]
    if 'call' in v:
        import functools
        import sys
        r = mk(v['call'])
        ck = v.get('ck', 'lambda')
        if ck == 'def':
            def f():
                return r
            return f
        if ck in ('method', 'classmethod', 'static'):
            class C:
                def m(self):
                    return r

                @classmethod
                def g(cls):
                    return r

                @staticmethod
                def h():
                    return r
            return {'method': C().m, 'classmethod': C.g, 'static': C.h}[ck]
        if ck == 'partial':
            return functools.partial(lambda x: x, r)
        if ck == 'class':
            class K:
                def __new__(cls):
                    return r
            return K
        if ck == 'instance':
            class I:
                def __call__(self):
                    return r
            return I()
        if ck == 'builtin':
            return sys.getdefaultencoding
        if ck == 'builtin_method':
            return r.format if isinstance(r, str) else (r.copy if isinstance(r, list) else r.conjugate)
        if ck == 'raise':
            def boom():
                raise ValueError('config callable failed')
            return boom
        return lambda r=r: r
    return object()


def enc(v, base=None):
    if v is None:
        return None
    if isinstance(v, bool):
        return {'b': v}
    if isinstance(v, int):
        return {'i': v}
    if isinstance(v, float):
        return {'f': repr(v)}
    if isinstance(v, str):
        return {'s': v}
    if isinstance(v, list):
        return {'l': [enc(x, base) for x in v]}
    return {'o': 'callable' if callable(v) else type(v).__name__}


class Stub:
    def __init__(self, cfg):
        self.cfg = cfg

    def is_app_frame(self, filename):
        return self.cfg.is_app_frame(filename)


def collector_source(cfg):
    """what FrameCollector asks in production: the snapshot action context of a trigger under this configuration
    (its is_app_frame is the route every collected StackFrame takes); the bare stub only if it cannot be built"""
    try:
        import types as _t
        from deep.processor.context.snapshot_action import SnapshotActionContext
        src = SnapshotActionContext(_t.SimpleNamespace(config=cfg, ts=0, frame=None), _t.SimpleNamespace(config={}))
        src.is_app_frame
        return src
    except Exception:
        return Stub(cfg)


def frames(cfg, files, base=None):
    from deep.processor.frame_collector import FrameCollector
    out = []
    src = collector_source(cfg)
    for f in files:
        try:
            app, m = cfg.is_app_frame(f)
            short, app2 = FrameCollector(src, None).parse_short_name(f)
            out.append({'app': app, 'match': enc(m, base)['s'] if m is not None else None,
                        'short': enc(short, base)['s'], 'short_app': app2})
        except Exception as e:
            out.append({'raised': type(e).__name__})
    return out
'''
exec(PY_MK)     # mk / enc / frames are used in-process too

LOOKUP_SCRIPT = PY_MK + r'''
import sys, json, os, time, logging
logging.disable(logging.CRITICAL)
case = json.loads(sys.stdin.read())
base = case['base']
custom = {k: mk(v) for k, v in case['custom']}
out = {}
try:
    import deep
    import deep.logging
    if case['start']:
        class Rec:
            def __init__(self, cfg):
                self.config = cfg

            def start(self):
                pass
        deep.Deep = Rec
        deep.logging.init = lambda cfg=None: None
        cfg = deep.start(custom if (custom or not case.get('none_config')) else None).config
    else:
        from deep.config import ConfigService
        from deep.config.tracepoint_config import TracepointConfigService
        cfg = ConfigService(custom, tracepoints=TracepointConfigService())
    vals = []
    for n in case['names']:
        try:
            vals.append(enc(getattr(cfg, n), base))
        except Exception as e:
            vals.append({'raised': type(e).__name__})
    out['values'] = vals
    out['frames'] = frames(cfg, case['files'], base)
    out['exec_prefix'] = sys.exec_prefix
    # use sites of the boolean settings: GRPCService.start (SERVICE_SECURE) and Plugin.is_active (PLUGIN_<NAME>)
    try:
        import deep.grpc.grpc_service as gsm
        chosen = []
        gsm.grpc.secure_channel = lambda *a, **k: chosen.append('secure')
        gsm.grpc.insecure_channel = lambda *a, **k: chosen.append('insecure')
        gsm.grpc.ssl_channel_credentials = lambda *a, **k: None
        gsm.GRPCService(cfg).start()
        out['secure'] = chosen == ['secure']
    except Exception as e:
        out['secure'] = {'raised': '%s: %s' % (type(e).__name__, e)}
    from deep.api.plugin import Plugin
    out['active'] = []
    for n in case.get('plugin_probes', []):
        try:
            out['active'].append(bool(Plugin(name=n, config=cfg).is_active()))
        except Exception as e:
            out['active'].append({'raised': '%s: %s' % (type(e).__name__, e)})
    if case.get('timer'):
        from deep.poll.poll import LongPoll
        ticks = []
        lp = LongPoll(cfg, None)
        lp.poll = lambda: ticks.append(time.time())
        try:
            lp.start()
            iv = lp.timer.interval
            small = isinstance(iv, (int, float)) and 0 < iv <= 0.25
            t0 = time.time()
            while time.time() - t0 < (20 if small else 0.3):
                if not lp.timer.thread.is_alive() or (small and len(ticks) >= 3):
                    break
                time.sleep(0.01)
            out['timer'] = {'alive': lp.timer.thread.is_alive(), 'ticks': len(ticks), 'interval': repr(iv),
                            'small': small}
            if lp.timer.thread.is_alive():
                lp.shutdown()
        except Exception as e:
            out['timer'] = {'raised': '%s: %s' % (type(e).__name__, e)}
except Exception as e:
    import traceback
    out['raised'] = '%s: %s' % (type(e).__name__, e)
    out['tb'] = traceback.format_exc()[-600:]
print('\n@@' + json.dumps(out))
'''

# --------------------------------------------------------------------------------------- generation
DIRS = ['/app', '/app/src', '/app/src/vendor', '/opt/shared', '/srv/x', '/app2', '/', '/usr/lib/python3']
# path texts that are not in normal form: the agent compares prefixes as text, so they must be used as written,
# identically from code and from the environment
RAW_DIRS = ['/srv/app/', '/srv//app', '/srv/./app', '/srv/x/../app', '/app/', '/opt/shared/', '/app/src/.', '//app']
RAW_PROBES = ['/srv/app/main.py', '/srv/app2/x.py', '/srv/application/other.py', '/srv//app/m.py', '/srv/./app/m.py',
              '/srv/x/../app/m.py', '/srv/x/y.py', '/app/main.py', '/app2/x.py', '/opt/shared/m.py',
              '/opt/sharedness/z.py', '/app/src/a.py', '/app/src/./b.py', '//app/c.py']
FILES = ['/app/main.py', '/app/src/a.py', '/app/src/vendor/lib/v.py', '/opt/shared/m.py', '/app2/x.py', '/appx.py',
         '/usr/lib/python3/os.py', 'relative/r.py', '/srv/x', '/srv/x/y.py', '<string>', '', '/opt/sharedness/z.py']


def g_paths(rng, n):
    out = []
    for _ in range(n):
        r = rng.random()
        if r < 0.45:
            out.append(rng.choice(FILES))
        elif r < 0.6:
            out.append(rng.choice(RAW_PROBES))
        elif r < 0.75:
            out.append('$PX/lib/python3.12/site-packages/p/q.py')
        elif r < 0.85:
            out.append(rng.choice(DIRS).rstrip('/') + '/' + rng.choice(['m.py', 'pkg/n.py', 'é.py']))
        else:
            out.append('$BASE/root/pkg/main.py')
    return out


def g_prefixes(rng):
    n = rng.choice([0, 0, 1, 1, 2, 3])
    ps = [rng.choice(DIRS + ['$PX', '/app/sr', '/opt'] + (RAW_DIRS if rng.random() < 0.3 else [])) for _ in range(n)]
    if rng.random() < 0.1:
        ps.append('')
    return ps


def g_frame(rng, d30=False, pxasym=False):
    """in-process: include/exclude as code lists or as environment text; APP_ROOT in code.
    pxasym: the separate stream of the finding candidate PXASYM — an exclude list given in code WITHOUT the interpreter
    prefix and probe files under it (elsewhere a code-given exclude list names the prefix itself)."""
    custom, env = [], {}
    root = rng.choice(DIRS[:6] + ['/nowhere', ''] + (RAW_DIRS if rng.random() < 0.3 else []))
    custom.append(['APP_ROOT', {'s': root}])
    for key in ('IN_APP_INCLUDE', 'IN_APP_EXCLUDE'):
        ps = g_prefixes(rng)
        r = rng.random()
        if d30 and (key == 'IN_APP_INCLUDE' or r < 0.5):
            custom.append([key, {'s': ','.join(ps) if ps else rng.choice(['/app', '/x,/y'])}])
        elif r < 0.4 or (pxasym and key == 'IN_APP_EXCLUDE'):
            extra = ['$PX'] if key == 'IN_APP_EXCLUDE' and not pxasym else []
            custom.append([key, {'l': [{'s': p} for p in [q for q in ps if not (pxasym and q == '$PX')] + extra]}])
        elif r < 0.85:
            if ps or rng.random() < 0.3:
                env['DEEP_' + key] = ','.join(ps)
        # else: neither
    files = g_paths(rng, rng.choice([3, 5, 8]))
    if pxasym:
        custom[0] = ['APP_ROOT', {'s': rng.choice(['/', '$PX', ''])}]
        files = files + ['$PX/lib/python3.12/site-packages/p/q.py']
    return {'kind': 'frame', 'custom': custom, 'env': env, 'files': files, 'd30': d30, 'pxasym': pxasym}


def g_frame_scale(rng, n=None):
    """SCALE: 17-200 include / exclude prefixes with nesting and siblings (/srv/mono/pkg000, /srv/mono/pkg000/core/impl,
    /srv/mono/pkg0001 …), given in code or through DEEP_IN_APP_*; probe files under a parent prefix but sorting AFTER one of
    its nested prefixes, under siblings, under nothing.  The statement is for every list, however long."""
    n = n or rng.choice([17, 24, 60, 200])
    base = ['/srv/mono/pkg%03d' % i for i in range(n)]
    nested = [b + '/core/impl' for b in rng.sample(base, max(2, n // 6))] + \
        [b + '1' for b in rng.sample(base, 2)] + [b + '/a' for b in rng.sample(base, 2)]
    pool = base + nested
    rng.shuffle(pool)
    incl = pool[:n]
    excl = rng.sample(nested + ['/srv/mono/pkg%03d/vendor' % i for i in range(n)], rng.choice([0, 3, 17, min(60, n)]))
    custom, env = [['APP_ROOT', {'s': rng.choice(['/nowhere', '/srv/mono', '/app'])}]], {}
    for key, ps in (('IN_APP_INCLUDE', incl), ('IN_APP_EXCLUDE', excl)):
        if rng.random() < 0.5:
            custom.append([key, {'l': [{'s': p} for p in ps + (['$PX'] if key == 'IN_APP_EXCLUDE' else [])]}])
        elif ps:
            env['DEEP_' + key] = ','.join(ps)
    files = []
    for b in rng.sample(base, 4):
        files += [b + '/core/x.py', b + '/core/impl/y.py', b + '/z.py', b + '/vendor/v.py', b + '12/w.py', b + '/b/q.py']
    files = rng.sample(files, 8) + ['/srv/mono/other/o.py', '/elsewhere/e.py']
    return {'kind': 'frame', 'custom': custom, 'env': env, 'files': files, 'd30': False, 'pxasym': False, 'scale': n}


def g_boolish(rng):
    """a boolean setting as people write it in code: real bools and numbers, text, None, a callable"""
    v = rng.choice([{'b': False}, {'b': True}, {'b': False}, {'s': 'False'}, {'s': 'True'}, {'s': 'true'}, {'s': 'yes'},
                    {'s': 'no'}, {'s': '0'}, {'s': '1'}, {'i': 0}, {'i': 1}, {'f': '1.0'}, None, {'s': ''}, {'s': 'T'}])
    return g_callable(rng, v, may_raise=False) if rng.random() < 0.12 else v


def g_lookup(rng):
    env, custom = {}, []
    keys = [k for k in DOCUMENTED if k not in ('IN_APP_INCLUDE', 'IN_APP_EXCLUDE')] + ['PLUGINS'] + UNKNOWN + \
        ['PLUGIN_X', 'PLUGIN_Y']
    start = rng.random() < 0.5
    for k in keys:
        r = rng.random()
        if r < 0.3:
            if k == 'POLL_TIMER':
                env['DEEP_' + k] = rng.choice(['1', '10', '0.05', ' 2 ', '0.1', '3', '10.5', '2.'])
            elif k == 'APP_ROOT':
                env['DEEP_' + k] = rng.choice(['/app', '/srv/x', '', '/app/src'] + RAW_DIRS)
            elif k in BOOL_KEYS:
                env['DEEP_' + k] = rng.choice(['False', 'True', 'true', 'false', '0', '1', 'no', 'y', 'T', '', ' false'])
            else:
                env['DEEP_' + k] = rng.choice(TEXTS)
        r = rng.random()
        if r < 0.3:
            if k == 'POLL_TIMER':
                v = rng.choice([{'i': 1}, {'i': 10}, {'f': '0.05'}, {'s': '0.05'}, {'s': '3'}, None, {'s': '10.5'},
                                {'f': '2.5'}, {'b': True},
                                g_callable(rng, {'s': '0.1'}, may_raise=False)])
            elif k == 'APP_ROOT':
                v = rng.choice([{'s': '/app'}, {'s': '/opt/shared'}, {'s': ''}, g_callable(rng, {'s': '/app2'}, may_raise=False)] +
                               [{'s': d} for d in RAW_DIRS])
            elif k in BOOL_KEYS:
                v = g_boolish(rng)
            elif k == 'PLUGINS':
                v = {'l': []}
            elif k == 'LOGGING_CONF':
                v = rng.choice([{'s': '/nonexistent/logging.conf'}, None])
            else:
                v = g_cval(rng)
                if k == 'SERVICE_URL' and isinstance(v, dict) and v.get('ck') == 'raise':
                    v = {'s': 'host:1'}         # GRPCService reads it next to SERVICE_SECURE: keep that use site judged
            custom.append([k, v])
    for key in ('IN_APP_INCLUDE', 'IN_APP_EXCLUDE'):
        ps = g_prefixes(rng)
        r = rng.random()
        if r < 0.25:
            # (a code-given exclude list names the interpreter prefix itself: without it see the PXASYM stream)
            custom.append([key, {'l': [{'s': p} for p in ps + (['$PX'] if key == 'IN_APP_EXCLUDE' else [])]}])
        elif r < 0.7 and (ps or rng.random() < 0.3):
            env['DEEP_' + key] = ','.join(ps)
    if rng.random() < 0.3:
        custom.append([rng.choice(OWN), g_cval(rng)])
    if rng.random() < 0.15:
        custom.append([rng.choice(DUNDERS), g_cval(rng)])
    if rng.random() < 0.5:
        env['UNRELATED'] = 'x'
    rng.shuffle(custom)
    names = list(DOCUMENTED) + ['PLUGINS', 'PLUGIN_X'] + rng.sample(UNKNOWN, 3) + \
        ([rng.choice(OWN)] if rng.random() < 0.4 else []) + rng.sample(DUNDERS, 2)
    return {'kind': 'lookup', 'env': env, 'custom': custom, 'names': names, 'start': start,
            'plugin_probes': ['X', 'Y'],
            'layout': [rng.choice(['root', 'proj']), rng.choice(['pkg', 'src'])],
            'files': g_paths(rng, 4) + rng.sample(RAW_PROBES, 3), 'timer': rng.random() < 0.35,
            'none_config': rng.random() < 0.5}


GA_ENV_KEYS = ['MY_KEY', 'UNKNOWN_A', 'SERVICE_TIMEOUT', 'lower_key', 'APP_ROOTS', 'plugins', '__doc__', '_plugins']


def g_ga(rng):
    """`ConfigService.__getattribute__` alone, in-process: the code dict (or an object whose `__custom` is None),
    DEEP_<name> variables for names that are not module settings (module settings are read at import: they are the
    fresh-interpreter stream's), every kind of name: module setting, unknown, own attribute, dunder."""
    custom, env = [], {}
    pool = list(DOCUMENTED) + ['PLUGINS'] + UNKNOWN + OWN + DUNDERS + ['PLUGIN_X', '_plugins', '_resource']
    for k in rng.sample(pool, rng.choice([0, 1, 2, 4, 6])):
        r = rng.random()
        v = None if r < 0.25 else (g_callable(rng, g_cval(rng, 1)) if r < 0.5 else g_cval(rng))
        custom.append([k, v])
    for k in rng.sample(GA_ENV_KEYS, rng.choice([0, 1, 2, 3])):
        env['DEEP_' + k] = rng.choice(TEXTS)
    names = rng.sample(pool, min(len(pool), 8)) + [k for k, _ in custom][:4] + rng.sample(GA_ENV_KEYS, 2) + \
        rng.sample(['ConfigService', 'os', 'sys'], 1)
    return {'kind': 'ga', 'custom': custom, 'custom_none': rng.random() < 0.2, 'env': env, 'names': names}


OWN_GETTERS = ['tracepoint_logger', 'has_metric_processor', 'has_span_processor']   # properties that walk the plugin list
OWNFAULT = 'C19/own-getter-attributeerror-falls-through'


def g_ga_fault(rng):
    """separate labelled stream (finding candidate OWNFAULT): own PROPERTIES whose getter raises — AttributeError
    (the code takes it for 'no such attribute' and resolves the name from the code dict / DEEP_<name>) or another
    exception (propagates)"""
    c = g_ga(rng)
    kind = rng.choice(['attr', 'attr', 'other'])
    extra = []
    for n in rng.sample(OWN_GETTERS, rng.choice([1, 2, 3])):
        r = rng.random()
        if r < 0.6:
            extra.append([n, g_callable(rng, g_cval(rng, 1), may_raise=False) if r < 0.2 else {'s': 'CODE ' + n}])
        elif r < 0.8:
            c['env']['DEEP_' + n] = 'ENV ' + n
    c['custom'] = [kv for kv in c['custom'] if kv[0] not in OWN_GETTERS] + extra
    c['names'] = OWN_GETTERS + c['names'][:6]
    c['custom_none'] = False
    c['own_fault'] = kind
    return c


USE_VALUES = {
    'SERVICE_URL': [(t, {'s': t}) for t in ('host:1', 'deep:43315', '', ' spaced ', 'a,b', 'é:1')],
    'SERVICE_SECURE': [('False', {'b': False}), ('True', {'b': True}), ('0', {'i': 0}), ('1', {'i': 1}),
                       ('false', {'s': 'false'}), ('yes', {'s': 'yes'}), ('1.0', {'f': '1.0'}), ('', {'s': ''}),
                       ('no', {'s': 'no'}), ('T', {'s': 'T'})],
    'POLL_TIMER': [('0.25', {'f': '0.25'}), ('1.5', {'f': '1.5'}), ('10', {'i': 10}), ('1', {'i': 1}),
                   ('0.05', {'f': '0.05'}), ('2.5', {'s': '2.5'}), (' 2 ', {'i': 2}), ('30', {'i': 30}),
                   ('0.5', {'f': '0.5'}), ('10.5', {'f': '10.5'}),
                   # float() notations outside the model's decimal alphabet (Use.unmodelled): judged by the oracle only
                   ('1e1', {'f': '10.0'}), ('\u0661\u0660', {'i': 10}), ('1_0', {'i': 10}), ('5E-1', {'f': '0.5'})],
    'LOGGING_CONF': [(t, {'s': t}) for t in ('/nonexistent/logging.conf', '', 'rel.conf')],
    'SERVICE_AUTH_PROVIDER': [(t, {'s': t}) for t in ('', 'deep.api.auth.BasicAuthProvider', 'nomodule.Nope',
                                                      'noclasspath')],
}
USE_SKIPPED = ('IN_APP_EXCLUDE', 'APP_ROOT')    # their own streams: frame/pxasym (disclosed asymmetry), lookup/start


def g_use(rng):
    """one DOCUMENTED setting (enumerated from the doc table of the tree under test) at its USE SITE, given in code as
    the native value and as DEEP_<KEY> text: the consumer must do the same thing on both routes"""
    key = rng.choice([k for k in DOCUMENTED if k not in USE_SKIPPED])
    if key == 'IN_APP_INCLUDE':
        ps = g_prefixes(rng) or ['/app']
        t, v = ','.join(ps), {'l': [{'s': p} for p in ps]}
    elif key in USE_VALUES:
        t, v = rng.choice(USE_VALUES[key])
    else:
        t = rng.choice(TEXTS)       # a newly documented setting: text in both forms
        v = {'s': t}
    # a DIFFERENT text for the variable while the native value is given in code: the code value must decide at the use site
    if key == 'IN_APP_INCLUDE':
        t2 = rng.choice(['/other', '/x,/y', ''])
    else:
        others = [a for a, _ in USE_VALUES.get(key, [(x, None) for x in TEXTS]) if a != t]
        t2 = rng.choice(others) if others else t + 'x'
    return {'kind': 'use', 'key': key, 'text': t, 'native': v, 'text2': t2, 'files': g_paths(rng, 4)}


def g_seq(rng):
    """several configurations one after the other IN THE SAME PROCESS over the same files (a new agent instance after a
    shutdown, tests, embedding hosts): every step is judged by its own include/exclude/root — the case carries its
    whole history, so a replay of it is self-contained"""
    steps = []
    for _ in range(rng.choice([2, 2, 3, 4])):
        f = g_frame(rng)
        steps.append({'custom': f['custom'], 'env': f['env']})
    return {'kind': 'seq', 'steps': steps, 'files': g_paths(rng, rng.choice([3, 5]))}


def seq_step(case, i):
    return dict(case['steps'][i], kind='frame', files=case['files'], d30=False, pxasym=False)


def g_timer(rng):
    return {'kind': 'timer', 'interval': rng.choice([{'s': '0.02'}, {'f': '0.02'}, {'s': ' 0.05 '}, {'s': '1'}, {'i': 1},
                                                     {'s': '10'}, {'i': 10}, {'s': '5e-2'}, {'s': '10.5'}, {'f': '2.5'},
                                                     {'b': True}, {'s': '.05'}, {'s': '+1.'}])}


def gen(rng, tier):
    k = 0
    while True:
        k += 1
        if k % 12 == 0:
            yield g_lookup(rng)
        elif k % 25 == 1:
            yield g_timer(rng)
        elif k % 20 == 7:
            yield g_frame(rng, d30=True)
        elif k % 50 == 13:
            yield g_frame(rng, pxasym=True)
        elif k % 100 == 45:
            yield g_frame_scale(rng)
        elif k % 50 == 34:
            yield g_ga_fault(rng)
        elif k % 10 == 4:
            yield g_ga(rng)
        elif k % 40 == 19:
            yield g_seq(rng)
        elif k % 10 == 6:
            yield g_use(rng)
        else:
            yield g_frame(rng)


def corpus_seq():
    A = lambda root, incl, excl: {'custom': [['APP_ROOT', {'s': root}], ['IN_APP_INCLUDE', {'l': [{'s': x} for x in incl]}],   # noqa: E731
                                             ['IN_APP_EXCLUDE', {'l': [{'s': x} for x in excl]}]], 'env': {}}
    files = ['/srv/app/service/handler.py', '/srv/app/vendor/orm/orm.py', '/opt/shared/m.py', '/elsewhere/x.py']
    return [{'kind': 'seq', 'files': files,
             'steps': [A('/srv/app', [], []), A('/srv/app', [], ['/srv/app/vendor']), A('/nowhere/', ['/opt/shared'], []),
                       A('/srv', ['/srv/app/vendor'], ['/srv/app/service']),
                       {'custom': [['APP_ROOT', {'s': '/srv/app/'}]], 'env': {'DEEP_IN_APP_EXCLUDE': '/opt,/srv/app/service'}}]}]


def corpus():
    return corpus_seq() + [g_frame_scale(__import__('random').Random(5), 17), g_frame_scale(__import__('random').Random(6), 60)] + [
        {'kind': 'frame', 'custom': [['APP_ROOT', {'s': '/app'}]], 'env': {'DEEP_IN_APP_EXCLUDE': '/app/src/vendor,/opt',
                                                                          'DEEP_IN_APP_INCLUDE': '/opt/shared'},
         'files': ['/app/src/vendor/lib/v.py', '/opt/shared/m.py', '/app/main.py', '$PX/lib/x.py', 'relative/r.py'],
         'd30': False},
        {'kind': 'frame', 'custom': [['APP_ROOT', {'s': '/app'}], ['IN_APP_INCLUDE', {'l': [{'s': '/srv/x'}]}],
                                     ['IN_APP_EXCLUDE', {'l': [{'s': '/app/src'}, {'s': '/srv/x/y.py'}]}]], 'env': {},
         'files': ['/srv/x/y.py', '/srv/x', '/app/src/a.py', '/app/main.py', '/appx.py'], 'd30': False},
        {'kind': 'lookup', 'env': {'DEEP_POLL_TIMER': '0.05', 'DEEP_SERVICE_URL': 'h:1', 'DEEP_MY_KEY': 'fromenv',
                                   'DEEP_IN_APP_EXCLUDE': '/a,/b', 'DEEP_APP_ROOT': '/srv/x'},
         'custom': [['SERVICE_SECURE', {'s': 'False'}], ['UNKNOWN_A', {'call': {'i': 3}}], ['MY_KEY', None]],
         'names': DOCUMENTED + ['PLUGINS', 'MY_KEY', 'UNKNOWN_A', 'PLUGIN_X', 'plugins'], 'start': True,
         'layout': ['root', 'pkg'], 'files': ['/a/x.py', '/srv/x/y.py', '$BASE/root/pkg/main.py'], 'timer': True,
         'none_config': False},
        {'kind': 'timer', 'interval': {'s': '0.02'}},
        # callables of every kind Python has are called and their result used
        {'kind': 'lookup', 'env': {}, 'names': ['K%d' % i for i in range(len(CALLABLE_KINDS))], 'start': False,
         'custom': [['K%d' % i, {'call': ({'s': 'utf-8'} if ck == 'builtin' else None if ck == 'raise' else {'s': 'v%d' % i}),
                                 'ck': ck}] for i, ck in enumerate(CALLABLE_KINDS)],
         'layout': ['root', 'pkg'], 'files': ['/app/x.py'], 'timer': False, 'none_config': False},
        # APP_ROOT only from the environment, not in normal form, through deep.start: used as written
        {'kind': 'lookup', 'env': {'DEEP_APP_ROOT': '/srv/app/'}, 'custom': [], 'names': ['APP_ROOT'], 'start': True,
         'layout': ['root', 'pkg'], 'files': ['/srv/app/main.py', '/srv/app2/x.py', '/srv/application/other.py'],
         'timer': False, 'none_config': True},
        {'kind': 'lookup', 'env': {'DEEP_APP_ROOT': '/srv/x/../app', 'DEEP_IN_APP_INCLUDE': '/opt/shared/,/srv//app'},
         'custom': [], 'names': ['APP_ROOT', 'IN_APP_INCLUDE'], 'start': True, 'layout': ['proj', 'src'],
         'files': ['/srv/app/main.py', '/srv/x/../app/m.py', '/opt/shared/m.py', '/opt/sharedness/z.py', '/srv//app/m.py'],
         'timer': False, 'none_config': False},
    ] + corpus_ga()


def corpus_ga():
    return [
        # own attribute beats a code entry of the same name; None in code falls through; callable called; env only for
        # names the module does not have
        {'kind': 'ga', 'custom': [['plugins', {'i': 1}], ['POLL_TIMER', None], ['MY_KEY', {'call': {'s': 'r'}, 'ck': 'def'}],
                                  ['SERVICE_URL', {'s': ''}], ['UNKNOWN_A', None]],
         'custom_none': False, 'env': {'DEEP_MY_KEY': 'e', 'DEEP_UNKNOWN_A': 'fromenv', 'DEEP_plugins': 'p'},
         'names': ['plugins', 'POLL_TIMER', 'MY_KEY', 'SERVICE_URL', 'UNKNOWN_A', 'APP_ROOTS', 'IN_APP_INCLUDE']},
        # an object whose custom dict is None: the guard, then module / environment / None
        {'kind': 'ga', 'custom': [['MY_KEY', {'s': 'ignored'}]], 'custom_none': True, 'env': {'DEEP_MY_KEY': 'e'},
         'names': ['MY_KEY', 'UNKNOWN_A', 'POLL_TIMER', 'SERVICE_SECURE', 'PLUGINS']},
    ]


def known_replays():
    return [(OWNFAULT, 'the getter of the own property tracepoint_logger raises AttributeError: __getattribute__ takes it for '
             '"no such attribute" and hands out the code-dict entry of that name instead of failing',
             {'kind': 'ga', 'custom': [['tracepoint_logger', {'s': 'CODE VALUE'}]], 'custom_none': False, 'env': {},
              'names': ['tracepoint_logger'], 'own_fault': 'attr'}),
            (D30, 'IN_APP_INCLUDE="/x,/y" given in code is iterated character by character: "/" matches every '
             'absolute path, /lib/z.py becomes an application frame',
             {'kind': 'frame', 'custom': [['APP_ROOT', {'s': '/app'}], ['IN_APP_INCLUDE', {'s': '/x,/y'}]], 'env': {},
              'files': ['/lib/z.py'], 'd30': True}),
            (PXASYM, 'IN_APP_EXCLUDE=["/opt"] given in code is used as given, DEEP_IN_APP_EXCLUDE=/opt gets the interpreter '
             'prefix appended: a site-packages file under the app root is an application frame only on the code route',
             {'kind': 'frame', 'custom': [['APP_ROOT', {'s': '/'}], ['IN_APP_EXCLUDE', {'l': [{'s': '/opt'}]}]], 'env': {},
              'files': ['$PX/lib/python3.12/site-packages/p/q.py'], 'd30': False, 'pxasym': True})]


def has_str_list_key(case):
    return any(k in ('IN_APP_INCLUDE', 'IN_APP_EXCLUDE') and isinstance(v, dict) and 's' in v
               for k, v in case.get('custom', []))


def code_exclude_without_px(case):
    return any(k == 'IN_APP_EXCLUDE' and isinstance(v, dict) and 'l' in v and {'s': '$PX'} not in v['l']
               for k, v in case.get('custom', []))


def known_finding(case, obs):
    if case['kind'] in ('frame', 'lookup') and has_str_list_key(case):
        return D30
    if case['kind'] == 'frame' and case.get('pxasym') and code_exclude_without_px(case):
        return PXASYM
    if case['kind'] == 'ga' and case.get('own_fault') == 'attr' and any(
            k in OWN_GETTERS and v is not None for k, v in case['custom']):
        return OWNFAULT
    return None


# --------------------------------------------------------------------------------------- implementation
_env_lock = threading.Lock()


def px_sub(s, px):
    return s.replace('$PX', px).replace('$BASE', BASE)


def run_frame(case):
    from deep.config import ConfigService
    from deep.config.tracepoint_config import TracepointConfigService
    px = sys.exec_prefix
    saved = {k: os.environ.get(k) for k in ('DEEP_IN_APP_INCLUDE', 'DEEP_IN_APP_EXCLUDE')}
    try:
        for k in saved:
            os.environ.pop(k, None)
        for k, v in case['env'].items():
            os.environ[k] = px_sub(v, px)
        custom = {k: mk(json.loads(px_sub(json.dumps(v), px))) for k, v in case['custom']}
        cfg = ConfigService(custom, tracepoints=TracepointConfigService())
        files = [px_sub(f, px) for f in case['files']]
        return {'frames': frames(cfg, files), 'exec_prefix': px}
    except Exception as e:      # noqa: B902
        return {'raised': f'{type(e).__name__}: {e}'}
    finally:
        for k, v in saved.items():
            os.environ.pop(k, None)
            if v is not None:
                os.environ[k] = v


def run_lookup(case):
    d = os.path.join(BASE, *case['layout'])
    os.makedirs(d, exist_ok=True)
    script = os.path.join(d, 'main.py')
    with open(script, 'w') as f:
        f.write(LOOKUP_SCRIPT)
    px = sys.exec_prefix
    env = {'PATH': os.environ.get('PATH', '/usr/bin:/bin'), 'PYTHONPATH': core.SRC, 'HOME': os.environ.get('HOME', '/tmp'),
           'PYTHONIOENCODING': 'utf-8', 'LANG': 'C.UTF-8'}
    env.update({k: px_sub(v, px) for k, v in case['env'].items()})
    payload = dict(case, base=BASE, files=[px_sub(f, px) for f in case['files']],
                   custom=json.loads(px_sub(json.dumps(case['custom']), px)))
    try:
        p = subprocess.run([PY, '-W', 'ignore', script], input=json.dumps(payload), env=env, capture_output=True,
                           text=True, timeout=180)
    except subprocess.TimeoutExpired:
        raise core.Infra('fresh interpreter did not finish in 180 s')
    finally:
        shutil.rmtree(BASE, ignore_errors=True)
    lines = [l for l in p.stdout.splitlines() if l.startswith('@@')]
    if not lines:
        return {'raised': f'interpreter exit {p.returncode}: {p.stderr.strip().splitlines()[-2:]}'}
    obs = json.loads(lines[-1][2:])
    t = obs.get('timer')
    if t and t.get('alive') and t.get('small') and t['ticks'] < 3:
        raise core.Infra('poll timer alive but did not tick 3 times in 20 s')
    return obs


def run_timer(case):
    from deep.utils import RepeatedTimer
    ticks = []
    try:
        t = RepeatedTimer('verif', mk(case['interval']), lambda: ticks.append(1))
    except Exception as e:      # noqa: B902
        return {'raised': f'{type(e).__name__}: {e}'}
    t.start()
    try:
        iv = t.interval
        small = isinstance(iv, (int, float)) and not isinstance(iv, bool) and 0 < iv <= 0.25
        t0 = time.time()
        while time.time() - t0 < (20 if small else 0.15):
            if not t.thread.is_alive() or (small and len(ticks) >= 2):
                break
            time.sleep(0.005)
        alive = t.thread.is_alive()
        if alive and small and len(ticks) < 2:
            raise core.Infra('timer alive but did not tick twice in 20 s')
        return {'alive': alive, 'ticks': len(ticks), 'small': small, 'interval': repr(iv)}
    finally:
        if t.thread.is_alive():
            t.stop()


GA_OWN = OWN + ['_plugins', '_resource'] + ['tracepoint_logger', 'has_metric_processor', 'has_span_processor']
GA_MODULE_ATTRS = ['ConfigService', 'os', 'sys']     # attributes of the deep.config module object, like __name__ / __file__


def run_ga(case):
    from deep.config import ConfigService
    from deep.config.tracepoint_config import TracepointConfigService
    import logging as pylog
    keys = ['DEEP_' + k for k in GA_ENV_KEYS + OWN_GETTERS]
    with _env_lock:
        saved = {k: os.environ.get(k) for k in keys}
        pylog.disable(pylog.CRITICAL)
        try:
            for k in keys:
                os.environ.pop(k, None)
            os.environ.update(case['env'])
            custom = {k: mk(v) for k, v in case['custom']}
            cfg = ConfigService(custom, tracepoints=TracepointConfigService())
            if case['custom_none']:
                object.__setattr__(cfg, '_ConfigService__custom', None)
            if case.get('own_fault'):
                exc = AttributeError if case['own_fault'] == 'attr' else ValueError

                class FailingPlugins(list):
                    def __iter__(self):
                        raise exc('walking the plugin list failed inside the property getter')
                object.__setattr__(cfg, '_plugins', FailingPlugins())
            vals = []
            for n in case['names']:
                try:
                    got = getattr(cfg, n)
                except Exception as e:      # noqa: B902
                    vals.append({'raised': type(e).__name__})
                    continue
                # (the failing plugin list of the own-getter stream is an opaque object: encoding must not iterate it —
                #  an exception of the ENCODER is not an exception of the lookup)
                vals.append({'o': type(got).__name__} if isinstance(got, list) and type(got) is not list else enc(got))
            # what the deep.config module saw at import and what the module functions see now
            return {'values': vals, 'exec_prefix': sys.exec_prefix,
                    'proc_env': {k: v for k, v in os.environ.items() if k.startswith('DEEP_') and k not in case['env']}}
        except Exception as e:      # noqa: B902
            return {'raised': f'{type(e).__name__}: {e}'}
        finally:
            pylog.disable(pylog.NOTSET)
            for k, v in saved.items():
                os.environ.pop(k, None)
                if v is not None:
                    os.environ[k] = v


SEQ_SCRIPT = PY_MK + r'''
import sys, json, os, logging
logging.disable(logging.CRITICAL)
case = json.loads(sys.stdin.read())
out = {'steps': [], 'exec_prefix': sys.exec_prefix}
try:
    from deep.config import ConfigService
    from deep.config.tracepoint_config import TracepointConfigService
    for step in case['steps']:
        for k in ('DEEP_IN_APP_INCLUDE', 'DEEP_IN_APP_EXCLUDE'):
            os.environ.pop(k, None)
        os.environ.update(step['env'])
        try:
            cfg = ConfigService({k: mk(v) for k, v in step['custom']}, tracepoints=TracepointConfigService())
            out['steps'].append({'frames': frames(cfg, case['files']), 'exec_prefix': sys.exec_prefix})
        except Exception as e:
            out['steps'].append({'raised': '%s: %s' % (type(e).__name__, e)})
except Exception as e:
    out['raised'] = '%s: %s' % (type(e).__name__, e)
print('\n@@' + json.dumps(out))
'''


def run_seq(case):
    """the whole sequence in ONE fresh interpreter: what a step sees of earlier steps is part of the case, nothing of
    other cases is — so shrinking and replaying a failing sequence is meaningful"""
    px = sys.exec_prefix
    env = {'PATH': os.environ.get('PATH', '/usr/bin:/bin'), 'PYTHONPATH': core.SRC, 'HOME': os.environ.get('HOME', '/tmp'),
           'PYTHONIOENCODING': 'utf-8', 'LANG': 'C.UTF-8'}
    payload = {'files': [px_sub(f, px) for f in case['files']],
               'steps': [{'custom': json.loads(px_sub(json.dumps(st['custom']), px)),
                          'env': {k: px_sub(v, px) for k, v in st['env'].items()}} for st in case['steps']]}
    try:
        p = subprocess.run([PY, '-W', 'ignore', '-c', SEQ_SCRIPT], input=json.dumps(payload), env=env,
                           capture_output=True, text=True, timeout=180)
    except subprocess.TimeoutExpired:
        raise core.Infra('fresh interpreter did not finish in 180 s')
    lines = [l for l in p.stdout.splitlines() if l.startswith('@@')]
    if not lines:
        return {'raised': f'interpreter exit {p.returncode}: {p.stderr.strip().splitlines()[-2:]}', 'steps': []}
    return json.loads(lines[-1][2:])


def use_site(cfg, key, files):
    """what the consumer of `key` does with this configuration"""
    import logging as pylog
    try:
        if key in ('SERVICE_URL', 'SERVICE_SECURE'):
            import deep.grpc.grpc_service as gsm
            chosen = []
            saved = (gsm.grpc.secure_channel, gsm.grpc.insecure_channel, gsm.grpc.ssl_channel_credentials)
            try:
                gsm.grpc.secure_channel = lambda target, *a, **k: chosen.append(['secure', enc(target)])
                gsm.grpc.insecure_channel = lambda target, *a, **k: chosen.append(['insecure', enc(target)])
                gsm.grpc.ssl_channel_credentials = lambda *a, **k: None
                gsm.GRPCService(cfg).start()
            finally:
                gsm.grpc.secure_channel, gsm.grpc.insecure_channel, gsm.grpc.ssl_channel_credentials = saved
            return {'channel': chosen}
        if key == 'POLL_TIMER':
            from deep.poll.poll import LongPoll
            lp = LongPoll(cfg, None)
            lp.poll = lambda: None
            lp.start()
            try:
                time.sleep(0.03)
                return {'interval': repr(float(lp.timer.interval)), 'alive': lp.timer.thread.is_alive()}
            finally:
                if lp.timer.thread.is_alive():
                    lp.shutdown()
        if key == 'LOGGING_CONF':
            import deep.logging as dl
            seen = []
            saved = dl.logging.config.fileConfig
            try:
                dl.logging.config.fileConfig = lambda fname=None, *a, **k: seen.append(fname)
                dl.init(cfg)
            finally:
                dl.logging.config.fileConfig = saved
            builtin = os.path.join(os.path.dirname(os.path.realpath(dl.__file__)), 'logging.conf')
            return {'files': ['DEFAULT' if f == builtin else enc(f) for f in seen]}
        if key == 'SERVICE_AUTH_PROVIDER':
            from deep.api.auth import AuthProvider
            p = AuthProvider.get_provider(cfg)
            return {'provider': None if p is None else type(p).__name__}
        if key in ('IN_APP_INCLUDE', 'IN_APP_EXCLUDE'):
            return {'value': enc(getattr(cfg, key)), 'frames': frames(cfg, files)}
        return {'value': enc(getattr(cfg, key))}
    except Exception as e:      # noqa: B902
        return {'raised': type(e).__name__}


def run_use(case):
    """both routes in this process: the code route under the process environment, the environment route after
    DEEP_<KEY> is set and deep.config re-imported (its settings are read at import); everything restored afterwards"""
    import importlib
    import logging as pylog
    import deep.config as dc
    from deep.config.tracepoint_config import TracepointConfigService
    key, var = case['key'], 'DEEP_' + case['key']
    px = sys.exec_prefix
    files = [px_sub(f, px) for f in case['files']]
    with _env_lock:
        saved = os.environ.get(var)
        pylog.disable(pylog.CRITICAL)
        try:
            os.environ.pop(var, None)
            importlib.reload(dc)
            native = mk(json.loads(px_sub(json.dumps(case['native']), px)))
            code = use_site(dc.ConfigService({key: native, 'APP_ROOT': '/nowhere-root'}, tracepoints=TracepointConfigService()),
                            key, files)
            os.environ[var] = px_sub(case['text'], px)
            importlib.reload(dc)
            env = use_site(dc.ConfigService({'APP_ROOT': '/nowhere-root'}, tracepoints=TracepointConfigService()), key, files)
            both = None
            if 'text2' in case:
                os.environ[var] = px_sub(case['text2'], px)
                importlib.reload(dc)
                both = use_site(dc.ConfigService({key: native, 'APP_ROOT': '/nowhere-root'},
                                                 tracepoints=TracepointConfigService()), key, files)
            return {'code': code, 'env': env, 'both': both, 'exec_prefix': px,
                    'proc_env': {k: v for k, v in os.environ.items() if k.startswith('DEEP_') and k != var}}
        except Exception as e:      # noqa: B902
            return {'raised': f'{type(e).__name__}: {e}'}
        finally:
            os.environ.pop(var, None)
            if saved is not None:
                os.environ[var] = saved
            importlib.reload(dc)
            pylog.disable(pylog.NOTSET)


def run_impl(case):
    core.use_repo()
    return {'use': run_use, 'seq': run_seq, 'frame': run_frame, 'lookup': run_lookup, 'timer': run_timer, 'ga': run_ga}[case['kind']](case)


# --------------------------------------------------------------------------------------- reference (from the statement)
def doc_list(text):
    """the documented reading of a comma separated setting"""
    return text.split(',')


def ref_lists(custom, env, px):
    """(include, exclude) the statement talks about; None = unusable configuration"""
    out = []
    for key in ('IN_APP_INCLUDE', 'IN_APP_EXCLUDE'):
        v = custom.get(key)
        if isinstance(v, dict) and 'call' in v:
            v = v['call']
        if v is not None:
            # the same prefixes whichever way they are given; the interpreter prefix is always excluded
            extra = [px] if key == 'IN_APP_EXCLUDE' else []
            if 'l' in v:
                out.append([x['s'] for x in v['l']] + extra)
            elif 's' in v:
                out.append(doc_list(v['s']) + extra)        # documented: a string of comma separated values
            else:
                out.append(None)
        else:
            t = env.get('DEEP_' + key)
            lst = doc_list(t) if t is not None else []
            out.append(lst + [px] if key == 'IN_APP_EXCLUDE' else lst)
    return out


def ref_frame(incl, excl, root, f):
    for e in excl:
        if f.startswith(e):
            return {'app': False, 'match': e, 'short': f[len(e):], 'short_app': False}
    m = next((i for i in incl if f.startswith(i)), None)
    if m is None and f.startswith(root):
        m = root
    if m is not None:
        return {'app': True, 'match': m, 'short': f[len(m):], 'short_app': True}
    return {'app': False, 'match': None, 'short': f, 'short_app': False}


def check_frames(custom, env, px, root, files, got, v):
    incl, excl = ref_lists(custom, env, px)
    if incl is None or excl is None or not isinstance(root, str):
        return
    for f, g in zip(files, got):
        exp = ref_frame(incl, excl, root, f)
        if g != exp:
            if 'raised' in g:
                v.append(f'is_app_frame({f!r}) raised {g["raised"]} (include={incl} exclude={excl} root={root!r})')
            elif g['app'] != exp['app']:
                v.append(f'{f!r}: app_frame={g["app"]}, expected {exp["app"]} (include={incl} exclude={excl} '
                         f'root={root!r})')
            else:
                v.append(f'{f!r}: short path {g["short"]!r} (matched {g["match"]!r}), expected {exp["short"]!r} '
                         f'(matched {exp["match"]!r})')
            if len(v) > 3:
                return


def oracle_frame(case, obs):
    if 'raised' in obs:
        return ['configuration raised: ' + obs['raised']]
    px = obs['exec_prefix']
    custom = {k: json.loads(px_sub(json.dumps(v), px)) for k, v in case['custom']}
    env = {k: px_sub(v, px) for k, v in case['env'].items()}
    v = []
    check_frames(custom, env, px, custom['APP_ROOT']['s'], [px_sub(f, px) for f in case['files']], obs['frames'], v)
    return v


def called(v):
    """a callable value is called and its result used (an exception of the callable reaches the reader)"""
    if isinstance(v, dict) and 'call' in v:
        return {'raised': 'ValueError'} if v.get('ck') == 'raise' else v['call']
    return v


def model_cval(v):
    """the model knows a callable by what it returns; a raising one returns the marker the comparison maps back"""
    if isinstance(v, dict) and 'call' in v:
        return {'call': {'o': 'raises'} if v.get('ck') == 'raise' else v['call']}
    return v


def norm(v):
    if isinstance(v, dict) and 'o' in v:
        return {'o': '*'}
    if isinstance(v, dict) and 'l' in v:
        return {'l': [norm(x) for x in v['l']]}
    if isinstance(v, dict) and 'f' in v:
        return {'f': repr(float(v['f']))}
    return v


def ref_lookup(case, name, px):
    """expected value of one setting, from the statement and docs/config/config.md"""
    custom = {}
    for k, v in case['custom']:
        custom[k] = json.loads(px_sub(json.dumps(v), px))
    env = {k: px_sub(v, px) for k, v in case['env'].items()}
    if name in ('__name__', '__file__'):
        # not attributes of the object but of the deep.config module: a code value still wins, else the module's
        return called(custom[name]) if custom.get(name) is not None else 'own'
    if name in OWN or name in DUNDERS:
        return 'own'         # attributes every object has / of this object: not settings
    if name == 'APP_ROOT' and case['start']:
        if 'APP_ROOT' in custom:
            if custom['APP_ROOT'] is not None:
                return called(custom['APP_ROOT'])
            return {'s': ''}
        if env.get('DEEP_APP_ROOT'):
            return {'s': env['DEEP_APP_ROOT']}
        return {'s': BASE + '/' + case['layout'][0]}
    if custom.get(name) is not None:
        return called(custom[name])
    if name in DOC_DEFAULT:
        return {'s': env['DEEP_' + name]} if 'DEEP_' + name in env else DOC_DEFAULT[name]
    if name == 'APP_ROOT':
        return {'s': ''}        # only deep.start derives it; the bare service knows no root
    if name == 'PLUGINS':
        return {'l': []}
    if name in ('IN_APP_INCLUDE', 'IN_APP_EXCLUDE'):
        t = env.get('DEEP_' + name)
        lst = t.split(',') if t is not None else []
        if name == 'IN_APP_EXCLUDE':
            lst = lst + [px]
        return {'l': [{'s': x} for x in lst]}
    if 'DEEP_' + name in env:
        return {'s': env['DEEP_' + name]}
    return None


def py_text(v):
    """str(value) for the values whose text is plain; None = not judged (lists, foreign objects, failures)"""
    if v is None:
        return 'None'
    if 's' in v:
        return v['s']
    if 'b' in v:
        return str(bool(v['b']))
    if 'i' in v:
        return str(v['i'])
    if 'f' in v:
        return repr(float(v['f']))
    if 'l' in v or 'o' in v:
        return '<not a truthy text>'
    return None


def interval_of(v):
    if v is None:
        return None
    if 'b' in v:
        return float(v['b'])
    if 'i' in v:
        return float(v['i'])
    if 'f' in v:
        return float(v['f'])
    if 's' in v:
        try:
            return float(v['s'])
        except ValueError:
            return None
    return None


def oracle_lookup(case, obs):
    if 'raised' in obs:
        return ['configuration raised: ' + obs['raised']]
    px = obs['exec_prefix']
    v = []
    resolved = {}
    for name, got in zip(case['names'], obs['values']):
        exp = ref_lookup(case, name, px)
        resolved[name] = got
        if exp == 'own':
            cv = dict((a, b) for a, b in case['custom']).get(name)
            if cv is not None and norm(got) == norm(called(cv)) and norm(got) not in (None, {'l': []}, {'o': '*'}):
                v.append(f'{name}: the object\'s own attribute was shadowed by the code dict value {cv}')
            continue
        if isinstance(exp, dict) and 's' in exp and name in ('IN_APP_INCLUDE', 'IN_APP_EXCLUDE'):
            exp = {'l': [{'s': x} for x in doc_list(exp['s'])]}        # documented reading of the str form
        if norm(got) != norm(exp):
            v.append(f'{name}: resolved to {got}, expected {exp} (code > environment-backed default > DEEP_{name} > '
                     f'absent)')
    custom = {}
    for k, val in case['custom']:
        custom[k] = json.loads(px_sub(json.dumps(val), px)) if val is not None else None
    env = {k: px_sub(val, px) for k, val in case['env'].items()}
    root = ref_lookup(case, 'APP_ROOT', px)
    if isinstance(root, dict) and 's' in root:
        check_frames(custom, env, px, root['s'], [px_sub(f, px) for f in case['files']],
                     obs['frames'], v)
    # boolean settings at their use sites: the value is read like its text, whichever way it was given
    def expect_bool(name, absent):
        rv = ref_lookup(case, name, px)
        if rv is None:
            return absent
        t = py_text(rv)
        return None if t is None else (t.lower() in TRUTHY)
    if 'secure' in obs:
        e = expect_bool('SERVICE_SECURE', False)
        if isinstance(obs['secure'], dict):
            v.append(f'GRPCService.start raised with SERVICE_SECURE={ref_lookup(case, "SERVICE_SECURE", px)}: '
                     + obs['secure']['raised'])
        elif e is not None and obs['secure'] != e:
            v.append(f'SERVICE_SECURE={ref_lookup(case, "SERVICE_SECURE", px)}: secure channel {obs["secure"]}, expected {e}')
    for n, a in zip(case.get('plugin_probes', []), obs.get('active', [])):
        e = expect_bool('PLUGIN_' + n, True)
        if isinstance(a, dict):
            v.append(f'Plugin.is_active raised with PLUGIN_{n}={ref_lookup(case, "PLUGIN_" + n, px)}: ' + a['raised'])
        elif e is not None and a != e:
            v.append(f'PLUGIN_{n}={ref_lookup(case, "PLUGIN_" + n, px)}: active {a}, expected {e}')
    if case.get('timer'):
        t = obs.get('timer', {})
        iv = interval_of(ref_lookup(case, 'POLL_TIMER', px))
        if 'raised' in t:
            v.append('LongPoll.start raised: ' + t['raised'])
        elif iv is not None and iv > 0:
            if not t.get('alive'):
                v.append(f'poll timer thread died (POLL_TIMER resolved to {resolved.get("POLL_TIMER")})')
            elif float(t['interval']) != iv:
                v.append(f'poll interval {t["interval"]}, configured {iv}')
            elif t.get('small') and t['ticks'] < 3:
                v.append('poll timer did not tick')
    return v


def ga_view(case, obs):
    """the ga case as the lookup reference reads it: no code dict when the object's dict is None, the variables of
    the harness process next to the generated ones"""
    return dict(case, start=False, custom=[] if case['custom_none'] else case['custom'],
                env=dict(obs.get('proc_env', {}), **case['env']))


def oracle_ga(case, obs):
    if 'raised' in obs:
        return ['configuration raised: ' + obs['raised']]
    px = obs['exec_prefix']
    view = ga_view(case, obs)
    v = []
    for name, got in zip(case['names'], obs['values']):
        exp = 'own' if name in GA_OWN else ref_lookup(view, name, px)
        if name in GA_MODULE_ATTRS:
            # not settings but attributes of the module object (as ref_lookup treats __name__ / __file__): a code value
            # still wins, else the module's own (opaque; the model says what: the class is called)
            cvm = dict((a, b) for a, b in view['custom']).get(name)
            exp = called(cvm) if cvm is not None else 'own'
        if exp == 'own':
            cv = dict((a, b) for a, b in view['custom']).get(name)
            if cv is not None and norm(got) == norm(called(cv)) and norm(got) not in (None, {'l': []}, {'o': '*'}):
                v.append(f'{name}: the object\'s own attribute was shadowed by the code dict value {cv}')
            continue
        if norm(got) != norm(exp):
            v.append(f'{name}: resolved to {got}, expected {exp} (code > environment-backed default > DEEP_{name} > '
                     f'absent; functions are called){" [custom dict is None]" if case["custom_none"] else ""}')
    return v


def oracle_timer(case, obs):
    iv = interval_of(case['interval'])
    if 'raised' in obs:
        return ['RepeatedTimer raised: ' + obs['raised']]
    v = []
    if not obs['alive']:
        v.append(f'timer thread died with interval {case["interval"]}')
    elif float(obs['interval']) != iv:
        v.append(f'interval {obs["interval"]}, given {iv}')
    elif obs['small'] and obs['ticks'] < 2:
        v.append('timer did not tick')
    return v


def oracle_use(case, obs):
    """the statement: a documented setting behaves identically whether given in code or as its DEEP_ variable"""
    if 'raised' in obs:
        return ['configuration raised: ' + obs['raised']]
    v = []
    if obs['code'] != obs['env']:
        v.append(f'{case["key"]}: given in code as {case["native"]} its consumer does {obs["code"]}, given as '
                 f'DEEP_{case["key"]}={case["text"]!r} it does {obs["env"]}')
    if obs.get('both') is not None and obs['both'] != obs['code']:
        v.append(f'{case["key"]}: given in code as {case["native"]} its consumer does {obs["code"]}, but with '
                 f'DEEP_{case["key"]}={case["text2"]!r} ALSO set it does {obs["both"]}: the code value must win at the use site')
    if case['key'] == 'POLL_TIMER':
        for route in ('code', 'env'):
            o = obs[route]
            if 'raised' in o or not o.get('alive') or float(o['interval']) != float(case['text']):
                v.append(f'POLL_TIMER {case["text"]!r} ({route} route): poll timer {o}, expected a live timer with '
                         f'interval {float(case["text"])}')
    return v


def oracle_seq(case, obs):
    if 'raised' in obs:
        return ['configuration raised: ' + obs['raised']]
    v = []
    for i, o in enumerate(obs['steps']):
        c = seq_step(case, i)
        v += [f'configuration {i + 1} of {len(obs["steps"])} in this process (root/include/exclude = '
              f'{c["custom"]} env {c["env"]}): {x}' for x in oracle_frame(c, o)]
    return v


def oracle(case, obs):
    return {'use': oracle_use, 'seq': oracle_seq, 'frame': oracle_frame, 'lookup': oracle_lookup, 'timer': oracle_timer, 'ga': oracle_ga}[case['kind']](case, obs)


# --------------------------------------------------------------------------------------- model
def pairs(d):
    return [[k, v] for k, v in d.items()]


DECIMAL = __import__('re').compile(r'^[ \t]*[+-]?(\d+(\.\d*)?|\.\d+)[ \t]*$')


def modelled_number(v):
    if v is None:
        return False
    if 'i' in v or 'b' in v:
        return True
    t = v.get('s', v.get('f'))
    return isinstance(t, str) and bool(DECIMAL.match(t))


def modelled_text(v):
    """values whose str() the model knows"""
    return v is None or (isinstance(v, dict) and any(k in v for k in ('s', 'i', 'b', 'f')))


def dec_value(d):
    return None if d is None else d['mant'] / (10 ** d['scale'])


def model_request(case, obs):
    k = case['kind']
    if k == 'use':
        if 'raised' in obs:
            return None
        px = obs['exec_prefix']
        return {'kind': 'use', 'key': case['key'], 'text': px_sub(case['text'], px), 'px': px,
                'text2': px_sub(case.get('text2', case['text']), px),
                'native': json.loads(px_sub(json.dumps(case['native']), px)), 'env': pairs(obs.get('proc_env', {}))}
    if k == 'seq' and 'raised' in obs:
        return None
    if k == 'seq':
        reqs = [model_request(seq_step(case, i), o) for i, o in enumerate(obs['steps'])]
        return None if any(r is None for r in reqs) else {'kind': 'frameseq', 'steps': reqs}
    if 'raised' in obs and k != 'timer':
        return None
    if k == 'timer':
        v = case['interval']
        if not modelled_number(v):
            return None     # exponents, inf/nan: outside the modelled float() alphabet
        return {'kind': 'interval', 'custom': [['POLL_TIMER', v]], 'env': [], 'px': '/px'}
    px = obs['exec_prefix']
    if k == 'ga':
        return {'kind': 'ga', 'px': px, 'names': case['names'],
                'env': pairs(dict(obs.get('proc_env', {}), **case['env'])),
                'own_fault': {'names': OWN_GETTERS, 'kind': case['own_fault']} if case.get('own_fault') else None,
                'custom': None if case['custom_none'] else
                [[kk, model_cval(v) if v is not None else None] for kk, v in case['custom']]}
    custom = {}
    for kk, v in case['custom']:
        custom[kk] = model_cval(json.loads(px_sub(json.dumps(v), px))) if v is not None else None
    req = {'kind': 'frame', 'custom': pairs(custom), 'env': pairs({a: px_sub(b, px) for a, b in case['env'].items()}),
           'px': px, 'files': [px_sub(f, px) for f in case['files']]}
    if k == 'lookup':
        req.update(kind='lookup', names=case['names'], start=case['start'], calc=BASE + '/' + case['layout'][0],
                   plugin_probes=case.get('plugin_probes', []))
    return req


def use_mismatch(key, m, o):
    """does the model's reading of the use site (Use) describe what the real consumer did?"""
    if m is None:
        return None         # a documented setting the use-site table does not know: c19_use_site_covers_documented fails
    if 'unmodelled' in m:
        return None
    if 'fails' in m:
        return None if ('raised' in o or o.get('alive') is False) else 'the consumer did not fail'
    if 'raised' in o:
        # provider paths that cannot be imported fail identically on both routes: text the consumer used
        return None if (key == 'SERVICE_AUTH_PROVIDER' and 'text' in m) else 'the consumer raised'
    if key == 'SERVICE_URL':
        return None if [c[1] for c in o['channel']] == [{'s': m.get('text')}] else 'channel target'
    if key == 'SERVICE_SECURE':
        return None if [c[0] for c in o['channel']] == ['secure' if m.get('flag') else 'insecure'] else 'channel kind'
    if key == 'POLL_TIMER':
        iv = dec_value(m.get('seconds'))
        return None if (o.get('alive') and iv is not None and float(o['interval']) == iv) else 'interval'
    if key == 'LOGGING_CONF':
        return None if o['files'] == (['DEFAULT'] if 'unset' in m else [{'s': m.get('text')}]) else 'logging file'
    if key == 'SERVICE_AUTH_PROVIDER':
        return None if (o['provider'] is None) == ('unset' in m) else 'provider'
    if key in ('IN_APP_INCLUDE', 'IN_APP_EXCLUDE'):
        return None if o['value'] == {'l': [{'s': p} for p in m.get('prefixes', [])]} else 'prefixes'
    return None if o.get('value') == {'s': m.get('text')} else 'value'


def compare(case, obs, resp):
    if 'error' in resp:
        return ['model error: ' + resp['error']]
    k = case['kind']
    d = []
    if k == 'use':
        for route in ('code', 'env', 'both'):
            if obs.get(route) is None:
                continue
            x = use_mismatch(case['key'], resp[route], obs[route])
            if x:
                d.append(f'{case["key"]} ({route} route): model {resp[route]} vs implementation {obs[route]}: {x}')
        return d
    if k == 'seq':
        for i, (o, r) in enumerate(zip(obs['steps'], resp['steps'])):
            d += [f'configuration {i + 1}: {x}' for x in compare(seq_step(case, i), o, r)]
        return d
    if k == 'timer':
        iv = dec_value(resp['interval'])
        alive = iv is not None and iv > 0
        if alive != obs.get('alive', False):
            d.append(f'timer alive: model {alive} vs implementation {obs}')
        elif alive and float(obs['interval']) != iv:
            d.append(f'interval: model {iv} vs implementation {obs["interval"]}')
        return d
    if k in ('lookup', 'ga'):
        for n, m, o in zip(case['names'], resp['values'], obs['values']):
            if isinstance(m, dict) and str(m.get('o', '')).startswith(('own attribute', 'module attribute')):
                continue        # the object's own attribute: its value is outside the model (it is not the custom one:
                                # checked by the oracle for names of OWN)
            if m == {'o': 'raises'}:
                m = {'raised': 'ValueError'}
            if norm(m) != norm(o):
                d.append(f'{n}: model {m} vs implementation {o}')
    if k == 'ga':
        return d
    if k == 'lookup':
        px = obs['exec_prefix']
        if 'secure' in obs and modelled_text(ref_lookup(case, 'SERVICE_SECURE', px)):
            o = None if isinstance(obs['secure'], dict) else obs['secure']
            if resp['secure'] != o:
                d.append(f'secure: model {resp["secure"]} vs implementation {obs["secure"]}')
        for n, m, o in zip(case.get('plugin_probes', []), resp.get('active', []), obs.get('active', [])):
            if modelled_text(ref_lookup(case, 'PLUGIN_' + n, px)):
                o = None if isinstance(o, dict) else o
                if m != o:
                    d.append(f'PLUGIN_{n} active: model {m} vs implementation {o}')
        t = obs.get('timer')
        if case.get('timer') and t and 'raised' not in t and modelled_number(ref_lookup(case, 'POLL_TIMER', px)):
            iv = dec_value(resp.get('interval'))
            if (iv is not None and iv > 0) != bool(t.get('alive')):
                d.append(f'poll timer alive: model interval {iv} vs implementation {t}')
            elif t.get('alive') and float(t['interval']) != iv:
                d.append(f'poll interval: model {iv} vs implementation {t["interval"]}')
    for f, m, o in zip(case['files'], resp['frames'], obs['frames']):
        if 'raised' in m or 'raised' in o:
            if ('raised' in m) != ('raised' in o):
                d.append(f'{f}: model {m} vs implementation {o}')
        elif m != o:
            d.append(f'{f}: model {m} vs implementation {o}')
    return d


# --------------------------------------------------------------------------------------- reporting
def label(case, obs):
    k = case['kind']
    if k == 'timer':
        return 'timer/' + ('text' if 's' in case['interval'] else 'number')
    if k == 'use':
        return 'use/' + case['key']
    if k == 'seq':
        return 'seq/%d' % len(case['steps'])
    if 'raised' in obs:
        return k + '/raised'
    if k == 'ga' and case.get('own_fault'):
        return 'ga/own-getter-' + ('AttributeError' if case['own_fault'] == 'attr' else 'other-exception')
    if k == 'ga':
        return 'ga/' + ('none-dict' if case['custom_none'] else 'dict') + ('+env' if case['env'] else '')
    if k == 'frame':
        src = []
        c = dict((a, b) for a, b in case['custom'])
        for key in ('IN_APP_INCLUDE', 'IN_APP_EXCLUDE'):
            src.append('code' if key in c else ('env' if 'DEEP_' + key in case['env'] else '-'))
        return 'frame/' + ('d30/' if case.get('d30') else '') + ('scale/' if case.get('scale') else '') + '+'.join(src)
    return 'lookup/' + ('start' if case['start'] else 'service') + ('/timer' if case.get('timer') else '')


def nontrivial(case, obs):
    k = case['kind']
    if k == 'timer':
        return obs.get('ticks', 0) > 0
    if 'raised' in obs:
        return False
    if k == 'use':
        # the native value is not the text itself: the consumer's parsing of text is what makes the routes agree
        return 'raised' not in obs and case['native'] != {'s': case['text']}
    if k == 'seq':
        # some file changes its classification or matched prefix between two configurations of the sequence
        fr = [o.get('frames', []) for o in obs['steps']]
        return any(a != b for x, y in zip(fr, fr[1:]) for a, b in zip(x, y))
    if k == 'ga':
        # a level below "code" decided for some name, and a code value decided for another
        c = dict((a, b) for a, b in case['custom']) if not case['custom_none'] else {}
        return any(c.get(n) is None and n not in GA_OWN and o is not None for n, o in zip(case['names'], obs['values'])) \
            and (case['custom_none'] or any(c.get(n) is not None for n in case['names']))
    fr = obs.get('frames', [])
    if k == 'frame':
        return any(f.get('match') is not None for f in fr) and any(not f.get('app') for f in fr)
    return bool(case['env']) and bool(case['custom'])


def shrink(case):
    if case['kind'] == 'timer':
        return
    if case['kind'] == 'use':
        return
    if case['kind'] == 'seq':
        st, fs = case['steps'], case['files']
        for i in range(len(st)):
            if len(st) > 1:
                yield dict(case, steps=st[:i] + st[i + 1:])
        for i in range(len(fs)):
            if len(fs) > 1:
                yield dict(case, files=fs[:i] + fs[i + 1:])
        return
    if case['kind'] == 'ga':
        ns, cu = case['names'], case['custom']
        for i in range(len(ns)):
            if len(ns) > 1:
                yield dict(case, names=ns[:i] + ns[i + 1:])
        for i in range(len(cu)):
            yield dict(case, custom=cu[:i] + cu[i + 1:])
        for k in list(case['env']):
            yield dict(case, env={a: b for a, b in case['env'].items() if a != k})
        return
    fs = case['files']
    for i in range(len(fs)):
        if len(fs) > 1:
            yield dict(case, files=fs[:i] + fs[i + 1:])
    cu = case['custom']
    for i in range(len(cu)):
        if cu[i][0] != 'APP_ROOT' or case['kind'] == 'lookup':
            yield dict(case, custom=cu[:i] + cu[i + 1:])
    for k in list(case['env']):
        e = dict(case['env'])
        del e[k]
        yield dict(case, env=e)
        if ',' in case['env'][k]:
            items = case['env'][k].split(',')
            for i in range(len(items)):
                yield dict(case, env=dict(case['env'], **{k: ','.join(items[:i] + items[i + 1:])}))
    if case['kind'] == 'lookup':
        ns = case['names']
        for i in range(len(ns)):
            if len(ns) > 1:
                yield dict(case, names=ns[:i] + ns[i + 1:])
        if case.get('timer'):
            yield dict(case, timer=False)
