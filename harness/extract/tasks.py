"""Extracted/Tasks.lean — the task handler and the push service as the source has them now (C09).

Translated (statement by statement, in source order; anything unrecognised is Untranslatable):
  TaskHandler.__init__ (initial state), __check_open, _next_id, submit_task (check, id, pool.submit, pending store,
  done-callback attached, future returned; also the path on which `pool.submit` itself raises: `submitRejected`), the done-callback (removes its id from the pending map),
  PushService.push_snapshot (hands `_push_task` to submit_task — or calls it inline), `_push_task` statement by
  statement (`pushTask`: conversion, the None guard, each `stub.send`, what leaves the task).
Enumerated: every `submit_task` call site in src/deep (`submitSites`: file, function, whether the refusal of a closed
  handler is swallowed there, whether the swallowing handler logs at WARNING or above).
Skeleton (harness/skeleton.py -> Guard.Stmt): TaskHandler.flush — which statement closes the handler, what the loop
  iterates over (a snapshot `list(...)` or the live map), which exception classes the `except` around
  `future.result(...)` catches.  The model reads all of that off the skeleton.
"""
import ast

from pylean import Untranslatable, load, find_def, same_shape, header, lean_str, Translator
from pystate import StateTranslator, Field, strip_doc, lean_bool, has_raise
import skeleton

OUT = 'DeepModel/Extracted/Tasks.lean'
TASK = 'src/deep/task/__init__.py'
PUSH = 'src/deep/push/push_service.py'

PRELUDE = '''
set_option linter.unusedVariables false

namespace Extracted.Tasks
open Guard (Stmt Catch)

/-- fields of `TaskHandler`; futures are identified with the job id they are stored under -/
structure TH where
  isOpen : Bool
  jobId : Int
  /-- callables handed to the executor (`self._pool.submit`), in order -/
  accepted : List Int
  /-- keys of `self._pending` -/
  pending : List Int
deriving Repr, DecidableEq
'''


def gen_init(t):
    init = find_def(t, 'TaskHandler.__init__')
    vals = {}
    for s in strip_doc(init.body):
        if not (isinstance(s, ast.Assign) and ast.unparse(s.targets[0]).startswith('self.')):
            raise Untranslatable('TaskHandler.__init__: ' + ast.unparse(s)[:80])
        vals[s.targets[0].attr] = ast.unparse(s.value)
    want = {'_pool': None, '_pending': '{}', '_job_id': '0', '_lock': 'threading.Lock()', '_open': 'True'}
    if set(vals) != set(want):
        raise Untranslatable('TaskHandler fields changed: %s' % sorted(set(vals) ^ set(want)))
    for k, v in want.items():
        if v is not None and vals[k] != v:
            raise Untranslatable(f'TaskHandler.{k} starts as {vals[k]}')
    pool = ast.parse(vals['_pool']).body[0].value
    if not (isinstance(pool, ast.Call) and ast.unparse(pool.func) == 'ThreadPoolExecutor'):
        raise Untranslatable('TaskHandler._pool is ' + vals['_pool'])
    workers = [k.value.value for k in pool.keywords if k.arg == 'max_workers' and isinstance(k.value, ast.Constant)]
    return ('def TH.init : TH := { isOpen := true, jobId := 0, accepted := [], pending := [] }\n\n'
            '/-- `ThreadPoolExecutor(max_workers=…)` — recorded; no theorem uses the number -/\n'
            f'def poolWorkers : Nat := {workers[0] if workers else 0}\n')


def gen_check_open(t):
    f = find_def(t, 'TaskHandler.__check_open')
    body = strip_doc(f.body)
    if len(body) != 1 or not isinstance(body[0], ast.If) or body[0].orelse or len(body[0].body) != 1 \
            or not isinstance(body[0].body[0], ast.Raise):
        raise Untranslatable('__check_open is not `if <test>: raise <exc>`')
    exc = body[0].body[0].exc
    name = ast.unparse(exc.func if isinstance(exc, ast.Call) else exc)
    cls = [n for n in t.body if isinstance(n, ast.ClassDef) and n.name == name]
    if not cls:
        raise Untranslatable(f'__check_open raises {name}, not a class of this module')
    bases = [ast.unparse(b) for b in cls[0].bases]
    if bases == ['BaseException']:
        klass = '.base'
    elif bases == ['Exception']:
        klass = '.exc'
    else:
        raise Untranslatable(f'{name} bases {bases}')
    test = Translator(subst={'self._open': 'isOpen'}).expr(body[0].test)
    return ('/-- `__check_open`: does it raise for this value of `self._open` -/\n'
            f'def checkOpenRefuses (isOpen : Bool) : Bool := {test}\n\n'
            f'/-- class of `{name}` (bases: {", ".join(bases)}) -/\n'
            f'def refusalClass : Py.Exn := {klass}\n')


def gen_next_id(t):
    f = find_def(t, 'TaskHandler._next_id')
    body = strip_doc(f.body)
    if len(body) == 2 and isinstance(body[0], ast.With) and ast.unparse(body[0].items[0].context_expr) == 'self._lock':
        body = list(body[0].body) + [body[1]]
    tr = StateTranslator({'_job_id': Field('jobId')}, subst={'self._job_id': 'st.jobId'})
    return '/-- `_next_id` -/\n' + tr.method(f, 'def nextId (st : TH) : TH × Int', returns=True, body=body)


def gen_submit(t):
    f = find_def(t, 'TaskHandler.submit_task')
    if [a.arg for a in f.args.args] != ['self', 'task'] or f.args.vararg is None or f.args.vararg.arg != 'args':
        raise Untranslatable('submit_task signature changed')
    lines = []
    cb = None
    attached = False
    returned = False
    for s in strip_doc(f.body):
        src = ast.unparse(s)
        if returned:
            raise Untranslatable('submit_task: statement after return')
        if src == 'self.__check_open()':
            lines.append('if checkOpenRefuses st.isOpen then .error refusalClass else')
        elif src == 'next_id = self._next_id()':
            lines.append('let (st, next_id) := nextId st')
        elif src == 'future = self._pool.submit(task, *args)':
            lines.append('let future := next_id')
            lines.append('let st := { st with accepted := st.accepted ++ [future] }')
        elif src == 'self._pending[next_id] = future':
            lines.append('let st := { st with pending := st.pending ++ [next_id] }')
        elif isinstance(s, ast.FunctionDef) and s.name == 'callback':
            cb = s
        elif src == 'future.add_done_callback(callback)':
            attached = True
        elif src == 'return future':
            lines.append('.ok (st, future)')
            returned = True
        else:
            raise Untranslatable('submit_task: unrecognised statement: ' + src[:80])
    if not returned:
        raise Untranslatable('submit_task does not return the future')
    # the task must not be called by submit_task itself
    for n in ast.walk(f):
        if isinstance(n, ast.Call) and ast.unparse(n.func) == 'task':
            raise Untranslatable('submit_task calls the task inline')
    marks = [i for i, l in enumerate(lines) if 'accepted := st.accepted ++' in l]
    if len(marks) != 1:
        raise Untranslatable('submit_task does not hand the task to the pool exactly once')
    cut = marks[0] + 1
    before, after = lines[:cut], [l for l in lines[cut:] if not l.startswith('.ok')]
    if any(not l.startswith('let st :=') for l in after):
        raise Untranslatable('submit_task: unexpected statement after pool.submit')
    out = ('/-- `submit_task`, the statements up to and including `self._pool.submit(task, *args)`: from here on the\n'
           '    task can run (the future is identified with the job id) -/\n'
           'def submitAccept (st : TH) : Except Py.Exn (TH × Int) :=\n  ' + '\n  '.join(before)
           + '\n  .ok (st, future)\n\n'
           '/-- `submit_task`, the statements after `pool.submit` (the done-callback is attached after them) -/\n'
           'def submitStore (st : TH) (next_id : Int) : TH :=\n  let future := next_id\n  '
           + '\n  '.join(after + ['st']) + '\n\n'
           '/-- `submit_task` as a whole -/\n'
           'def submitTask (st : TH) : Except Py.Exn (TH × Int) :=\n'
           '  match submitAccept st with\n  | .error e => .error e\n  | .ok (st, id) => .ok (submitStore st id, id)\n')
    # the executor refuses the callable: everything before `pool.submit` has happened, nothing after it
    upto = [l for l in before if not l.startswith('let future :=') and 'accepted := st.accepted ++' not in l]
    rej = [l.replace('.error refusalClass', '(st, refusalClass)') for l in upto]
    out += ('\n/-- `submit_task` when the executor itself refuses the callable: `self._pool.submit` raises RuntimeError\n'
            '    ("cannot schedule new futures after shutdown" — the pool was shut down, as at interpreter exit).  The\n'
            '    statements before it have run, none after it: the handler state that is left, and the class raised -/\n'
            'def submitRejected (st : TH) : TH × Py.Exn :=\n  ' + '\n  '.join(rej) + '\n  (st, Py.Exn.exc)\n')
    # callback
    removes = False
    if cb is not None and attached:
        for s in cb.body:
            if isinstance(s, ast.If) and ast.unparse(s.test) == 'next_id in self._pending' and not s.orelse \
                    and [ast.unparse(x) for x in s.body] == ['del self._pending[next_id]']:
                removes = True
            elif isinstance(s, ast.If) and all(ast.unparse(x).startswith('logging.') for x in s.body) and not s.orelse:
                continue
            else:
                raise Untranslatable('done-callback: unrecognised statement: ' + ast.unparse(s)[:80])
    out += ('\n/-- the done-callback attached by `submit_task` -/\n'
            'def callback (st : TH) (next_id : Int) : TH :=\n'
            + ('  if st.pending.contains next_id then { st with pending := st.pending.erase next_id } else st\n'
               if removes else '  st\n')
            + f'\ndef callbackAttached : Bool := {lean_bool(cb is not None and attached)}\n')
    return out


def gen_flush():
    ctx = skeleton.Context.for_repo()
    sk = ctx.skeleton(TASK, 'TaskHandler.flush')
    f = ctx.find(TASK, 'TaskHandler.flush')
    loops = [s for s in f.body if isinstance(s, ast.For)]
    if len(loops) != 1:
        raise Untranslatable('flush: one for loop expected')
    it = ast.unparse(loops[0].iter)
    timeout = None
    for n in ast.walk(loops[0]):
        if isinstance(n, ast.Call) and ast.unparse(n.func).endswith('.result'):
            if len(n.args) == 1 and isinstance(n.args[0], ast.Constant):
                timeout = n.args[0].value
    itn = loops[0].iter
    def is_copy(e):
        return (isinstance(e, ast.Call) and ast.unparse(e.func) in ('list', 'tuple') and len(e.args) == 1
                and not e.keywords)
    snapshot = is_copy(itn)
    if isinstance(itn, ast.Name):
        # a local bound exactly once, to a copy, before the loop
        binds = [n for n in ast.walk(f) if isinstance(n, (ast.Assign, ast.AugAssign, ast.AnnAssign, ast.For, ast.With))
                 and itn.id in [x.id for x in ast.walk(n.targets[0] if isinstance(n, ast.Assign) else
                                                       getattr(n, 'target', None) or ast.Pass())
                                if isinstance(x, ast.Name)]]
        snapshot = (len(binds) == 1 and isinstance(binds[0], ast.Assign) and is_copy(binds[0].value)
                    and binds[0].lineno < loops[0].lineno)
    return ('/-- the flush loop iterates over a copy (`list(...)`/`tuple(...)`), not over the live map -/\n'
            f'def flushIteratesSnapshot : Bool := {lean_bool(snapshot)}\n\n'
            '/-- `TaskHandler.flush` as a guard skeleton (harness/skeleton.py) -/\n'
            'def flushSkeleton : Stmt :=\n' + skeleton.to_lean(sk, 2) + '\n\n'
            '/-- source text of what the flush loop iterates over -/\n'
            f'def flushLoopId : String := {lean_str(it)}\n\n'
            '/-- `future.result(<seconds>)` -/\n'
            f'def flushWaitSeconds : Int := {timeout if isinstance(timeout, int) else -1}\n')


def gen_push(p):
    ps = find_def(p, 'PushService.push_snapshot')
    inline = [n for n in ast.walk(ps) if isinstance(n, ast.Call) and ast.unparse(n.func) == 'self._push_task']
    subs = [n for n in ast.walk(ps) if isinstance(n, ast.Call) and ast.unparse(n.func) == 'self.task_handler.submit_task']
    via = (len(subs) == 1 and len(subs[0].args) == 2 and ast.unparse(subs[0].args[0]) == 'self._push_task'
           and ast.unparse(subs[0].args[1]) == 'snapshot')
    if not via and not inline:
        raise Untranslatable('push_snapshot neither submits nor calls _push_task')
    pt = find_def(p, 'PushService._push_task')
    body = strip_doc(pt.body)
    sends = [n for n in ast.walk(pt) if isinstance(n, ast.Call) and isinstance(n.func, ast.Attribute)
             and n.func.attr == 'send']
    for n in ast.walk(pt):
        if isinstance(n, (ast.For, ast.While)):
            raise Untranslatable('_push_task contains a loop')
    srcs = [ast.unparse(s) for s in body]
    conv = [i for i, s in enumerate(srcs) if s == 'converted = convert_snapshot(snapshot)']
    drop = [i for i, s in enumerate(body) if isinstance(s, ast.If) and ast.unparse(s.test) == 'converted is None'
            and len(s.body) == 1 and isinstance(s.body[0], ast.Return) and not s.orelse]
    send_i = [i for i, s in enumerate(body) if any(x in sends for x in ast.walk(s))]
    if len(conv) != 1 or len(send_i) != len(sends):
        raise Untranslatable('_push_task: convert/send shape changed')
    ordered = bool(conv and send_i and conv[0] < min(send_i))
    drops = bool(drop and send_i and conv[0] < drop[0] < min(send_i))
    return ('/-- `push_snapshot` hands `_push_task` to `submit_task` (exactly once) -/\n'
            f'def pushViaSubmit : Bool := {lean_bool(via)}\n'
            '/-- number of direct calls of `_push_task` in `push_snapshot` (on the calling thread) -/\n'
            f'def pushInlineCalls : Nat := {len(inline)}\n\n'
            '/-- `_push_task`: `stub.send` call sites (no loops), conversion first, unconvertible snapshot dropped -/\n'
            f'def sendsPerTask : Nat := {len(sends)}\n'
            f'def convertsBeforeSend : Bool := {lean_bool(ordered)}\n'
            f'def dropsUnconvertible : Bool := {lean_bool(drops)}\n')


def gen_push_task(p):
    """`PushService._push_task`, statement by statement: how many `stub.send` attempts it makes and what leaves it, for
    every behaviour of `convert_snapshot` (a converted snapshot, None, or an exception it does not catch) and of
    `stub.send` (returns or raises)."""
    f = find_def(p, 'PushService._push_task')
    if [a.arg for a in f.args.args] != ['self', 'snapshot']:
        raise Untranslatable('_push_task signature changed')
    body = strip_doc(f.body)

    def is_log(s):
        return isinstance(s, ast.Expr) and isinstance(s.value, ast.Call) and \
            ast.unparse(s.value.func).split('.')[0] in ('logging',)

    def seq(stmts, ind, have):
        """`have`: 'unknown' before the conversion, 'converted' / 'none' after it"""
        pad = ' ' * ind
        if not stmts:
            return pad + '(n, none)'
        s, rest = stmts[0], stmts[1:]
        src = ast.unparse(s)
        if isinstance(s, (ast.ImportFrom, ast.Import)) or is_log(s) or isinstance(s, ast.Pass):
            return seq(rest, ind, have)
        if src == 'converted = convert_snapshot(snapshot)' and have == 'unknown':
            return (f'{pad}match conv with\n{pad}| .raises e => (n, some e)\n'
                    f'{pad}| .isNone =>\n{seq(rest, ind + 2, "none")}\n'
                    f'{pad}| .converted =>\n{seq(rest, ind + 2, "converted")}')
        if isinstance(s, ast.If) and ast.unparse(s.test) == 'converted is None' and not s.orelse \
                and len(s.body) == 1 and isinstance(s.body[0], ast.Return) and s.body[0].value is None \
                and have != 'unknown':
            return f'{pad}(n, none)' if have == 'none' else seq(rest, ind, have)
        if isinstance(s, ast.Assign) and isinstance(s.value, ast.Call) \
                and ast.unparse(s.value.func) == 'SnapshotServiceStub' and isinstance(s.targets[0], ast.Name):
            # building the stub calls into the channel: it can raise (channel gone / not a channel)
            return (f'{pad}match stub with\n{pad}| some e => (n, some e)\n{pad}| none =>\n'
                    + seq(rest, ind + 2, have))
        if isinstance(s, ast.Expr) and isinstance(s.value, ast.Call) and isinstance(s.value.func, ast.Attribute) \
                and s.value.func.attr == 'send' and have != 'unknown':
            if not s.value.args or ast.unparse(s.value.args[0]) != 'converted':
                raise Untranslatable('_push_task: send of something else than the converted snapshot: ' + src[:80])
            # the arguments are evaluated before `send` is entered: a raising `self.grpc.metadata()` is not a send
            argcalls = [n for a in list(s.value.args) + [k.value for k in s.value.keywords] for n in ast.walk(a)
                        if isinstance(n, ast.Call)]
            pre = (f'{pad}match md with\n{pad}| some e => (n, some e)\n{pad}| none =>\n' if argcalls else '')
            ind2 = ind + 2 if argcalls else ind
            pad2 = ' ' * ind2
            return (pre + f'{pad2}let n := n + 1\n{pad2}match send with\n{pad2}| some e => (n, some e)\n'
                    f'{pad2}| none =>\n{seq(rest, ind2 + 2, have)}')
        if isinstance(s, ast.Return) and s.value is None:
            return f'{pad}(n, none)'
        raise Untranslatable('_push_task: statement outside the subset: ' + src[:80])
    return ('/-- what `convert_snapshot(snapshot)` gives -/\n'
            'inductive ConvOut where\n  | converted\n  | isNone\n  | raises (e : Py.Exn)\nderiving Repr, DecidableEq\n\n'
            '/-- `_push_task`, statement by statement: (send attempts made, the exception that leaves the task).\n'
            '    `stub` = building `SnapshotServiceStub(channel)` raises, `md` = an argument of `stub.send`\n'
            '    (`self.grpc.metadata()`) raises before `send` is entered, `send` = `stub.send` itself raises -/\n'
            'def pushTask (conv : ConvOut) (stub md send : Option Py.Exn) : Nat × Option Py.Exn :=\n'
            '  let n := 0\n' + seq(body, 2, 'unknown') + '\n')


WARN_LOGS = {'warning', 'warn', 'error', 'exception', 'critical', 'fatal'}


def _qualnames(tree):
    """{id(function node): 'Class.method' | 'function'} for every def of a module"""
    out = {}

    def walk(node, prefix):
        for n in ast.iter_child_nodes(node):
            if isinstance(n, (ast.FunctionDef, ast.AsyncFunctionDef)):
                out[id(n)] = (prefix + n.name, n)
                walk(n, prefix + n.name + '.')
            elif isinstance(n, ast.ClassDef):
                walk(n, prefix + n.name + '.')
            else:
                walk(n, prefix)
    walk(tree, '')
    return out


def _swallow_info(fdef, c, refusal, is_exc):
    """(swallowed, logs) for the call `c` inside `fdef`: is it in the body of a `try` (of the same def) with an `except`
    that matches the refusal class and does not raise again; does such a handler log at WARNING or above"""
    swallowed, logs = False, False
    for tr in [x for x in ast.walk(fdef) if isinstance(x, ast.Try)]:
        if not any(c is y for b in tr.body for y in ast.walk(b)):
            continue
        for h in tr.handlers:
            names = ([ast.unparse(e) for e in h.type.elts] if isinstance(h.type, ast.Tuple)
                     else [ast.unparse(h.type)] if h.type is not None else ['BaseException'])
            names = [n.split('.')[-1] for n in names]
            match = (refusal in names or 'BaseException' in names or (is_exc and 'Exception' in names))
            if match and not has_raise(h.body):
                swallowed = True
                logs = logs or any(isinstance(x, ast.Call) and isinstance(x.func, ast.Attribute)
                                   and x.func.attr in WARN_LOGS and 'logging' in ast.unparse(x.func.value)
                                   for b in h.body for x in ast.walk(b))
    return swallowed, logs


def _own_calls(fdef, pred):
    calls = [n for n in ast.walk(fdef) if isinstance(n, ast.Call) and pred(n)]
    nested = [x for x in ast.walk(fdef) if isinstance(x, (ast.FunctionDef, ast.AsyncFunctionDef, ast.Lambda))
              and x is not fdef]
    return [c for c in calls if not any(c in list(ast.walk(nd)) for nd in nested)]


def gen_submitters(t):
    """every call of `<something>.submit_task(...)` in src/deep — the in-tree submitters — and, ONE LEVEL UP, every
    in-tree call of a function that contains such a call (by method / function name).  For each: is the call inside a
    `try` of the same def whose `except` matches the refusal a closed handler raises and does not raise again, and does
    that handler log at WARNING or above; for the sites also: is the call guarded by `if <receiver> is not None:`
    without an `else` (no handler: the work is dropped without a word).
    NOT seen (the dynamic `submitters` stream of the check is what covers them): callers two or more levels up,
    aliases (`f = h.submit_task; f(..)`), getattr / functools.partial, contextlib.suppress, `try: … finally: return`."""
    import os
    import pylean
    root = os.path.join(pylean.REPO, 'src', 'deep')
    cf = find_def(t, 'TaskHandler.__check_open')
    exc = strip_doc(cf.body)[0].body[0].exc
    refusal = ast.unparse(exc.func if isinstance(exc, ast.Call) else exc)
    cls = [n for n in t.body if isinstance(n, ast.ClassDef) and n.name == refusal]
    bases = [ast.unparse(b) for b in cls[0].bases] if cls else []
    is_exc = bases == ['Exception']
    mods = []
    for dirpath, _, files in sorted(os.walk(root)):
        for fn in sorted(files):
            if not fn.endswith('.py'):
                continue
            full = os.path.join(dirpath, fn)
            rel = os.path.relpath(full, os.path.join(pylean.REPO, 'src'))
            try:
                tree = ast.parse(open(full, encoding='utf-8').read())
            except SyntaxError as e:
                raise Untranslatable(f'{rel}: {e}')
            mods.append((rel, sorted(_qualnames(tree).values(), key=lambda q: q[1].lineno)))
    sites = []
    for rel, quals in mods:
        for qual, fdef in quals:
            for c in _own_calls(fdef, lambda n: isinstance(n.func, ast.Attribute) and n.func.attr == 'submit_task'):
                sw, lg = _swallow_info(fdef, c, refusal, is_exc)
                recv = ast.unparse(c.func.value)
                guard = any(isinstance(i, ast.If) and ast.unparse(i.test) == f'{recv} is not None' and not i.orelse
                            and any(c is y for b in i.body for y in ast.walk(b)) for i in ast.walk(fdef))
                sites.append((rel, qual, sw, lg, guard))
    if not sites:
        raise Untranslatable('no submit_task call site found in src/deep')
    names = {q.split('.')[-1] for _, q, _, _, _ in sites}
    callers = []
    for rel, quals in mods:
        for qual, fdef in quals:
            def calls_site(n):
                f = n.func
                return (isinstance(f, ast.Attribute) and f.attr in names) or (isinstance(f, ast.Name) and f.id in names)
            for c in _own_calls(fdef, calls_site):
                callee = c.func.attr if isinstance(c.func, ast.Attribute) else c.func.id
                sw, lg = _swallow_info(fdef, c, refusal, is_exc)
                callers.append((rel, f'{qual} -> {callee}', sw, lg))
    row = lambda r, q, sw, lg, g: f'⟨{lean_str(r)}, {lean_str(q)}, {lean_bool(sw)}, {lean_bool(lg)}, {lean_bool(g)}⟩'   # noqa: E731
    rows = ',\n   '.join(row(*x) for x in sites)
    crow = ',\n   '.join(row(r, q, sw, lg, False) for r, q, sw, lg in callers)
    return ('/-- a place in src/deep that hands work to the task handler (`….submit_task(…)`), or a call of such a function -/\n'
            'structure SubmitSite where\n  file : String\n  func : String\n'
            '  /-- the call stands in a `try` (of the same def) whose `except` matches the refusal of a closed handler and\n'
            '      does not raise again -/\n'
            '  swallowsRefusal : Bool\n'
            '  /-- that handler logs at WARNING or above -/\n'
            '  handlerLogs : Bool\n'
            '  /-- the call is guarded by `if <handler> is not None:` with no `else`: without a handler nothing happens -/\n'
            '  noneGuard : Bool\nderiving Repr, DecidableEq\n\n'
            '/-- EVERY `submit_task` call site of src/deep (found by walking all modules), in path / source order -/\n'
            f'def submitSites : List SubmitSite :=\n  [{rows}]\n\n'
            '/-- one level up: every in-tree call (by name) of a function that contains a submit site, with what ITS def does\n'
            '    around the call (`func` = "caller -> callee") -/\n'
            f'def submitCallers : List SubmitSite :=\n  [{crow}]\n')


def generate():
    t, p = load(TASK), load(PUSH)
    parts = [header('task handler and push service', [TASK, PUSH]).replace(
        'import DeepModel.Py\n', 'import DeepModel.Py\nimport DeepModel.Model.Guard\n'), PRELUDE]
    parts.append(gen_init(t))
    parts.append(gen_check_open(t))
    parts.append(gen_next_id(t))
    parts.append(gen_submit(t))
    parts.append(gen_flush())
    parts.append(gen_push(p))
    parts.append(gen_push_task(p))
    parts.append(gen_submitters(t))
    parts.append('end Extracted.Tasks\n')
    return '\n'.join(parts)
