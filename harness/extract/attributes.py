"""Extracted/Attributes.lean — bounded attribute store and resource identity (C18), regenerated from
src/deep/api/attributes/__init__.py and src/deep/api/resource/__init__.py.

Translated to Lean (harness/pylean_res.py on top of pylean):
  _VALID_ATTR_VALUE_TYPES; _clean_attribute_value; _clean_attribute (the element loop becomes a structurally
  recursive helper with the accumulators `sequence_first_valid_type`, `cleaned_seq`);
  BoundedAttributes.__setitem__ (frozen test, cap-0 branch, cleaning, key-present branch, evict branch with the
  `last=` flag of popitem, the counter updates — in the order the source has them), __delitem__, merge_in;
  the schema rule of Resource.merge; the service-name fallback text of Resource.create;
  DeepResourceDetector.detect STATEMENT BY STATEMENT (`detectEnv` + the item loop `detectLoop`: the truthiness test of
  DEEP_RESOURCE_ATTRIBUTES, the split at ",", the try/except ValueError around the `key, value = item.split("=",
  maxsplit=1)` unpacking with its `continue`, strip / unquote of the value, the strip of the key, the dict store, the
  DEEP_SERVICE_NAME override afterwards, the dict handed to Resource(...)) over the vocabulary of Model/ResEnv.lean.
Extracted as constants: the default resource (keys and values, version read from deep/version.py), the names of the
  resource environment variables, SERVICE_NAME / PROCESS_EXECUTABLE_NAME, the order of the sources in Resource.create.
Checked shapes (Untranslatable when gone): BoundedAttributes.__init__ (validation, counters, initial attributes set
  before `_immutable`), BoundedAttributes.copy, Resource.__init__, the copy/update/construct frame of Resource.merge,
  the frame of Resource.create, the resource loop of Deep.start, convert_resource, ConfigService.plugins (getter/setter
  store the list as given) and resource_providers (type filter of that list, in order).
"""
import ast

from pylean import Untranslatable, load, find_def, same_shape, header, lean_str, module_constants
from pylean_res import XTranslator, strip_doc

OUT = 'DeepModel/Extracted/Attributes.lean'
ATTR = 'src/deep/api/attributes/__init__.py'
RES = 'src/deep/api/resource/__init__.py'
VERSION = 'src/deep/version.py'
DEEP = 'src/deep/api/deep.py'
GRPC = 'src/deep/grpc/__init__.py'

INIT_TEMPLATE = '''
if max_length is not None:
    if not isinstance(max_length, int) or max_length < 0:
        raise ValueError("max_length must be valid int greater or equal to 0")
self.max_length = max_length
self.dropped = 0
self.max_value_len = max_value_len
self._dict = OrderedDict()
self._lock = threading.Lock()
if attributes:
    for key, value in attributes.items():
        self[key] = value
self._immutable = immutable
'''

RES_INIT_TEMPLATE = '''
self._attributes = BoundedAttributes(attributes=attributes)
if schema_url is None:
    schema_url = ""
self._schema_url = schema_url
'''

START_LOOP_TEMPLATE = '''
default_resource = Resource.create()
for provider in self.config.resource_providers:
    try:
        plugin_resource = provider.resource()
        if plugin_resource:
            default_resource = default_resource.merge(plugin_resource)
    except Exception:
        deep.logging.exception("Failed to process plugin resource {}", provider.name)
self.config.resource = default_resource
'''

CONVERT_ATTRS_TEMPLATE = '''
return Resource(dropped_attributes_count=attributes.dropped,
                attributes=[KeyValue(key=k, value=convert_value(v)) for k, v in attributes.items()])
'''


def lean_list(xs):
    return '[' + ', '.join(xs) + ']'


# ------------------------------------------------------------------------------------------ state statements
def state_hook(tr, s, rest, k):
    """statements of BoundedAttributes methods that act on `self` — translated to updates of the record `st`."""
    u = ast.unparse(s)
    if isinstance(s, ast.AugAssign) and ast.unparse(s.target) == 'self.dropped' and isinstance(s.op, ast.Add):
        return (f'let st := {{ st with dropped := st.dropped + {tr.expr(s.value)} }}\n' + tr.block(rest, k))
    if isinstance(s, ast.Delete) and len(s.targets) == 1 and ast.unparse(s.targets[0]) == 'self._dict[key]':
        body = 'let st := { st with dict := d__ }\n' + tr.block(rest, k)
        return ('match OD.del st.dict key with\n| .error e => .error e\n| .ok d__ =>\n' + _ind(body))
    if isinstance(s, ast.Expr) and isinstance(s.value, ast.Call) \
            and ast.unparse(s.value.func) == 'self._dict.popitem':
        c = s.value
        if c.args or len(c.keywords) != 1 or c.keywords[0].arg != 'last' \
                or not isinstance(c.keywords[0].value, ast.Constant) \
                or not isinstance(c.keywords[0].value.value, bool):
            raise Untranslatable('popitem call: ' + u)
        last = 'true' if c.keywords[0].value.value else 'false'
        body = 'let st := { st with dict := d__ }\n' + tr.block(rest, k)
        return (f'match OD.popitem st.dict {last} with\n| .error e => .error e\n| .ok d__ =>\n' + _ind(body))
    if isinstance(s, ast.Assign) and len(s.targets) == 1 and ast.unparse(s.targets[0]) == 'self._dict[key]':
        return (f'let st := {{ st with dict := OD.set st.dict key {tr.expr(s.value)} }}\n' + tr.block(rest, k))
    return None


def _ind(t):
    import textwrap
    return textwrap.indent(t, '  ')


def state_translator():
    return XTranslator(
        int_type='Nat',
        subst={"getattr(self, '_immutable', False)": 'st.frozen',
               'self.max_length': 'st.cap', 'self.max_value_len': 'st.maxValLen',
               'len(self._dict)': '(OD.len st.dict)',
               'key in self._dict': '(OD.contains st.dict key)',
               'value is not None': '(!(Val.isNone value))'},
        calls={'_clean_attribute': lambda a: f'(cleanAttribute {a[0]} {a[1]} {a[2]})'},
        stmt_hooks=[state_hook], on_raise=lambda e: f'.error {lean_str(e)}',
        transparent_with=('self._lock',), ret_none='.ok st')


def under_lock(fdef):
    body = strip_doc(fdef.body)
    return (len(body) == 2 and isinstance(body[0], ast.If) and not body[0].orelse
            and ast.unparse(body[0].test) == "getattr(self, '_immutable', False)"
            and len(body[0].body) == 1 and isinstance(body[0].body[0], ast.Raise)
            and isinstance(body[1], ast.With) and len(body[1].items) == 1
            and ast.unparse(body[1].items[0].context_expr) == 'self._lock')


def merge_in_loop(fdef, what):
    """`for k, v in attributes.items(): self[k] = v` — the only statement of merge_in."""
    body = strip_doc(fdef.body)
    if len(body) != 1 or not same_shape(fdef, 'for k, v in attributes.items():\n    self[k] = v'):
        raise Untranslatable(what + ' changed shape')
    return ('/-- `merge_in`: item assignment for every item, in the iteration order of the argument; an exception\n'
            '    leaves what was set so far (second component = the exception). -/\n'
            'def mergeIn (st : BA) : List (Key × Val) → BA × Option String\n'
            '  | [] => (st, none)\n'
            '  | (k, v) :: rest =>\n'
            '    match setItem st k v with\n'
            '    | .error e => (st, some e)\n'
            '    | .ok st => mergeIn st rest\n')


# ------------------------------------------------------------------------------------------ DeepResourceDetector.detect
ENV_READS = {'os.environ.get(DEEP_RESOURCE_ATTRIBUTES)': 'resAttrs', 'os.environ.get(DEEP_SERVICE_NAME)': 'svcName',
             'os.getenv(DEEP_RESOURCE_ATTRIBUTES)': 'resAttrs', 'os.getenv(DEEP_SERVICE_NAME)': 'svcName'}


class DetectTr(XTranslator):
    def e_Call(self, n):
        # str.strip() with no argument: the ASCII strip of Model/ResEnv.lean (Py.strip lacks \x1c-\x1f)
        if isinstance(n.func, ast.Attribute) and n.func.attr == 'strip' and not n.args and not n.keywords:
            return f'(asciiStrip {self.expr(n.func.value)})'
        return super().e_Call(n)

    def e_Dict(self, n):
        if n.keys:
            raise Untranslatable('dict display: ' + ast.unparse(n))
        return '[]'


def detect_hook(tr, s, rest, k):
    # X = os.environ.get(NAME): X is an optional text from here on
    if isinstance(s, ast.Assign) and len(s.targets) == 1 and isinstance(s.targets[0], ast.Name) \
            and ast.unparse(s.value) in ENV_READS:
        x = s.targets[0].id
        tr.opt_text.add(x)
        tr.truthy[x] = f'(envTruthy {x})'
        tr.iters[f"{x}.split(',')"] = (f'(splitItems (envText {x}))', 'String')
        return f'let {x} := {ENV_READS[ast.unparse(s.value)]}\n{tr.block(rest, k)}'
    # try: a, b = item.split("=", maxsplit=1)   except ValueError [as e]: <handler>
    if isinstance(s, ast.Try):
        ok = (len(s.body) == 1 and isinstance(s.body[0], ast.Assign) and len(s.body[0].targets) == 1
              and isinstance(s.body[0].targets[0], ast.Tuple) and len(s.body[0].targets[0].elts) == 2
              and all(isinstance(e, ast.Name) for e in s.body[0].targets[0].elts)
              and len(s.handlers) == 1 and s.handlers[0].type is not None
              and ast.unparse(s.handlers[0].type) == 'ValueError' and not s.orelse and not s.finalbody)
        if ok:
            c = s.body[0].value
            ok = (isinstance(c, ast.Call) and isinstance(c.func, ast.Attribute) and c.func.attr == 'split'
                  and isinstance(c.func.value, ast.Name) and c.func.value.id not in tr.opt_text
                  and ((len(c.args) == 1 and len(c.keywords) == 1 and c.keywords[0].arg == 'maxsplit'
                        and ast.unparse(c.keywords[0].value) == '1')
                       or (len(c.args) == 2 and not c.keywords and ast.unparse(c.args[1]) == '1'))
                  and isinstance(c.args[0], ast.Constant) and c.args[0].value == '=')
        if not ok:
            raise Untranslatable('try statement of detect: ' + ast.unparse(s)[:80])
        a, b = (e.id for e in s.body[0].targets[0].elts)
        h = tr.block(list(s.handlers[0].body), tr.block(rest, k) if (rest or k is not None) else None)
        after = tr.block(rest, k)
        return (f'match splitKV {c.func.value.id} with\n| none =>\n{_ind(h)}\n| some ({a}, {b}) =>\n{_ind(after)}')
    # D[k] = v on the dict being built
    if isinstance(s, ast.Assign) and len(s.targets) == 1 and isinstance(s.targets[0], ast.Subscript) \
            and isinstance(s.targets[0].value, ast.Name) and tr.types.get(s.targets[0].value.id) == 'OD':
        d = s.targets[0].value.id
        v = s.value
        vt = f'(envText {v.id})' if isinstance(v, ast.Name) and v.id in tr.opt_text else tr.expr(v)
        return (f'let {d} := OD.set {d} (Key.str {tr.expr(s.targets[0].slice)}) (strVal {vt})\n'
                + tr.block(rest, k))
    return None


def detect_function(fdef):
    if [a.arg for a in fdef.args.args] != ['self']:
        raise Untranslatable('detect signature')
    body = strip_doc(fdef.body)
    # the dict the function builds: the local initialised with `{}`
    dicts = [s.targets[0].id for s in body if isinstance(s, ast.Assign) and len(s.targets) == 1
             and isinstance(s.targets[0], ast.Name) and isinstance(s.value, ast.Dict) and not s.value.keys]
    if len(dicts) != 1:
        raise Untranslatable('detect no longer builds one dict')
    tr = DetectTr(types={dicts[0]: 'OD'}, names={'SERVICE_NAME': 'serviceNameKey'},
                  calls={'parse.unquote': lambda a: f'(unquoteS {a[0]})',
                         'unquote': lambda a: f'(unquoteS {a[0]})',
                         'Resource': lambda a: _detect_result(a)},
                  stmt_hooks=[detect_hook], params='(resAttrs svcName : Option String)', loop_name='detectLoop',
                  result_type='OD')
    tr.param_names = ['resAttrs', 'svcName']
    tr.opt_text = set()
    text = tr.function(fdef, 'def detectEnv (resAttrs svcName : Option String) : OD')
    doc = ('/-- `DeepResourceDetector.detect()`, statement by statement: the dict handed to `Resource(...)`.\n'
           '    `resAttrs` / `svcName` = `os.environ.get` of DEEP_RESOURCE_ATTRIBUTES / DEEP_SERVICE_NAME; an item without\n'
           '    "=" is the caught ValueError (`continue`). -/\n')
    return list(tr.aux) + [doc + text]


def _detect_result(a):
    if len(a) != 1:
        raise Untranslatable('detect no longer returns Resource(<dict>)')
    return a[0]


def generate():
    attr = load(ATTR)
    res = load(RES)
    consts = module_constants(res)
    vconsts = module_constants(load(VERSION))
    parts = [header('bounded attributes and resource identity', [ATTR, RES, VERSION, DEEP, GRPC]).rstrip('\n'),
             'import DeepModel.Model.AttrBase\nimport DeepModel.Model.ResEnv\n', 'set_option linter.unusedVariables false\n',
             'namespace Extracted.Attributes\nopen Attr Resource\n']

    # _VALID_ATTR_VALUE_TYPES
    valid = None
    for n in attr.body:
        if isinstance(n, ast.Assign) and ast.unparse(n.targets[0]) == '_VALID_ATTR_VALUE_TYPES':
            if not isinstance(n.value, ast.Tuple) or not all(isinstance(e, ast.Name) for e in n.value.elts):
                raise Untranslatable('_VALID_ATTR_VALUE_TYPES is not a tuple of type names')
            valid = [e.id for e in n.value.elts]
    if valid is None:
        raise Untranslatable('_VALID_ATTR_VALUE_TYPES not found')
    parts.append(f'def validAttrValueTypes : List String := {lean_list(lean_str(v) for v in valid)}\n')

    type_names = {'bytes': '["bytes"]', 'str': '["str"]', '_VALID_ATTR_VALUE_TYPES': 'validAttrValueTypes'}
    common_calls = {'isinstance': lambda a: f'(isInstance {a[0]} {a[1]})',
                    'type': lambda a: f'(PyObj.tyName {a[0]})',
                    'tuple': lambda a: f'(Val.seq {a[0]})'}

    # _clean_attribute_value
    cav = find_def(attr, '_clean_attribute_value')
    tr = XTranslator(names=dict(type_names), none='Scalar.none', calls=dict(common_calls),
                     subst={'value is None': '(Scalar.isNone value)', 'limit is not None': '(limit != none)'})
    tr.e_Subscript = lambda n: _slice(tr, n)
    parts.append(tr.function(cav, 'def cleanAttributeValue (value : Scalar) (limit : Option Int) : Scalar'))

    # _clean_attribute
    ca = find_def(attr, '_clean_attribute')
    calls = dict(common_calls)
    calls['_clean_attribute_value'] = lambda a: f'(cleanAttributeValue {a[0]} {a[1]})'
    tr = XTranslator(names=dict(type_names), none='Val.none', calls=calls,
                     truthy={'key': '(Key.truthy key)'},
                     types={'sequence_first_valid_type': 'Option String', 'cleaned_seq': 'List Scalar'},
                     subst={'isinstance(value, Sequence)': '(Val.isSequence value)',
                            'element is None': '(Scalar.isNone element)',
                            # the scalar cleaner applied to the whole value (reached for scalar values only)
                            '_clean_attribute_value(value, max_len)':
                                '(Val.mapScalar (fun s => cleanAttributeValue s max_len) value)'},
                     iters={'value': ('(Val.elems value)', 'Scalar')},
                     params='(key : Key) (value : Val) (max_len : Option Int)', loop_name='cleanAttributeLoop',
                     result_type='Val')
    tr.param_names = ['key', 'value', 'max_len']
    text = tr.function(ca, 'def cleanAttribute (key : Key) (value : Val) (max_len : Option Int) : Val')
    parts.extend(tr.aux)
    parts.append(text)

    # BoundedAttributes
    if not same_shape(find_def(attr, 'BoundedAttributes.__init__'), INIT_TEMPLATE):
        raise Untranslatable('BoundedAttributes.__init__ changed shape')
    if not same_shape(find_def(attr, 'BoundedAttributes.copy'), 'return self._dict.copy()'):
        raise Untranslatable('BoundedAttributes.copy changed shape')
    si = find_def(attr, 'BoundedAttributes.__setitem__')
    if [a.arg for a in si.args.args] != ['self', 'key', 'value']:
        raise Untranslatable('__setitem__ signature')
    parts.append(state_translator().function(si, 'def setItem (st : BA) (key : Key) (value : Val) : Except String BA'))
    di = find_def(attr, 'BoundedAttributes.__delitem__')
    parts.append(state_translator().function(di, 'def delItem (st : BA) (key : Key) : Except String BA'))
    parts.append(merge_in_loop(find_def(attr, 'BoundedAttributes.merge_in'), 'BoundedAttributes.merge_in'))
    for fdef, name in ((si, 'setItemAtomic'), (di, 'delItemAtomic')):
        parts.append(f'/-- is every statement of the method other than the immutability test inside `with self._lock`? -/\n'
                     f'def {name} : Bool := {"true" if under_lock(fdef) else "false"}\n')

    # ---------------------------------------------------------------- resource
    # how Resource.__init__ builds its container: the arguments of the BoundedAttributes(...) call are extracted as a
    # REAL VALUE (a count limit, a value limit or immutable=False would change what `Res.new` must be); the rest of the
    # constructor is shape-checked with the call's arguments put aside
    import copy
    rinit = copy.deepcopy(find_def(res, 'Resource.__init__'))
    container_args = None
    for n in ast.walk(rinit):
        if isinstance(n, ast.Assign) and ast.unparse(n.targets[0]) == 'self._attributes' \
                and isinstance(n.value, ast.Call) and ast.unparse(n.value.func) == 'BoundedAttributes':
            container_args = [ast.unparse(a) for a in n.value.args] + \
                [f'{kw.arg}={ast.unparse(kw.value)}' for kw in n.value.keywords]
            n.value.args, n.value.keywords = [], [ast.keyword(arg='attributes', value=ast.Name(id='attributes', ctx=ast.Load()))]
    if container_args is None or not same_shape(rinit, RES_INIT_TEMPLATE):
        raise Untranslatable('Resource.__init__ changed shape')
    parts.append('/-- the arguments `Resource.__init__` gives to `BoundedAttributes(...)`, as written now: only the attributes —\n'
                 '    no max_length (the container of a resource is UNBOUNDED: nothing is evicted however many keys the\n'
                 '    sources have), no max_value_len, immutable left at its default True.  `Res.new` reads exactly this. -/\n'
                 'def resourceContainerArgs : List String := [' + ', '.join(lean_str(a) for a in container_args) + ']\n')
    for prop, field in (('attributes', '_attributes'), ('schema_url', '_schema_url')):
        if not same_shape(find_def(res, 'Resource.' + prop), f'return self.{field}'):
            raise Untranslatable(f'Resource.{prop} is no longer a plain getter')
    mg = find_def(res, 'Resource.merge')
    body = strip_doc(mg.body)
    if len(body) < 4 or ast.unparse(body[0]) != 'merged_attributes = self.attributes.copy()' \
            or ast.unparse(body[1]) != 'merged_attributes.update(other.attributes)':
        raise Untranslatable('Resource.merge no longer copies its own attributes and updates the copy')
    tr = XTranslator(subst={'self.schema_url': 'selfUrl', 'other.schema_url': 'otherUrl', 'self': 'none'},
                     calls={'Resource': lambda a: _merge_result(a)})
    schema = tr.block(body[2:], None)
    parts.append('/-- schema rule of `Resource.merge`: `some url` = the merged resource is built from the updated copy with\n'
                 '    that schema url, `none` = the method returns `self`. -/\n'
                 'def mergeSchema (selfUrl otherUrl : String) : Option String :=\n' + _ind(schema) + '\n')

    # Resource.create
    cr = find_def(res, 'Resource.create')
    cb = strip_doc(cr.body)
    want_frame = ['if not attributes:\n    attributes = {}',
                  'resource = _DEFAULT_RESOURCE.merge(DeepResourceDetector().detect()).merge('
                  'Resource(attributes, schema_url))']
    if len(cb) != 4 or [ast.unparse(x) for x in cb[:2]] != [ast.unparse(ast.parse(w).body[0]) for w in want_frame] \
            or ast.unparse(cb[3]) != 'return resource' or not isinstance(cb[2], ast.If) or cb[2].orelse \
            or ast.unparse(cb[2].test) != 'not resource.attributes.get(SERVICE_NAME, None)':
        raise Untranslatable('Resource.create changed shape')
    fb = list(cb[2].body)
    if len(fb) != 4 or ast.unparse(fb[1]) != \
            'process_executable_name = resource.attributes.get(PROCESS_EXECUTABLE_NAME, None)' \
            or ast.unparse(fb[3]) != \
            'resource = resource.merge(Resource({SERVICE_NAME: default_service_name}, schema_url))':
        raise Untranslatable('service name fallback of Resource.create changed shape')
    # `":" + str(process_executable_name)` (any attribute value) or `":" + process_executable_name` (text only)
    aug = [n for n in ast.walk(fb[2]) if isinstance(n, ast.AugAssign)]
    srcs = sorted(ast.unparse(n.value) for n in aug)
    if srcs == ["':' + str(process_executable_name)", "':python'"]:
        coerces = 'true'
    elif srcs == ["':' + process_executable_name", "':python'"]:
        coerces = 'false'
    else:
        raise Untranslatable('service name fallback builds its text from ' + repr(srcs))
    tr = XTranslator(types={'default_service_name': 'String'}, truthy={'process_executable_name': 'penTruthy'},
                     subst={'str(process_executable_name)': 'penText'}, names={'process_executable_name': 'penText'})
    tr.e_BinOp = lambda n: _concat(tr, n)
    fallback = tr.block([fb[0], fb[2], ast.parse('return default_service_name').body[0]], None)
    parts.append('/-- the fallback service name of `Resource.create`: `penTruthy` = truth value of the\n'
                 '    `process.executable.name` attribute (false when absent), `penText` = its text. -/\n'
                 'def defaultServiceName (penTruthy : Bool) (penText : String) : String :=\n' + _ind(fallback) + '\n')
    parts.append('/-- is the attribute converted with str() before it is concatenated? (otherwise a truthy value that is\n'
                 '    not text raises TypeError out of Resource.create) -/\n'
                 f'def fallbackCoercesWithStr : Bool := {coerces}\n')
    parts.append('/-- sources merged by `Resource.create`, first = lowest precedence -/\n'
                 'def createChain : List String := ["default", "detected", "given"]\n')

    for name in ('SERVICE_NAME', 'PROCESS_EXECUTABLE_NAME', 'DEEP_RESOURCE_ATTRIBUTES', 'DEEP_SERVICE_NAME',
                 'TELEMETRY_SDK_LANGUAGE', 'TELEMETRY_SDK_NAME', 'TELEMETRY_SDK_VERSION'):
        if not isinstance(consts.get(name), str):
            raise Untranslatable(f'constant {name} not found')
    parts.append(f'def serviceNameKey : String := {lean_str(consts["SERVICE_NAME"])}\n'
                 f'def processExecutableNameKey : String := {lean_str(consts["PROCESS_EXECUTABLE_NAME"])}\n'
                 f'def envResourceAttributes : String := {lean_str(consts["DEEP_RESOURCE_ATTRIBUTES"])}\n'
                 f'def envServiceName : String := {lean_str(consts["DEEP_SERVICE_NAME"])}\n')

    # _DEFAULT_RESOURCE
    dflt = None
    for n in res.body:
        if isinstance(n, ast.Assign) and ast.unparse(n.targets[0]) == '_DEFAULT_RESOURCE':
            v = n.value
            if not (isinstance(v, ast.Call) and ast.unparse(v.func) == 'Resource' and len(v.args) == 1
                    and isinstance(v.args[0], ast.Dict) and not v.keywords):
                raise Untranslatable('_DEFAULT_RESOURCE changed shape')
            dflt = []
            for kk, vv in zip(v.args[0].keys, v.args[0].values):
                key = consts.get(kk.id) if isinstance(kk, ast.Name) else None
                if isinstance(vv, ast.Constant) and isinstance(vv.value, str):
                    val = vv.value
                elif ast.unparse(vv) == '_DEEP_SDK_VERSION':
                    val = vconsts.get('__version__')
                else:
                    val = None
                if not isinstance(key, str) or not isinstance(val, str):
                    raise Untranslatable('_DEFAULT_RESOURCE entry ' + ast.unparse(kk))
                dflt.append((key, val))
    if dflt is None:
        raise Untranslatable('_DEFAULT_RESOURCE not found')
    vs = [n for n in res.body if isinstance(n, ast.Assign) and ast.unparse(n.targets[0]) == '_DEEP_SDK_VERSION']
    if len(vs) != 1 or ast.unparse(vs[0].value) != 'deep.version.__version__':
        raise Untranslatable('_DEEP_SDK_VERSION is no longer deep.version.__version__')
    parts.append('def defaultResource : List (String × String) :=\n  ' +
                 lean_list(f'({lean_str(k)}, {lean_str(v)})' for k, v in dflt) + '\n')
    parts.append('/-- the keys the property calls the SDK identity keys, as the constants are named in the source -/\n'
                 'def sdkKeys : List String := ' +
                 lean_list(lean_str(consts[c]) for c in ('TELEMETRY_SDK_LANGUAGE', 'TELEMETRY_SDK_NAME',
                                                         'TELEMETRY_SDK_VERSION')) + '\n')

    # detector: translated
    parts.extend(detect_function(find_def(res, 'DeepResourceDetector.detect')))

    # Deep.start loop, convert_resource: shapes
    start = find_def(load(DEEP), 'Deep.start')
    sb = strip_doc(start.body)
    want = [ast.dump(x) for x in ast.parse(START_LOOP_TEMPLATE.strip()).body]
    dumped = [ast.dump(x) for x in sb]
    pos = [i for i in range(len(dumped)) if dumped[i:i + len(want)] == want]
    if len(pos) != 1:
        raise Untranslatable('resource loop of Deep.start changed shape')
    g = load(GRPC)
    if not same_shape(find_def(g, 'convert_resource'), 'return __convert_attributes(resource.attributes)') \
            or not same_shape(find_def(g, '__convert_attributes'), CONVERT_ATTRS_TEMPLATE):
        raise Untranslatable('convert_resource changed shape')
    # which providers the loop of Deep.start sees: every configured plugin of the provider type, in the configured order
    svc = load('src/deep/config/config_service.py')
    cls = find_def(svc, 'ConfigService')
    setters = [n for n in cls.body if isinstance(n, ast.FunctionDef) and n.name == 'plugins'
               and any(ast.unparse(d) == 'plugins.setter' for d in n.decorator_list)]
    getters = [n for n in cls.body if isinstance(n, ast.FunctionDef) and n.name == 'plugins'
               and any(ast.unparse(d) == 'property' for d in n.decorator_list)]
    if len(setters) != 1 or not same_shape(setters[0], 'self._plugins = plugins') \
            or len(getters) != 1 or not same_shape(getters[0], 'return self._plugins'):
        raise Untranslatable('ConfigService.plugins no longer stores / returns the plugin list as given')
    if not same_shape(find_def(svc, 'ConfigService.resource_providers'),
                      'return self.__plugin_generator(ResourceProvider)') \
            or not same_shape(find_def(svc, 'ConfigService.__plugin_generator'),
                              'for plugin in self._plugins:\n    if isinstance(plugin, plugin_type):\n        yield plugin'):
        raise Untranslatable('ConfigService.resource_providers is no longer the type filter of the plugin list')
    # the route from configuration to the fold, AS WRITTEN in the source now (a real value compared by the theorem)
    proute = []
    for x in ast.walk(start):
        if isinstance(x, ast.Assign) and ast.unparse(x.targets[0]) in ('self.config.plugins', 'self.config._plugins'):
            proute.append('Deep.start: ' + ast.unparse(x))
        if isinstance(x, ast.For) and 'provider' in ast.unparse(x.iter):
            proute.append('Deep.start: for ' + ast.unparse(x.target) + ' in ' + ast.unparse(x.iter))
    proute += ['ConfigService.plugins.setter: ' + ast.unparse(x) for x in strip_doc(setters[0].body)]
    proute += ['ConfigService.plugins: ' + ast.unparse(x) for x in strip_doc(getters[0].body)]
    proute += ['ConfigService.resource_providers: ' + ast.unparse(x)
               for x in strip_doc(find_def(svc, 'ConfigService.resource_providers').body)]
    proute += ['ConfigService.__plugin_generator: ' + ' '.join(ast.unparse(x).split())
               for x in strip_doc(find_def(svc, 'ConfigService.__plugin_generator').body)]
    for fn in ast.walk(svc):
        if isinstance(fn, ast.FunctionDef) and fn not in (setters[0],):
            for x in ast.walk(fn):
                if isinstance(x, (ast.Assign, ast.AugAssign)) and any(
                        ast.unparse(t) == 'self._plugins' for t in (x.targets if isinstance(x, ast.Assign) else [x.target])):
                    proute.append(f'ConfigService.{fn.name}: ' + ast.unparse(x))
    parts.append('/-- from the configured plugin list to the providers the resource loop of `Deep.start` folds, AS WRITTEN in the\n'
                 '    source now: the assignment of the loaded plugins, the loop header, the plugins setter / getter bodies,\n'
                 '    resource_providers, the type-filter generator, and every other store to `self._plugins` -/\n'
                 'def providerRoute : List String :=\n  [' + ',\n   '.join(lean_str(r) for r in proute) + ']\n')

    # get_aggregated_resources: the loop as written, and who calls it
    gar = find_def(res, 'get_aggregated_resources')
    agg_txt = [' '.join(l.split()) for x in strip_doc(gar.body) for l in ast.unparse(x).splitlines() if l.strip()]
    callers = []
    import os as _os
    import pylean as _pl
    for dp, dn, fns in sorted(_os.walk(_os.path.join(_pl.REPO, 'src/deep'))):
        dn.sort()
        for fn in sorted(fns):
            if fn.endswith('.py'):
                tree = ast.parse(open(_os.path.join(dp, fn), encoding='utf-8').read())
                for x in ast.walk(tree):
                    if isinstance(x, ast.Call) and ast.unparse(x.func).split('.')[-1] == 'get_aggregated_resources':
                        callers.append(_os.path.relpath(_os.path.join(dp, fn), _os.path.join(_pl.REPO, 'src')))
    parts.append('/-- the statements of `get_aggregated_resources` as written now, one line each (indentation dropped) — `Resource.aggregate`\n'
                 '    is a hand-written reading of exactly this text -/\n'
                 'def aggregateSource : List String :=\n  [' + ',\n   '.join(lean_str(r) for r in agg_txt) + ']\n')
    parts.append('/-- files under src/deep that CALL get_aggregated_resources -/\n'
                 'def aggregateCallers : List String := [' + ', '.join(lean_str(c) for c in sorted(set(callers))) + ']\n')
    parts.append('end Extracted.Attributes\n')
    return '\n'.join(parts)


def _slice(tr, n):
    if isinstance(n.slice, ast.Slice) and n.slice.step is None and n.slice.lower is None \
            and n.slice.upper is not None:
        return f'(Scalar.sliceTo {tr.expr(n.value)} {tr.expr(n.slice.upper)})'
    raise Untranslatable(ast.unparse(n))


def _merge_result(a):
    if len(a) != 2 or a[0] != 'merged_attributes':
        raise Untranslatable('Resource.merge no longer builds its result from merged_attributes')
    return f'(some {a[1]})'


def _concat(tr, n):
    if isinstance(n.op, ast.Add):
        return f'({tr.expr(n.left)} ++ {tr.expr(n.right)})'
    raise Untranslatable(ast.unparse(n))
