"""Extracted/Guards.lean — guard skeletons of the fault-containment paths (C01, C14, C20), the lifecycle
methods of TriggerHandler as translated state updates, and the constants of the plugin loader.  Regenerated from
/repo's current sources; built with harness/skeleton.py (see its header for the mapping and the whitelist)."""
import ast
import re

import pylean
from pylean import Untranslatable, lean_str
import skeleton
from skeleton import Context, to_lean

OUT = 'DeepModel/Extracted/Guards.lean'

TH = 'src/deep/processor/trigger_handler.py'
TC = 'src/deep/processor/context/trigger_context.py'
AC = 'src/deep/processor/context/action_context.py'
CB = 'src/deep/processor/context/callback_context.py'
SNAP = 'src/deep/processor/context/snapshot_action.py'
MET = 'src/deep/processor/context/metric_action.py'
SPAN = 'src/deep/processor/context/span_action.py'
DEEP = 'src/deep/api/deep.py'
TASK = 'src/deep/task/__init__.py'
UTILS = 'src/deep/utils.py'
PLUG = 'src/deep/api/plugin/__init__.py'
POLL = 'src/deep/poll/poll.py'

# Lean name, file, runtime qualname  — the skeletons the property theorems name
NAMED = [
    ('traceCall', TH, 'TriggerHandler.trace_call'),
    ('traceCallInner', TH, 'TriggerHandler.__trace_call'),
    ('processCallBacks', TH, 'TriggerHandler.__process_call_backs'),
    ('actionsForLocation', TH, 'TriggerHandler.__actions_for_location'),
    ('triggerContextExit', TC, 'TriggerContext.__exit__'),
    ('evaluateExpression', TC, 'TriggerContext.evaluate_expression'),
    ('actionContextExit', AC, 'ActionContext.__exit__'),
    ('actionContextProcess', AC, 'ActionContext.process'),
    ('callbackContextProcess', CB, 'CallbackContext.process'),
    ('decorateSnapshot', SNAP, 'DeferredSnapshotActionResult._decorate_snapshot'),
    ('metricProcessAction', MET, 'MetricActionContext._process_action'),
    ('spanProcessAction', SPAN, 'SpanActionContext._process_action'),
    ('spanCallbackProcess', SPAN, 'SpanActionCallback.process'),
    ('deepStart', DEEP, 'Deep.start'),
    ('deepShutdown', DEEP, 'Deep.shutdown'),
    ('taskFlush', TASK, 'TaskHandler.flush'),
    ('timerTarget', UTILS, 'RepeatedTimer._target'),
    ('loadPlugins', PLUG, 'load_plugins'),
    ('pluginGenerator', PLUG, '__plugin_generator'),
    ('pollInitial', POLL, 'LongPoll.__initial_poll'),
]

# calls of trace_call's own machinery that are inlined into `traceCallFull` (text of the callee -> function)
INLINE = {
    'self.__trace_call': (TH, 'TriggerHandler.__trace_call'),
    'self.__process_call_backs': (TH, 'TriggerHandler.__process_call_backs'),
    'self.__actions_for_location': (TH, 'TriggerHandler.__actions_for_location'),
    'with:trigger_context': (TC, 'TriggerContext.__exit__'),
    'with:trigger_context.action_context(action)': (AC, 'ActionContext.__exit__'),
    'ctx.process': (AC, 'ActionContext.process'),
    'context.process': (CB, 'CallbackContext.process'),
}


def prog_key(rel, q):
    return rel[len('src/'):] + ':' + q


def has_def(ctx, rel, q):
    try:
        ctx.find(rel, q)
        return True
    except (Untranslatable, FileNotFoundError):
        return False


def check_exit_transparent(ctx, rel, q):
    """an `__exit__` that is inlined / modelled as `finally` must not swallow exceptions: no `return <value>`."""
    f = ctx.find(rel, q)
    for n in skeleton.own_nodes(f):
        if isinstance(n, ast.Return) and n.value is not None and not (
                isinstance(n.value, ast.Constant) and n.value.value in (None, False)):
            raise Untranslatable(f'{q} returns a value: it may swallow exceptions')


# ---------------------------------------------------------------------------------- lifecycle translation
FIELD = {'__old_sys_trace': 'oldSys', '__old_thread_trace': 'oldThr', '__tracing': 'tracing',
         '__stopped': 'stopped', '_tp_config': 'tpConfig'}
EXPR = {
    'sys.gettrace()': 'w.sysHook',
    "threading.gettrace() if hasattr(threading, 'gettrace') else threading._trace_hook": 'w.thrHook',
    'threading.gettrace()': 'w.thrHook',
    'self.trace_call': 'Hook.agent',
    'self.__old_sys_trace': 'w.oldSys',
    'self.__old_thread_trace': 'w.oldThr',
    'True': 'true', 'False': 'false', '[]': '[]', 'new_config': 'newConfig',
}
COND = {
    'self._config.NO_TRACE': 'noTrace',
    'not self.__tracing': '(!w.tracing)',
    'self.__tracing': 'w.tracing',
    'self.__stopped': 'w.stopped',
    'not self.__stopped': '(!w.stopped)',
}
HOOK_FIELDS = ('oldSys', 'oldThr')


def tr_expr(e, field):
    t = ast.unparse(e)
    if t == 'None' and field in HOOK_FIELDS:
        return 'Hook.none'
    if t in EXPR:
        return EXPR[t]
    raise Untranslatable(f'lifecycle expression `{t}`')


def tr_block(stmts):
    """continuation-passing translation of a method body into a World -> World expression over `w`."""
    stmts = skeleton.strip_doc(list(stmts))
    if not stmts:
        return 'w'
    s, rest = stmts[0], stmts[1:]
    if isinstance(s, ast.Return) and s.value is None:
        return 'w'
    if isinstance(s, ast.If) and not s.orelse and len(s.body) == 1 and isinstance(s.body[0], ast.Return) \
            and s.body[0].value is None:
        c = ast.unparse(s.test)
        if c not in COND:
            raise Untranslatable(f'lifecycle condition `{c}`')
        return f'if {COND[c]} then w else\n{tr_block(rest)}'
    if isinstance(s, ast.Assign) and len(s.targets) == 1 and isinstance(s.targets[0], ast.Attribute) \
            and ast.unparse(s.targets[0].value) == 'self':
        a = s.targets[0].attr
        if a not in FIELD:
            raise Untranslatable(f'lifecycle field self.{a}')
        f = FIELD[a]
        return f'let w := {{ w with {f} := {tr_expr(s.value, f)} }}\n{tr_block(rest)}'
    if isinstance(s, ast.AnnAssign) and isinstance(s.target, ast.Attribute) and s.value is not None \
            and ast.unparse(s.target.value) == 'self':
        a = s.target.attr
        if a not in FIELD:
            raise Untranslatable(f'lifecycle field self.{a}')
        f = FIELD[a]
        return f'let w := {{ w with {f} := {tr_expr(s.value, f)} }}\n{tr_block(rest)}'
    if isinstance(s, ast.Expr) and isinstance(s.value, ast.Call) and len(s.value.args) == 1 and not s.value.keywords:
        fn = ast.unparse(s.value.func)
        if fn == 'sys.settrace':
            return f'let w := {{ w with sysHook := {tr_expr(s.value.args[0], "sysHook")} }}\n{tr_block(rest)}'
        if fn == 'threading.settrace':
            return f'let w := {{ w with thrHook := {tr_expr(s.value.args[0], "thrHook")} }}\n{tr_block(rest)}'
    raise Untranslatable(f'lifecycle statement `{ast.unparse(s)[:70]}`')


def lifecycle(ctx):
    out = ['namespace Extracted.TH', 'open Lifecycle\n']
    init = ctx.find(TH, 'TriggerHandler.__init__')
    keep = []
    for s in skeleton.strip_doc(list(init.body)):
        tgt = None
        if isinstance(s, ast.Assign) and len(s.targets) == 1:
            tgt = s.targets[0]
        elif isinstance(s, ast.AnnAssign):
            tgt = s.target
        if isinstance(tgt, ast.Attribute) and ast.unparse(tgt.value) == 'self' and tgt.attr in FIELD:
            keep.append(s)
    body = tr_block(keep)
    out.append('/-- `TriggerHandler.__init__`: the lifecycle fields, in a process whose hooks are `sys`, `thr` -/')
    out.append('def thInit (sys thr : Hook) : World :=\n'
               '  let w : World := ⟨sys, thr, Hook.none, Hook.none, false, false, []⟩\n  '
               + body.replace('\n', '\n  ') + '\n')
    for lean, q, sig in (('thStart', 'TriggerHandler.start', '(noTrace : Bool) (w : World) : World'),
                         ('thShutdown', 'TriggerHandler.shutdown', '(w : World) : World'),
                         ('thNewConfig', 'TriggerHandler.new_config', '(w : World) (newConfig : List Nat) : World')):
        f = ctx.find(TH, q)
        out.append(f'/-- `{q}` -/\ndef {lean} {sig} :=\n  ' + tr_block(f.body).replace('\n', '\n  ') + '\n')
    out.append('end Extracted.TH\n')
    return '\n'.join(out)


# ---------------------------------------------------------------------------------- Deep.start / Deep.shutdown plans
FLD = {'started': 'Fld.started', '_shutdown': 'Fld.everShut'}
START_CALLS = {'self.trigger_handler.start()': 'Prim.thStart', 'self.grpc.start()': 'Prim.grpcStart',
               'self.poll.start()': 'Prim.pollStart'}
START_ASSIGN = {
    'self.config.plugins = load_plugins(self.config, self.config.PLUGINS)': 'Prim.loadPlugins',
    'default_resource = Resource.create()': 'Prim.resourceCreate',
    'self.config.resource = default_resource': 'Prim.setResource',
}
STEP_REF = {'self.trigger_handler.shutdown': 'StepRef.thShutdown', 'self.task_handler.flush': 'StepRef.flush',
            'self.poll.shutdown': 'StepRef.pollShutdown'}
PLUGIN_STEPS = '[plugin.shutdown for plugin in self.config.plugins]'


def _is_log_stmt(s):
    return isinstance(s, ast.Expr) and isinstance(s.value, ast.Call) and skeleton.is_log_call(s.value)


def _flag_test(test):
    """`self.<flag>` / `not self.<flag>` -> (Lean Fld, negated) or None"""
    neg = False
    if isinstance(test, ast.UnaryOp) and isinstance(test.op, ast.Not):
        neg, test = True, test.operand
    if isinstance(test, ast.Attribute) and ast.unparse(test.value) == 'self' and test.attr in FLD:
        return FLD[test.attr], neg
    return None


def _steps_elems(value):
    """a list display of bound methods of the services / the comprehension over the plugins -> [StepRef] or None"""
    if ast.unparse(value) == PLUGIN_STEPS:
        return ['StepRef.plugins']
    if isinstance(value, ast.List):
        out = []
        for e in value.elts:
            t = ast.unparse(e)
            if t not in STEP_REF:
                return None
            out.append(STEP_REF[t])
        return out
    if isinstance(value, ast.BinOp) and isinstance(value.op, ast.Add):
        a, b = _steps_elems(value.left), _steps_elems(value.right)
        return None if a is None or b is None else a + b
    return None


def plan_of(fdef):
    """one LStmt per statement of the body, in source order; what is not understood becomes `.opaque` (never guessed).
    The local list `steps` of Deep.shutdown is followed symbolically up to the loop that runs it."""
    out = []
    steps = None            # symbolic value of the local `steps`

    def opaque(s):
        out.append('.opaque ' + lean_str(' '.join(ast.unparse(s).split())[:80]))

    for s in skeleton.strip_doc(list(fdef.body)):
        t = ast.unparse(s)
        if isinstance(s, ast.If) and not s.orelse and _flag_test(s.test) and s.body \
                and isinstance(s.body[-1], ast.Return) and s.body[-1].value is None \
                and all(_is_log_stmt(x) for x in s.body[:-1]):
            fld, neg = _flag_test(s.test)
            pre = ', '.join('Prim.log' for _ in s.body[:-1])
            out.append(f'.retIf {fld} {"true" if neg else "false"} [{pre}]')
        elif isinstance(s, ast.Assign) and len(s.targets) == 1 and isinstance(s.targets[0], ast.Attribute) \
                and ast.unparse(s.targets[0].value) == 'self' and s.targets[0].attr in FLD \
                and isinstance(s.value, ast.Constant) and isinstance(s.value.value, bool):
            out.append(f'.set {FLD[s.targets[0].attr]} {"true" if s.value.value else "false"}')
        elif t in START_ASSIGN:
            out.append(f'.prim {START_ASSIGN[t]}')
        elif isinstance(s, ast.Expr) and t in START_CALLS:
            out.append(f'.prim {START_CALLS[t]}')
        elif _is_log_stmt(s):
            out.append('.prim Prim.log')
        elif isinstance(s, ast.For) and ast.unparse(s.iter) == 'self.config.resource_providers' and not s.orelse \
                and len(s.body) == 1 and isinstance(s.body[0], ast.Try):
            out.append('.prim Prim.providers')          # the loop itself: skeleton `deepStart`, C20
        elif isinstance(s, ast.Assign) and len(s.targets) == 1 and ast.unparse(s.targets[0]) == 'steps' \
                and _steps_elems(s.value) is not None:
            steps = _steps_elems(s.value)
        elif isinstance(s, ast.AugAssign) and isinstance(s.op, ast.Add) and ast.unparse(s.target) == 'steps' \
                and steps is not None and _steps_elems(s.value) is not None:
            steps = steps + _steps_elems(s.value)
        elif isinstance(s, ast.For) and ast.unparse(s.iter) == 'steps' and isinstance(s.target, ast.Name) \
                and steps is not None and not s.orelse and len(s.body) == 1 and isinstance(s.body[0], ast.Try):
            tr = s.body[0]
            var = s.target.id
            ok = (len(tr.body) == 1 and ast.unparse(tr.body[0]) == f'{var}()' and not tr.orelse and not tr.finalbody
                  and len(tr.handlers) == 1 and tr.handlers[0].type is not None
                  and ast.unparse(tr.handlers[0].type) in ('BaseException', 'Exception')
                  and all(_is_log_stmt(x) for x in tr.handlers[0].body))
            if ok:
                ca = 'true' if ast.unparse(tr.handlers[0].type) == 'BaseException' else 'false'
                out.append(f'.stepsLoop [{", ".join(steps)}] {ca}')
                steps = None
            else:
                opaque(s)
        else:
            opaque(s)
    return out


def deep_plan(ctx):
    out = ['namespace Extracted.DeepLC', 'open Lifecycle\n']
    for lean, q in (('startPlan', 'Deep.start'), ('shutdownPlan', 'Deep.shutdown')):
        try:
            plan = plan_of(ctx.find(DEEP, q))
        except (Untranslatable, FileNotFoundError) as e:
            plan = ['.opaque ' + lean_str(f'{q}: {e}')]
        out.append(f'/-- `{q}` statement by statement (src/deep/api/deep.py); `.opaque` = a statement outside the subset -/\n'
                   f'def {lean} : List LStmt :=\n  [' + ',\n   '.join(plan) + ']\n')
    out.append('end Extracted.DeepLC\n')
    return '\n'.join(out)


# ---------------------------------------------------------------------------------- plugin loader constants
IS_ACTIVE_TEMPLATE = '''
attr = getattr(self.config, f'plugin_{self.name}'.upper(), 'True')
if attr is None:
    return True
return str2bool(attr)
'''


def plugins_consts(ctx):
    tree = ctx.modules[PLUG]
    consts = pylean.module_constants(tree)
    if 'DEEP_PLUGINS' not in consts or not all(isinstance(x, str) for x in consts['DEEP_PLUGINS']):
        raise Untranslatable('DEEP_PLUGINS is not a list of strings')
    lp = ctx.find(PLUG, 'load_plugins')
    sort = None
    for n in skeleton.own_nodes(lp):
        if isinstance(n, ast.Call) and ast.unparse(n.func) == 'loaded.sort':
            sort = n
    if sort is None:
        raise Untranslatable('load_plugins no longer sorts `loaded`')
    kw = {k.arg: k.value for k in sort.keywords}
    if sort.args or set(kw) - {'key', 'reverse'} or 'key' not in kw:
        raise Untranslatable('unexpected arguments of loaded.sort: ' + ast.unparse(sort))
    key = ast.unparse(kw['key'])
    # two shapes: the key calls order() itself (a failing order() fails the sort = the whole load), or order() is
    # read per plugin inside the `try` of the loop, checked to be a number, and the sort uses the stored value
    m = re.fullmatch(r'lambda (\w+): \1\.order\(\) or (-?\d+)', key)
    guarded = 'false'
    if m:
        none_as = m.group(2)
    else:
        if not re.fullmatch(r'lambda (\w+): \1\[0\]', key):
            raise Untranslatable('sort key changed: ' + key)
        loop = [n for n in skeleton.own_nodes(lp) if isinstance(n, ast.For)]
        tries = [t for t in ast.walk(loop[0]) if isinstance(t, ast.Try)] if loop else []
        none_as = None
        checked = appended = False
        for st in (tries[0].body if tries else []):
            t = ast.unparse(st)
            mm = re.fullmatch(r'order = plugin_instance\.order\(\) or (-?\d+)', t)
            if mm:
                none_as = mm.group(1)
            if isinstance(st, ast.If) and ast.unparse(st.test) == 'not isinstance(order, (int, float))' \
                    and len(st.body) == 1 and isinstance(st.body[0], ast.Raise):
                checked = True
            if t == 'loaded.append((order, plugin_instance))':
                appended = True
        if none_as is None or not checked or not appended:
            raise Untranslatable('load_plugins: the order is not read/checked/stored inside the per-plugin try')
        rets = [n for n in skeleton.own_nodes(lp) if isinstance(n, ast.Return)]
        if len(rets) != 1 or ast.unparse(rets[0].value) != '[plugin_instance for _, plugin_instance in loaded]':
            raise Untranslatable('load_plugins returns ' + ast.unparse(rets[0].value) if rets else 'nothing')
        guarded = 'true'
    rev = 'false'
    if 'reverse' in kw:
        if not isinstance(kw['reverse'], ast.Constant) or not isinstance(kw['reverse'].value, bool):
            raise Untranslatable('reverse= is not a literal')
        rev = 'true' if kw['reverse'].value else 'false'
    it = None
    for n in skeleton.own_nodes(lp):
        if isinstance(n, ast.For):
            it = ast.unparse(n.iter)
    if it != '__plugin_generator(DEEP_PLUGINS + custom)':
        raise Untranslatable('load_plugins iterates ' + str(it))
    order = ctx.find(PLUG, 'Plugin.order')
    rets = [n for n in skeleton.own_nodes(order) if isinstance(n, ast.Return)]
    if len(rets) != 1 or not isinstance(rets[0].value, ast.Constant) or not isinstance(rets[0].value.value, int):
        raise Untranslatable('Plugin.order default changed')
    # Plugin.is_active and utils.str2bool
    ia = ctx.find(PLUG, 'Plugin.is_active')
    if not pylean.same_shape(ia, IS_ACTIVE_TEMPLATE):
        raise Untranslatable('Plugin.is_active changed shape')
    sb = ctx.find(UTILS, 'str2bool')
    rets2 = [n for n in skeleton.own_nodes(sb) if isinstance(n, ast.Return)]
    mm = re.fullmatch(r'(str\(string\)|string)\.lower\(\) in (\(.*\))', ast.unparse(rets2[0].value)) if len(rets2) == 1 else None
    if not mm:
        raise Untranslatable('str2bool changed shape')
    truthy = ast.literal_eval(mm.group(2))
    if not all(isinstance(x, str) for x in truthy):
        raise Untranslatable('str2bool: truthy values are not text')
    coerces = 'true' if mm.group(1).startswith('str(') else 'false'
    return ('namespace Extracted.Plugins\nopen _root_.Plugins\n\n'
            f'/-- `loaded.sort(key={key}' + (', reverse=…' if 'reverse' in kw else '') + ')` -/\n'
            f'def sortReverse : Bool := {rev}\n'
            f'/-- `order() or {none_as}` -/\n'
            f'def orderNoneAs : Int := ({none_as} : Int)\n'
            f'def orderDefault : Int := ({rets[0].value.value} : Int)\n'
            '/-- order() is read, and checked to be a number, inside the per-plugin `try`: a plugin whose order cannot be\n'
            '    used is skipped; otherwise (the sort key calls order()) such a plugin fails the whole load -/\n'
            f'def orderGuarded : Bool := {guarded}\n'
            f'/-- the built-in plugins come first: `{it}` -/\n'
            'def builtin : List String :=\n  [' + ',\n   '.join(lean_str(x) for x in consts['DEEP_PLUGINS']) + ']\n\n'
            '/-- `utils.str2bool`: the texts that mean "on" -/\n'
            'def truthy : List String := [' + ', '.join(lean_str(x) for x in truthy) + ']\n'
            f'/-- str2bool applies `str()` first, so bools and numbers given in code are read like their text form -/\n'
            f'def str2boolCoerces : Bool := {coerces}\n\n'
            '/-- `Plugin.is_active` on the value of `PLUGIN_<NAME>` (`none` = Python `None`: not configured, or configured\n'
            '    as `None`): `none` as result = it raises (the loader then skips the plugin).\n'
            "      attr = getattr(self.config, 'PLUGIN_<NAME>', 'True'); if attr is None: return True; return str2bool(attr) -/\n"
            'def isActive (attr : Option PyVal) : Option Bool :=\n'
            '  match attr with\n'
            '  | none => some true\n'
            '  | some (.text s) => some (truthy.contains (Py.lower s))\n'
            '  | some v => if str2boolCoerces then some (truthy.contains (Py.lower (pyStr v))) else none\n\n'
            'end Extracted.Plugins\n')


# ---------------------------------------------------------------------------------- main
def generate():
    ctx = Context.for_repo()
    parts = ['-- GENERATED by harness/extract/guards.py — do not edit; regenerated from /repo on every check run.\n'
             '-- guard skeletons (harness/skeleton.py), lifecycle state updates, plugin loader constants\n'
             f'-- sources: every function of src/deep with a `try` + {", ".join(sorted(set(r for _, r, _ in NAMED)))}\n'
             'import DeepModel.Model.Guard\nimport DeepModel.Model.LifecycleBase\nimport DeepModel.Model.PluginsBase\n',
             'namespace Extracted.Guards\nopen Guard\n']
    for rel, q in (INLINE['with:trigger_context'], INLINE['with:trigger_context.action_context(action)']):
        if has_def(ctx, rel, q):
            check_exit_transparent(ctx, rel, q)

    entries = []         # (prog key, lean name)
    done = {}
    for lean, rel, q in NAMED:
        if not has_def(ctx, rel, q):
            parts.append(f'-- {q}: not present in the source\ndef {lean} : Stmt := .call "<missing {q}>"\n')
            continue
        sk = ctx.skeleton(rel, q)
        parts.append(f'/-- `{q}` ({rel}) -/\ndef {lean} : Stmt :=\n{to_lean(sk)}\n')
        entries.append((prog_key(rel, q), lean))
        done[(rel, q)] = lean
    n = 0
    for rel, q in ctx.functions_with_try():
        if (rel, q) in done:
            continue
        lean = f'fn{n}'
        n += 1
        try:
            sk = ctx.skeleton(rel, q)
            parts.append(f'/-- `{q}` ({rel}) -/\ndef {lean} : Stmt :=\n{to_lean(sk)}\n')
        except Untranslatable as e:
            parts.append(f'/-- `{q}` ({rel}): {e} -/\ndef {lean} : Stmt := .call {lean_str("<untranslatable> " + str(e))}\n')
        entries.append((prog_key(rel, q), lean))

    # trace_call with its own machinery inlined
    inline = {}
    for key, (rel, q) in INLINE.items():
        if has_def(ctx, rel, q):
            inline[key] = (q, rel, q)
    full = ctx.skeleton(TH, 'TriggerHandler.trace_call', inline=inline)
    parts.append('/-- `TriggerHandler.trace_call` with `__trace_call`, `__process_call_backs`, `__actions_for_location`,\n'
                 '    `TriggerContext.__exit__`, `ActionContext.process/__exit__`, `CallbackContext.process` inlined -/\n'
                 f'def traceCallFull : Stmt :=\n{to_lean(full)}\n')

    parts.append('/-- every function of src/deep that contains a `try` (a function that is not listed has none, so an\n'
                 '    exception passes through it), keyed by "<path under src>:<qualified name>" -/\n'
                 'def prog : Prog :=\n  [' + ',\n   '.join(f'({lean_str(k)}, {v})' for k, v in entries) + ']\n')
    rows = []
    for rel, q in [(r, qq) for _, r, qq in NAMED if has_def(ctx, r, qq)] + \
            [(r, qq) for r, qq in ctx.functions_with_try() if (r, qq) not in done]:
        try:
            for hid, tmpl in sorted(ctx.handlers(rel, q).items()):
                rows.append(f'({lean_str(prog_key(rel, q))}, {lean_str(hid)}, {lean_str(tmpl or "")})')
        except Untranslatable:
            pass
    parts.append('/-- (function, handler id, first logging template of the handler or "") — what a handler says when it\n'
                 '    catches; used to compare with the real code when call-site ids are not comparable -/\n'
                 'def handlerTemplates : List (String × String × String) :=\n  [' + ',\n   '.join(rows) + ']\n')
    parts.append('end Extracted.Guards\n')
    parts.append(lifecycle(ctx))
    parts.append(deep_plan(ctx))
    parts.append(plugins_consts(ctx))
    return '\n'.join(parts)


def tables():
    """for the harness: {prog key: {'sites': {pos: site}, 'handlers': {hid: template}}} of the functions in prog"""
    ctx = Context.for_repo()
    out = {}
    keys = [(rel, q) for _, rel, q in NAMED if has_def(ctx, rel, q)]
    for rel, q in ctx.functions_with_try():
        if (rel, q) not in keys:
            keys.append((rel, q))
    for rel, q in keys:
        try:
            out[prog_key(rel, q)] = {'sites': ctx.sites(rel, q), 'handlers': ctx.handlers(rel, q)}
        except Untranslatable:
            out[prog_key(rel, q)] = {'sites': {}, 'handlers': {}}
    return out
