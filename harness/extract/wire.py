"""Extracted/Wire.lean — snapshot -> protobuf conversion and the auth metadata path (C08), regenerated from
src/deep/push/__init__.py, grpc/__init__.py, push/push_service.py, poll/poll.py, grpc/grpc_service.py,
api/auth/__init__.py, api/tracepoint/eventsnapshot.py, api/tracepoint/tracepoint_config.py and from the descriptors of
the installed deepproto package.

What is produced
  * property lists of EventSnapshot / StackFrame / Variable / VariableId / WatchResult / TracePointConfig: the stored
    attributes (`self._x = ...` in `__init__`) with the property that returns each (`<Cls>Props`), and the derived
    properties (`<Cls>Derived`); a Lean structure per class whose fields are exactly the stored properties;
  * per protobuf message (Snapshot, TracePointConfig, StackFrame, Variable, VariableID, WatchResult, KeyValue,
    Resource, PollRequest) the field list (`protoFields`) and a Lean structure of CONSTRUCTOR ARGUMENTS (`P<Msg>`,
    unset = default) plus `P<Msg>.accepts`, generated from the descriptor types (str: valid text, uint32/uint64/
    fixed64/int64: range, enum: known name, bytes: computed, nested: recursively);
  * every `__convert_*` of push/__init__.py and `convert_snapshot` TRANSLATED: a keyword constructor call becomes a
    structure value, `[f(x) for x in xs]` a map, `f(x)` on an optional source an `Option.map` (only when `f` starts with
    `if x is None: return None`), `id.to_bytes(16, "big")`, `WatchSource.Value(..)`; coercions between source and
    field types are inserted from the two type tables and an impossible one refuses the translation;
  * `fieldMaps`: per converter `(destination field, source property, via)`;
  * `convert_value` / `__value_as_list` / `__value_as_dict`: the isinstance chain is evaluated per Python type (bool is
    an int) and emitted as one match arm per `PyVal` constructor, `convertValueOrder` records the chain;
  * `convert_resource` / `__convert_attributes` translated;
  * the two stub call sites (`stub.poll(request, metadata=…)`, `stub.send(converted, metadata=…)`), `_push_task`'s
    None guard, `GRPCService.metadata` caching, `_build_metadata`, `AuthProvider.get_provider`'s "no provider" test
    and `BasicAuthProvider.provide` (translated).
Anything that does not have the expected shape raises Untranslatable.
"""
import ast
import textwrap

from pylean import Untranslatable, load, find_def, same_shape, header, lean_str, module_constants

OUT = 'DeepModel/Extracted/Wire.lean'
PUSH = 'src/deep/push/__init__.py'
GRPC = 'src/deep/grpc/__init__.py'
PUSHSVC = 'src/deep/push/push_service.py'
POLL = 'src/deep/poll/poll.py'
GRPCSVC = 'src/deep/grpc/grpc_service.py'
AUTH = 'src/deep/api/auth/__init__.py'
SNAP = 'src/deep/api/tracepoint/eventsnapshot.py'
TPCFG = 'src/deep/api/tracepoint/tracepoint_config.py'

LEAN_KEYWORDS = {'namespace', 'end', 'from', 'at', 'then', 'else', 'if', 'do', 'in', 'fun', 'let', 'have', 'show',
                 'section', 'open', 'import', 'where', 'with', 'match', 'instance', 'structure', 'class', 'def',
                 'type', 'hash', 'variable', 'variables', 'universe', 'theorem', 'example', 'attribute',
                 'local', 'private', 'protected', 'mutual', 'macro', 'syntax', 'notation', 'prefix', 'infix',
                 'deriving', 'extends', 'export', 'set_option', 'using', 'by', 'calc', 'source'}


def ident(n):
    return f'«{n}»' if n in LEAN_KEYWORDS else n


def local_ident(n):
    """Lean spelling of a Python local / parameter"""
    return n + '_' if n in LEAN_KEYWORDS else n


# ---- types: 'Text' 'Int' 'Bool' 'Nat' 'Bytes' 'PyVal' 'PAny' ('opt',T) ('list',T) ('map',T) ('src',C) ('msg',M)
def lean_type(t):
    if isinstance(t, str):
        return {'Text': 'Text', 'Int': 'Int', 'Bool': 'Bool', 'Nat': 'Nat', 'Bytes': 'List Nat', 'PyVal': 'PyVal',
                'PAny': 'PAnyValue'}[t]
    k, a = t
    if k == 'opt':
        return f'Option ({lean_type(a)})'
    if k == 'list':
        return f'List ({lean_type(a)})'
    if k == 'map':
        return f'List (Text × {lean_type(a)})'
    if k == 'src':
        return a
    if k == 'msg':
        return 'P' + a
    raise Untranslatable(f'type {t}')


def lean_default(t):
    if t == 'Text':
        return '[]'
    if t in ('Int', 'Nat'):
        return '0'
    if t == 'Bool':
        return 'false'
    if t == 'PAny':
        return 'PAnyValue.pyNone'
    if isinstance(t, tuple) and t[0] == 'opt':
        return 'none'
    if isinstance(t, tuple) and t[0] in ('list', 'map'):
        return '[]'
    raise Untranslatable(f'no default for {t}')


SRC_ORDER = ['VariableId', 'Variable', 'StackFrame', 'WatchResult', 'TracePointConfig', 'EventSnapshot']
SRC_FILE = {'TracePointConfig': TPCFG}
SRC_TYPES = {
    'VariableId': {'vid': 'Text', 'name': 'Text', 'original_name': ('opt', 'Text'), 'modifiers': ('list', 'Text')},
    'Variable': {'type': 'Text', 'value': 'Text', 'hash': 'Text', 'children': ('list', ('src', 'VariableId')),
                 'truncated': 'Bool'},
    'StackFrame': {'file_name': 'Text', 'short_path': 'Text', 'method_name': 'Text', 'line_number': 'Int',
                   'class_name': ('opt', 'Text'), 'is_async': 'Bool', 'column_number': 'Int',
                   'transpiled_file_name': ('opt', 'Text'), 'transpiled_line_number': 'Int',
                   'transpiled_column_number': 'Int', 'variables': ('list', ('src', 'VariableId')),
                   'app_frame': 'Bool'},
    'WatchResult': {'expression': 'Text', 'result': ('opt', ('src', 'VariableId')), 'error': ('opt', 'Text'),
                    'source': 'Text'},
    'TracePointConfig': {'id': 'Text', 'path': 'Text', 'line_no': 'Int', 'args': ('map', 'Text'),
                         'watches': ('list', 'Text')},
    # attributes / resource: the items of the BoundedAttributes (what `.items()` / `.attributes.items()` yields)
    'EventSnapshot': {'id': 'Nat', 'tracepoint': ('src', 'TracePointConfig'), 'var_lookup': ('map', ('src', 'Variable')),
                      'ts_nanos': 'Int', 'frames': ('list', ('src', 'StackFrame')),
                      'watches': ('list', ('src', 'WatchResult')), 'attributes': ('map', 'PyVal'),
                      'duration_nanos': 'Int', 'resource': ('map', 'PyVal'), 'log_msg': ('opt', 'Text')},
}

MSG_ORDER = ['VariableID', 'Variable', 'StackFrame', 'WatchResult', 'KeyValue', 'TracePointConfig', 'Snapshot',
             'Resource', 'PollRequest']


def class_props(tree, cls):
    """(stored accessor properties in __init__ order, derived properties)"""
    cdef = find_def(tree, cls)
    init = find_def(tree, cls + '.__init__')
    attrs = []
    for s in ast.walk(init):
        if isinstance(s, (ast.Assign, ast.AnnAssign)):
            tgt = s.targets[0] if isinstance(s, ast.Assign) else s.target
            if isinstance(tgt, ast.Attribute) and ast.unparse(tgt.value) == 'self' and tgt.attr not in attrs:
                attrs.append(tgt.attr)
    props = {}
    for n in cdef.body:
        if isinstance(n, ast.FunctionDef) and any(ast.unparse(d) == 'property' for d in n.decorator_list):
            rets = [ast.unparse(r.value) for r in ast.walk(n) if isinstance(r, ast.Return) and r.value is not None]
            props[n.name] = rets
    stored, used = [], set()
    for a in attrs:
        acc = [p for p, rets in props.items() if ('self.' + a) in rets]
        if len(acc) != 1:
            raise Untranslatable(f'{cls}: attribute {a} has {len(acc)} accessor properties')
        stored.append(acc[0])
        used.add(acc[0])
    derived = [p for p in props if p not in used]
    return stored, derived


def proto_messages():
    try:
        from deepproto.proto.tracepoint.v1 import tracepoint_pb2 as t
        from deepproto.proto.common.v1 import common_pb2 as c
        from deepproto.proto.poll.v1 import poll_pb2 as p
        from deepproto.proto.resource.v1 import resource_pb2 as r
    except Exception as e:  # noqa: B902
        raise Untranslatable(f'deepproto not importable: {e}')
    return {'VariableID': t.VariableID, 'Variable': t.Variable, 'StackFrame': t.StackFrame,
            'WatchResult': t.WatchResult, 'KeyValue': c.KeyValue, 'TracePointConfig': t.TracePointConfig,
            'Snapshot': t.Snapshot, 'Resource': r.Resource, 'PollRequest': p.PollRequest}, t, c


INT_KINDS = {13: 'inU32', 4: 'inU64', 6: 'inU64', 3: 'inI64', 5: 'inI32'}


def field_type(f, known):
    """(type, accept-kind) of a protobuf field as a constructor argument, or None when not modelled"""
    T = f.type
    if f.message_type is not None and f.message_type.GetOptions().map_entry:
        v = f.message_type.fields_by_name['value']
        vt = field_type(v, known)
        if vt is None:
            return None
        if isinstance(vt[0], tuple) and vt[0][0] == 'opt' and isinstance(vt[0][1], tuple) and vt[0][1][0] == 'msg':
            vt = (vt[0][1], vt[1][1])            # a map value is always a message, never unset
        return ('map', vt[0]), ('map', vt[1])
    if T == 11:
        name = f.message_type.name
        if name == 'AnyValue':
            base, acc = 'PAny', 'any'
            return (('list', base), ('list', acc)) if f.is_repeated else (base, acc)
        if name not in known:
            return None
        base, acc = ('msg', name), ('msg', name)
        if f.is_repeated:
            return ('list', base), ('list', acc)
        return ('opt', base), ('opt', acc)
    if T == 9:
        base, acc = 'Text', 'text'
    elif T == 8:
        base, acc = 'Bool', 'none'
    elif T in INT_KINDS:
        base, acc = 'Int', INT_KINDS[T]
    elif T == 12:
        return ('opt', 'Bytes'), 'bytes'          # none = computing the argument raised
    elif T == 14:
        return ('opt', 'Nat'), 'enum'             # none = unknown enum name (ValueError)
    else:
        return None
    if f.is_repeated:
        return ('list', base), ('list', acc)
    if f.has_presence:
        return ('opt', base), ('opt', acc)
    return base, acc


def accept_expr(e, acc):
    """Bool Lean expression: protobuf takes argument `e` of accept-kind `acc`"""
    if acc == 'none':
        return None
    if acc == 'text':
        return f'Text.ok {e}'
    if acc in ('inU32', 'inU64', 'inI64'):
        return f'{acc} {e}'
    if acc == 'any':
        return f'PAnyValue.accepts {e}'
    if acc == 'bytes':
        return f'Option.any bytesOk {e}'
    if acc == 'enum':
        return f'Option.any inEnum {e}'            # none = unknown name (ValueError); a value outside int32: ValueError
    k, a = acc
    if k == 'msg':
        return f'P{a}.accepts {e}'
    inner = accept_expr('x', a)
    if inner is None:
        return None
    if k == 'opt':
        return f'Option.all (fun x => {inner}) {e}'
    if k == 'list':
        return f'List.all {e} (fun x => {inner})'
    if k == 'map':
        return f'List.all {e} (fun kv => Text.ok kv.1 && ({accept_expr("kv.2", a) or "true"}))'
    raise Untranslatable(f'accept kind {acc}')


class Conv:
    """typed translation of the converter functions"""

    def __init__(self, src_props, msg_fields, aliases):
        self.src_props = src_props          # cls -> stored props
        self.msg_fields = msg_fields        # msg -> {field: (type, acc)}
        self.aliases = aliases              # annotation alias -> class
        self.funcs = {}                     # python name -> dict(lean, param, cls, msg, guard)
        self.maps = {}                      # python name -> [(dest, src, via)]

    # -- expressions --------------------------------------------------------------------------------------------
    def tx(self, n, env, fm=None):
        """returns (lean, type, (src property, via)) — the last for the field map"""
        text = ast.unparse(n)
        if isinstance(n, ast.Name):
            if n.id not in env:
                raise Untranslatable(f'unknown name {n.id}')
            return env[n.id][0], env[n.id][1], (n.id, 'plain')   # env holds the Lean spelling
        # snapshot.attributes.items() / snapshot.resource.attributes.items() / d.items()
        if isinstance(n, ast.Call) and isinstance(n.func, ast.Attribute) and n.func.attr == 'items' and not n.args:
            inner = n.func.value
            if isinstance(inner, ast.Attribute) and inner.attr == 'attributes' and isinstance(inner.value, ast.Attribute):
                e, t, (p, _) = self.tx(inner.value, env)
                if t == ('map', 'PyVal') and p == 'resource':
                    return e, t, (p, 'items')
                raise Untranslatable(f'{text}: not the resource attributes')
            e, t, (p, _) = self.tx(inner, env)
            if isinstance(t, tuple) and t[0] == 'map':
                return e, t, (p, 'items')
            if t == ('src', 'BoundedAttributes'):
                return f'{e}.items', ('map', 'PyVal'), (p, 'items')
            raise Untranslatable(f'{text}: .items() of {t}')
        if isinstance(n, ast.Attribute):
            e, t, _ = self.tx(n.value, env)
            if t == ('src', 'BoundedAttributes') and n.attr == 'dropped':
                return f'{e}.dropped', 'Int', ('dropped', 'plain')
            if not (isinstance(t, tuple) and t[0] == 'src'):
                raise Untranslatable(f'{text}: attribute of {t}')
            cls = t[1]
            if n.attr not in self.src_props[cls]:
                raise Untranslatable(f'{text}: `{n.attr}` is not a stored property of {cls}')
            return f'{e}.{ident(n.attr)}', SRC_TYPES[cls][n.attr], (n.attr, 'plain')
        if isinstance(n, ast.ListComp):
            if len(n.generators) != 1 or n.generators[0].ifs:
                raise Untranslatable(f'comprehension {text}')
            g = n.generators[0]
            it, ity, (p, _) = self.tx(g.iter, env)
            env2 = dict(env)
            if isinstance(g.target, ast.Name) and isinstance(ity, tuple) and ity[0] == 'list':
                env2[g.target.id] = (local_ident(g.target.id), ity[1])
                binder = local_ident(g.target.id)
            elif isinstance(g.target, ast.Tuple) and len(g.target.elts) == 2 and isinstance(ity, tuple) \
                    and ity[0] == 'map':
                a, b = (e.id for e in g.target.elts)
                env2[a] = (a, 'Text')
                env2[b] = (b, ity[1])
                binder = f'({a}, {b})'
            else:
                raise Untranslatable(f'comprehension over {ity}: {text}')
            body, bty, (_, via) = self.tx(n.elt, env2)
            return f'(List.map (fun {binder} => {body}) {it})', ('list', bty), (p, 'list:' + via)
        if isinstance(n, ast.Call):
            f = ast.unparse(n.func)
            if f in self.funcs and len(n.args) == 1 and not n.keywords:
                fn = self.funcs[f]
                a, aty, (p, _) = self.tx(n.args[0], env)
                if aty == fn['pty']:
                    return f'({fn["lean"]} {a})', fn['rty'], (p, 'call:' + f)
                if aty == ('opt', fn['pty']):
                    if not fn['guard']:
                        raise Untranslatable(f'{text}: the argument may be None and {f} does not test for it')
                    return f'(Option.map {fn["lean"]} {a})', ('opt', fn['rty']), (p, 'optcall:' + f)
                raise Untranslatable(f'{text}: argument type {aty}, {f} takes {fn["pty"]}')
            if f == 'convert_value' and len(n.args) == 1:
                a, aty, (p, _) = self.tx(n.args[0], env)
                if aty != 'PyVal':
                    raise Untranslatable(f'{text}: convert_value of {aty}')
                return f'(convert_value {a})', 'PAny', (p, 'call:convert_value')
            if f in self.msg_fields and not n.args:
                return self.ctor(f, n, env) + ((f, 'ctor:' + f),)
            if isinstance(n.func, ast.Attribute) and n.func.attr == 'to_bytes' and len(n.args) == 2 \
                    and isinstance(n.args[0], ast.Constant) and isinstance(n.args[1], ast.Constant) \
                    and n.args[1].value == 'big':
                a, aty, (p, _) = self.tx(n.func.value, env)
                if aty != 'Nat':
                    raise Untranslatable(f'{text}: to_bytes of {aty}')
                return f'(toBytesBig {n.args[0].value} {a})', ('opt', 'Bytes'), (p, f'to_bytes:{n.args[0].value}:big')
            if f == 'WatchSource.Value' and len(n.args) == 1:
                a, aty, (p, _) = self.tx(n.args[0], env)
                if aty != 'Text':
                    raise Untranslatable(f'{text}: enum name of {aty}')
                return f'(watchSourceValue {a})', ('opt', 'Nat'), (p, 'enum:WatchSource')
        raise Untranslatable(f'expression {text}')

    def coerce(self, e, sty, dty, what):
        if sty == dty:
            return e
        if dty == ('opt', sty):
            return f'(some {e})'
        if sty == ('opt', dty):
            return f'(Option.getD {e} {lean_default(dty)})'
        raise Untranslatable(f'{what}: a {sty} cannot be stored in a field of type {dty}')

    def ctor(self, msg, call, env):
        fields = self.msg_fields[msg]
        items, fmap = [], []
        for kw in call.keywords:
            if kw.arg is None:
                raise Untranslatable(f'**kwargs in {msg}(...)')
            if kw.arg not in fields:
                raise Untranslatable(f'{msg} has no (modelled) field `{kw.arg}`')
            e, ty, (p, via) = self.tx(kw.value, env)
            items.append(f'{ident(kw.arg)} := {self.coerce(e, ty, fields[kw.arg][0], msg + "." + kw.arg)}')
            fmap.append((kw.arg, p, via))
        self.last_map = fmap
        return '({ ' + ', '.join(items) + f' }} : P{msg})', ('msg', msg)

    # -- functions ------------------------------------------------------------------------------------------------
    def function(self, fdef, lean_name, pty=None):
        body = [s for s in fdef.body if not (isinstance(s, ast.Expr) and isinstance(s.value, ast.Constant))]
        if len(fdef.args.args) != 1:
            raise Untranslatable(f'{fdef.name}: one parameter expected')
        param = fdef.args.args[0]
        if pty is None:
            ann = ast.unparse(param.annotation) if param.annotation is not None else None
            cls = self.aliases.get(ann, ann)
            if cls not in SRC_TYPES:
                raise Untranslatable(f'{fdef.name}: parameter annotation {ann}')
            pty = ('src', cls)
        guard = False
        if len(body) == 2 and isinstance(body[0], ast.If) and ast.unparse(body[0].test) == f'{param.arg} is None' \
                and len(body[0].body) == 1 and ast.unparse(body[0].body[0]) == 'return None' and not body[0].orelse:
            guard = True
            body = body[1:]
        if len(body) != 1 or not isinstance(body[0], ast.Return):
            raise Untranslatable(f'{fdef.name}: body is not a single return')
        env = {param.arg: (local_ident(param.arg), pty)}
        e, rty, _ = self.tx(body[0].value, env)
        if isinstance(body[0].value, ast.Call) and ast.unparse(body[0].value.func) in self.msg_fields:
            self.maps[fdef.name] = list(self.last_map)
        self.funcs[fdef.name] = {'lean': lean_name, 'pty': pty, 'rty': rty, 'guard': guard}
        return f'def {lean_name} ({local_ident(param.arg)} : {lean_type(pty)}) : {lean_type(rty)} :=\n  {e}\n'


LOOKUP_TEMPLATE = '''
converted = {}
for k, v in var_lookup.items():
    converted[k] = __convert_variable(v)
return converted
'''
METADATA_TEMPLATE = '''
if self._metadata is None:
    self._metadata = self._build_metadata()
return self._metadata
'''
BUILD_METADATA_TEMPLATE = '''
provider = AuthProvider.get_provider(self._config)
if provider is not None:
    return provider.provide()
return []
'''
PROVIDE_TEMPLATE = '''
username = self._config.SERVICE_USERNAME
password = self._config.SERVICE_PASSWORD
if username is not None and password is not None:
    encode = base64.b64encode((username + ':' + password).encode('utf-8'))
    return [('authorization', 'Basic%20' + encode.decode('utf-8'))]
return []
'''
PUSH_TASK_TEMPLATE = '''
from deep.push import convert_snapshot
converted = convert_snapshot(snapshot)
if converted is None:
    return
logging.debug('Uploading snapshot: %s', snapshot_id_as_hex_str(snapshot.id))
stub = SnapshotServiceStub(self.grpc.channel)
stub.send(CALLARGS)
'''


def translate_provide(fdef):
    """BasicAuthProvider.provide translated (not template-matched): locals may have any name, statements that bind a
    local are inlined.  Understood: `x = self._config.SERVICE_USERNAME / SERVICE_PASSWORD` (optional strings),
    `if a is not None and b is not None:`, str `+`, str constants, `s.encode('utf-8')`, `base64.b64encode(bytes)`,
    `b.decode('utf-8' | 'ascii')` of base64 output, `return [(k, v), ...]`, `return []`."""
    CANON = {'self._config.SERVICE_USERNAME': 'username', 'self._config.SERVICE_PASSWORD': 'password'}
    env = {}                     # python local -> (kind, lean)   kind in optstr / str / bytes / b64

    def ex(n):
        text = ast.unparse(n)
        if text in CANON:
            return 'optstr', CANON[text]
        if isinstance(n, ast.Name):
            if n.id not in env:
                raise Untranslatable(f'provide: unknown name {n.id}')
            return env[n.id]
        if isinstance(n, ast.Constant) and isinstance(n.value, str):
            return 'str', lean_str(n.value)
        if isinstance(n, ast.BinOp) and isinstance(n.op, ast.Add):
            (ka, a), (kb, b) = ex(n.left), ex(n.right)
            if ka == kb == 'str':
                return 'str', f'{a} ++ {b}'
            raise Untranslatable(f'provide: `{text}` adds {ka} and {kb}')
        if isinstance(n, ast.Call) and isinstance(n.func, ast.Attribute) and n.func.attr in ('encode', 'decode') \
                and len(n.args) <= 1 and not n.keywords:
            codec = n.args[0].value.lower().replace('_', '-') if n.args and isinstance(n.args[0], ast.Constant) else 'utf-8'
            k, a = ex(n.func.value)
            if n.func.attr == 'encode' and k == 'str' and codec in ('utf-8', 'utf8'):
                return 'bytes', f'utf8 ({a})'
            if n.func.attr == 'decode' and k == 'b64' and codec in ('utf-8', 'utf8', 'ascii', 'us-ascii', 'latin-1'):
                return 'str', a              # base64 output is ASCII: every one of these codecs reads it the same
            raise Untranslatable(f'provide: `{text}` ({n.func.attr} of {k} with {codec})')
        if isinstance(n, ast.Call) and ast.unparse(n.func) in ('base64.b64encode', 'b64encode', 'base64.standard_b64encode') \
                and len(n.args) == 1 and not n.keywords:
            k, a = ex(n.args[0])
            if k != 'bytes':
                raise Untranslatable(f'provide: b64encode of {k}')
            return 'b64', f'b64encode ({a})'
        raise Untranslatable(f'provide: expression `{text}`')

    def ret(n):
        if not isinstance(n, ast.List):
            raise Untranslatable(f'provide: returns `{ast.unparse(n)}`')
        items = []
        for e in n.elts:
            if not (isinstance(e, ast.Tuple) and len(e.elts) == 2):
                raise Untranslatable('provide: metadata entries must be pairs')
            (ka, a), (kb, b) = ex(e.elts[0]), ex(e.elts[1])
            if ka != 'str' or kb != 'str':
                raise Untranslatable(f'provide: metadata pair of {ka}, {kb}')
            items.append(f'({a}, {b})')
        return '[' + ', '.join(items) + ']'

    def block(stmts, narrowed):
        stmts = [x for x in stmts if not (isinstance(x, ast.Expr) and isinstance(x.value, ast.Constant))]
        if not stmts:
            raise Untranslatable('provide: a path does not return')
        st, rest = stmts[0], stmts[1:]
        if isinstance(st, ast.Assign) and len(st.targets) == 1 and isinstance(st.targets[0], ast.Name):
            env[st.targets[0].id] = ex(st.value)
            return block(rest, narrowed)
        if isinstance(st, ast.Return) and st.value is not None:
            return ret(st.value)
        if isinstance(st, ast.If) and not st.orelse:
            conj = st.test.values if isinstance(st.test, ast.BoolOp) and isinstance(st.test.op, ast.And) else [st.test]
            names = []
            for c in conj:
                ok = (isinstance(c, ast.Compare) and len(c.ops) == 1 and isinstance(c.ops[0], ast.IsNot)
                      and isinstance(c.comparators[0], ast.Constant) and c.comparators[0].value is None)
                if not ok:
                    raise Untranslatable(f'provide: condition `{ast.unparse(st.test)}`')
                k, a = ex(c.left)
                if k != 'optstr' or a not in ('username', 'password'):
                    raise Untranslatable(f'provide: `{ast.unparse(c)}` does not test a credential')
                names.append((ast.unparse(c.left), a))
            if sorted(a for _, a in names) != ['password', 'username'] or narrowed:
                raise Untranslatable(f'provide: expected one test of both credentials, got `{ast.unparse(st.test)}`')
            saved = dict(env)
            for src, a in names:                      # inside the branch the credential is a str
                for loc, (k, v) in list(env.items()):
                    if k == 'optstr' and v == a:
                        env[loc] = ('str', a)
            CANON_STR = {src: a for src, a in names if src in CANON}
            then = block(st.body, True)
            env.clear()
            env.update(saved)
            other = block(rest, narrowed)
            return ('match username, password with\n  | some username, some password =>\n    ' + then +
                    '\n  | _, _ => ' + other)
        raise Untranslatable(f'provide: statement `{ast.unparse(st)[:60]}`')

    return ('def basicProvide (username password : Option String) : List (String × String) :=\n  '
            + block(list(fdef.body), False) + '\n')


def stub_call(fdef, method):
    """the `stub.<method>(request, metadata=...)` call inside fdef: (request expr, metadata expr or None)"""
    calls = [c for c in ast.walk(fdef) if isinstance(c, ast.Call) and ast.unparse(c.func) == f'stub.{method}']
    if len(calls) != 1:
        raise Untranslatable(f'{fdef.name}: expected exactly one stub.{method}(...) call, found {len(calls)}')
    c = calls[0]
    if len(c.args) != 1:
        raise Untranslatable(f'stub.{method}: one positional request expected')
    md = [k for k in c.keywords if k.arg == 'metadata']
    return ast.unparse(c.args[0]), (ast.unparse(md[0].value) if md else None)


def opt_str(s):
    return 'none' if s is None else f'(some {lean_str(s)})'


TRIGGER = 'src/deep/api/tracepoint/trigger.py'


def line_number_model(tp_tree, Translator):
    """where a tracepoint's `line_no` comes from: LocationAction.tracepoint passes the location's line to TracePointConfig,
    whose constructor stores it and whose `line_no` property reports it; FunctionLocation.line is a constant"""
    init = find_def(tp_tree, 'TracePointConfig.__init__')
    params = [a.arg for a in init.args.args]
    if params[:4] != ['self', 'tp_id', 'path', 'line_no']:
        raise Untranslatable(f'TracePointConfig.__init__ parameters changed: {params}')
    stores = [x for x in ast.walk(init) if isinstance(x, ast.Assign) and ast.unparse(x.targets[0]) == 'self._line_no']
    if len(stores) != 1:
        raise Untranslatable('TracePointConfig.__init__: expected exactly one assignment to self._line_no')
    tr = Translator(subst={'self._line_no': 'stored'},
                    calls={'max': lambda a: f'(max {a[0]} {a[1]})', 'min': lambda a: f'(min {a[0]} {a[1]})'})
    stored = tr.expr(stores[0].value)
    prop = find_def(tp_tree, 'TracePointConfig.line_no')
    body = [x for x in prop.body if not (isinstance(x, ast.Expr) and isinstance(x.value, ast.Constant))]
    reported = tr.block(body, None)
    trig = load(TRIGGER)
    fl = find_def(trig, 'FunctionLocation.line')
    fbody = [x for x in fl.body if not (isinstance(x, ast.Expr) and isinstance(x.value, ast.Constant))]
    if len(fbody) != 1 or not isinstance(fbody[0], ast.Return):
        raise Untranslatable('FunctionLocation.line is no longer a single return')
    try:
        fline = int(ast.literal_eval(fbody[0].value))
    except Exception:
        raise Untranslatable(f'FunctionLocation.line is not a constant: {ast.unparse(fbody[0].value)}')
    tpp = find_def(trig, 'LocationAction.tracepoint')
    ctor = [c for c in ast.walk(tpp) if isinstance(c, ast.Call) and ast.unparse(c.func) == 'TracePointConfig']
    if len(ctor) != 1 or len(ctor[0].args) < 3 or ctor[0].keywords:
        raise Untranslatable('LocationAction.tracepoint: expected one positional TracePointConfig(...) call')
    line_arg = ast.unparse(ctor[0].args[2])
    if not line_arg.endswith('location.line'):
        raise Untranslatable(f'LocationAction.tracepoint: the line number passed to TracePointConfig is `{line_arg}`')
    return ('/-- `TracePointConfig.__init__`: what is stored for the `line_no` argument -/\n'
            f'def tracepointStoredLine (line_no : Int) : Int := {stored}\n\n'
            '/-- the `TracePointConfig.line_no` property (what `__convert_tracepoint` reads) -/\n'
            'def tracepointLineNo (stored : Int) : Int :=\n' + textwrap.indent(reported, '  ') + '\n\n'
            '/-- `FunctionLocation.line`: a method tracepoint has no line -/\n'
            f'def functionLocationLine : Int := ({fline} : Int)\n\n'
            '/-- `LocationAction.tracepoint`: the line handed to `TracePointConfig(...)` -/\n'
            f'def tracepointLineSource : String := {lean_str(line_arg)}\n')


def generate():
    push = load(PUSH)
    grpc = load(GRPC)
    parts = [header('snapshot -> protobuf conversion, auth metadata (C08)',
                    [PUSH, GRPC, PUSHSVC, POLL, GRPCSVC, AUTH, SNAP, TPCFG, TRIGGER]),
             'import DeepModel.Model.WireBase\n', 'namespace Extracted.Wire\nopen _root_.Wire\n']

    # ---- source classes ----------------------------------------------------------------------------------------
    snap_tree, tp_tree = load(SNAP), load(TPCFG)
    src_props = {}
    for cls in SRC_ORDER:
        tree = tp_tree if cls == 'TracePointConfig' else snap_tree
        stored, derived = class_props(tree, cls)
        unknown = [p for p in stored if p not in SRC_TYPES[cls]]
        if unknown:
            raise Untranslatable(f'{cls} has stored properties the wire model does not know: {unknown}')
        src_props[cls] = stored
        parts.append(f'def {cls}Props : List String := [' + ', '.join(lean_str(p) for p in stored) + ']')
        parts.append(f'def {cls}Derived : List String := [' + ', '.join(lean_str(p) for p in derived) + ']')
        parts.append(f'structure {cls} where\n' + '\n'.join(
            f'  {ident(p)} : {lean_type(SRC_TYPES[cls][p])}' for p in stored) + '\n')
    parts.append('/-- `BoundedAttributes` as the conversion reads it: `.items()` and `.dropped` -/\n'
                 'structure BoundedAttributes where\n  items : List (Text × PyVal)\n  dropped : Int\n')
    src_props['BoundedAttributes'] = ['items', 'dropped']
    consts = module_constants(snap_tree)
    sources = [v for k, v in consts.items() if k.startswith('WATCH_SOURCE_') and isinstance(v, str)]
    # EventSnapshot.complete: how the duration is computed from the two clock readings
    comp = find_def(snap_tree, 'EventSnapshot.complete')
    cbody = [x for x in comp.body if not (isinstance(x, ast.Expr) and isinstance(x.value, ast.Constant))]
    if len(cbody) != 1 or not isinstance(cbody[0], ast.Assign) \
            or ast.unparse(cbody[0].targets[0]) != 'self._duration_nanos':
        raise Untranslatable('EventSnapshot.complete is no longer one assignment to self._duration_nanos')
    from pylean import Translator
    trc = Translator(subst={'time_ns()': 'now', 'self._ts_nanos': 'ts'},
                     calls={'max': lambda a: f'(max {a[0]} {a[1]})', 'min': lambda a: f'(min {a[0]} {a[1]})'})
    parts.append('/-- `EventSnapshot.complete`: the duration from the time stamp of the hit (`ts`) and the clock reading at\n'
                 '    completion (`now`, `time_ns()`) -/\n'
                 f'def completeDuration (now ts : Int) : Int := {trc.expr(cbody[0].value)}\n')
    parts.append(line_number_model(tp_tree, trc.__class__))
    parts.append('/-- the watch sources the agent writes (eventsnapshot.py WATCH_SOURCE_*) -/\n'
                 'def watchSources : List String := [' + ', '.join(lean_str(s) for s in sources) + ']\n')

    # ---- protobuf messages ---------------------------------------------------------------------------------------
    msgs, tpb, cpb = proto_messages()
    msg_fields, unmodelled = {}, []
    proto_rows = []
    for m in MSG_ORDER:
        d = msgs[m].DESCRIPTOR
        fields = {}
        for f in d.fields:
            ft = field_type(f, set(MSG_ORDER))
            if ft is None:
                unmodelled.append(f'{m}.{f.name}')
                continue
            fields[f.name] = ft
        msg_fields[m] = fields
        proto_rows.append(f'({lean_str(m)}, [' + ', '.join(lean_str(f.name) for f in d.fields) + '])')
        parts.append(f'/-- constructor arguments of protobuf `{d.full_name}` (unset = default) -/\n'
                     f'structure P{m} where\n' + '\n'.join(
                         f'  {ident(n)} : {lean_type(t)} := {lean_default(t)}' for n, (t, _) in fields.items()) + '\n')
        conj = [accept_expr(f'm.{ident(n)}', acc) for n, (_, acc) in fields.items()]
        conj = [c for c in conj if c]
        parts.append(f'/-- protobuf builds the message (no TypeError / ValueError) -/\n'
                     f'def P{m}.accepts (m : P{m}) : Bool :=\n  ' + (' &&\n  '.join(f'({c})' for c in conj) or 'true')
                     + '\n')
    parts.append('def protoFields : List (String × List String) :=\n  [' + ',\n   '.join(proto_rows) + ']\n')
    parts.append('def protoUnmodelled : List String := [' + ', '.join(lean_str(u) for u in unmodelled) + ']\n')
    ws = sorted((v, k) for k, v in tpb.WatchSource.items())
    parts.append('/-- `WatchSource.Value(name)`; an unknown name raises ValueError (`none`) -/\n'
                 'def watchSourceNames : List (String × Nat) := [' + ', '.join(
                     f'({lean_str(k)}, {v})' for v, k in ws) + ']\n'
                 'def watchSourceValue (t : Text) : Option Nat :=\n'
                 '  (watchSourceNames.find? (fun kv => Text.ofString kv.1 == t)).map (·.2)\n')

    # ---- convert_value --------------------------------------------------------------------------------------------
    cv = find_def(grpc, 'convert_value')
    chain = []
    body = [s for s in cv.body if not (isinstance(s, ast.Expr) and isinstance(s.value, ast.Constant))]
    for s in body[:-1]:
        ok = (isinstance(s, ast.If) and not s.orelse and len(s.body) == 1 and isinstance(s.body[0], ast.Return)
              and isinstance(s.test, ast.Call) and ast.unparse(s.test.func) == 'isinstance'
              and ast.unparse(s.test.args[0]) == 'value' and isinstance(s.body[0].value, ast.Call)
              and ast.unparse(s.body[0].value.func) == 'AnyValue' and len(s.body[0].value.keywords) == 1)
        if not ok:
            raise Untranslatable(f'convert_value: unexpected statement {ast.unparse(s)[:70]}')
        tys = s.test.args[1]
        tys = [e.id for e in tys.elts] if isinstance(tys, ast.Tuple) else [tys.id]
        kw = s.body[0].value.keywords[0]
        chain.append((tys, kw.arg, ast.unparse(kw.value)))
    if ast.unparse(body[-1]) != 'return None':
        raise Untranslatable('convert_value: does not end with `return None`')
    vd = find_def(grpc, '__value_as_dict')
    vl = find_def(grpc, '__value_as_list')
    if not same_shape(vd, 'return KeyValueList(values=[KeyValue(key=k, value=convert_value(v)) for k, v in value.items()])'):
        raise Untranslatable('__value_as_dict changed shape')
    if same_shape(vl, 'return ArrayValue(values=[AnyValue() if val is None else convert_value(val) for val in value])'):
        elem = '(match v with | .none => .empty | v => convert_value v)'      # None keeps its position, as AnyValue()
    elif same_shape(vl, 'return ArrayValue(values=[convert_value(val) for val in value])'):
        elem = '(convert_value v)'
    else:
        raise Untranslatable('__value_as_list changed shape')
    parts.append('/-- the isinstance chain of `convert_value`, in source order: (types, AnyValue field, argument) -/\n'
                 'def convertValueOrder : List (List String × String × String) :=\n  [' + ',\n   '.join(
                     '([' + ', '.join(lean_str(t) for t in tys) + f'], {lean_str(f)}, {lean_str(a)})'
                     for tys, f, a in chain) + ']\n')
    # python type of each PyVal constructor with its base classes (bool is an int)
    ctor_types = {'none': ['NoneType'], 'bool': ['bool', 'int'], 'str': ['str'], 'int': ['int'], 'float': ['float'],
                  'bytes': ['bytes'], 'dict': ['dict'], 'list': ['list'], 'tuple': ['tuple'], 'other': []}
    binder = {'none': '', 'bool': ' b', 'str': ' t', 'int': ' i', 'float': ' f', 'bytes': ' b', 'dict': ' kvs',
              'list': ' vs', 'tuple': ' vs', 'other': ' _'}
    payload = {   # (constructor, field, argument) -> Lean
        ('bool', 'bool_value', 'value'): '.bool_value b',
        ('str', 'string_value', 'value'): '.string_value t',
        ('int', 'int_value', 'value'): '.int_value i',
        ('float', 'double_value', 'value'): '.double_value f',
        ('bytes', 'bytes_value', 'value'): '.bytes_value b',
        ('dict', 'kvlist_value', '__value_as_dict(value)'): '.kvlist_value (value_as_dict kvs)',
        ('list', 'array_value', '__value_as_list(value)'): '.array_value (value_as_list vs)',
        ('tuple', 'array_value', '__value_as_list(value)'): '.array_value (value_as_list vs)',
    }
    arms = []
    for c, bases in ctor_types.items():
        hit = next(((f, a) for tys, f, a in chain if any(b in tys for b in bases)), None)
        if hit is None:
            arms.append(f'    | .{c}{binder[c]} => .pyNone')
        else:
            p = payload.get((c, hit[0], hit[1]))
            if p is None:
                raise Untranslatable(f'convert_value: a {c} would be sent as {hit[0]}={hit[1]} (not modelled)')
            arms.append(f'    | .{c}{binder[c]} => {p}')
    parts.append('mutual\n  /-- `convert_value`; `pyNone` = the final `return None` (type not convertible) -/\n'
                 '  def convert_value : PyVal → PAnyValue\n' + '\n'.join(arms) + '\n'
                 '  /-- `__value_as_list` -/\n'
                 '  def value_as_list : PyVals → PAnyList\n    | .nil => .nil\n'
                 f'    | .cons v r => .cons {elem} (value_as_list r)\n'
                 '  /-- `__value_as_dict` -/\n'
                 '  def value_as_dict : PyKVs → PKVList\n    | .nil => .nil\n'
                 '    | .cons k v r => .cons k (convert_value v) (value_as_dict r)\nend\n')

    # ---- converters of push/__init__.py ---------------------------------------------------------------------------
    aliases = {}
    for n in push.body:
        if isinstance(n, ast.ImportFrom) and n.module and n.module.endswith('api.tracepoint'):
            for a in n.names:
                aliases[a.asname or a.name] = a.name
    cv_ = Conv(src_props, msg_fields, aliases)
    for py, lean in (('__convert_variable_id', 'convertVariableId'), ('__convert_variable', 'convertVariable'),
                     ('__convert_frame', 'convertFrame')):
        parts.append(cv_.function(find_def(push, py), lean))
    wsrc = find_def(push, '__convert_watch_source')
    parts.append(cv_.function(wsrc, 'convertWatchSource', pty='Text'))
    parts.append(cv_.function(find_def(push, '__convert_watch'), 'convertWatch'))
    parts.append(cv_.function(find_def(push, '__convert_tracepoint'), 'convertTracepoint'))
    lk = find_def(push, '__convert_lookup')
    if not same_shape(lk, LOOKUP_TEMPLATE):
        raise Untranslatable('__convert_lookup changed shape')
    parts.append('def convertLookup (var_lookup : List (Text × Variable)) : List (Text × PVariable) :=\n'
                 '  List.map (fun (k, v) => (k, convertVariable v)) var_lookup\n')
    cv_.funcs['__convert_lookup'] = {'lean': 'convertLookup', 'pty': ('map', ('src', 'Variable')),
                                     'rty': ('map', ('msg', 'Variable')), 'guard': False}
    cs = find_def(push, 'convert_snapshot')
    body = [s for s in cs.body if not (isinstance(s, ast.Expr) and isinstance(s.value, ast.Constant))]
    if not (len(body) == 1 and isinstance(body[0], ast.Try) and len(body[0].body) == 1
            and isinstance(body[0].body[0], ast.Return) and len(body[0].handlers) == 1
            and ast.unparse(body[0].handlers[0].type) == 'Exception'
            and ast.unparse(body[0].handlers[0].body[-1]) == 'return None' and not body[0].finalbody):
        raise Untranslatable('convert_snapshot: expected try: return Snapshot(...) except Exception: ... return None')
    fake = ast.FunctionDef(name='convert_snapshot', args=cs.args, body=[body[0].body[0]], decorator_list=[])
    parts.append('/-- the `Snapshot(...)` expression of `convert_snapshot`; the enclosing `try/except Exception: return None`\n'
                 '    is `Wire.convertSnapshot` -/\n' + cv_.function(fake, 'convertSnapshotRaw'))

    # ---- convert_resource ---------------------------------------------------------------------------------------------
    ca = find_def(grpc, '__convert_attributes')
    parts.append(cv_.function(ca, 'convertAttributes', pty=('src', 'BoundedAttributes')))
    cr = find_def(grpc, 'convert_resource')
    if not same_shape(cr, 'return __convert_attributes(resource.attributes)'):
        raise Untranslatable('convert_resource changed shape')

    parts.append('def fieldMaps : List (String × List (String × String × String)) :=\n  [' + ',\n   '.join(
        f'({lean_str(fn)}, [' + ', '.join(f'({lean_str(d)}, {lean_str(s)}, {lean_str(v)})' for d, s, v in fm) + '])'
        for fn, fm in cv_.maps.items()) + ']\n')

    # ---- the send and poll paths --------------------------------------------------------------------------------------
    pt = find_def(load(PUSHSVC), 'PushService._push_task')
    req, md = stub_call(pt, 'send')
    args = req + (f', metadata={md}' if md is not None else '')
    if not same_shape(pt, PUSH_TASK_TEMPLATE.replace('CALLARGS', args)):
        raise Untranslatable('_push_task changed shape (convert, return when None, stub.send(converted, ...))')
    parts.append(f'/-- `stub.send({args})` in PushService._push_task, reached only when the conversion gave a message -/\n'
                 f'def sendRequestArg : String := {lean_str(req)}\n'
                 f'def sendMetadataArg : Option String := {opt_str(md)}\n')
    pl = find_def(load(POLL), 'LongPoll.poll')
    req, md = stub_call(pl, 'poll')
    reqdef = [s for s in pl.body if isinstance(s, ast.Assign) and ast.unparse(s.targets[0]) == req]
    if len(reqdef) != 1 or not isinstance(reqdef[0].value, ast.Call) \
            or ast.unparse(reqdef[0].value.func) != 'PollRequest':
        raise Untranslatable('LongPoll.poll: the request is not built by PollRequest(...)')
    kws = {k.arg: ast.unparse(k.value) for k in reqdef[0].value.keywords}
    if kws.get('resource') != 'convert_resource(self.config.resource)' or 'current_hash' not in kws \
            or 'ts_nanos' not in kws or len(kws) != 3:
        raise Untranslatable(f'LongPoll.poll: PollRequest arguments changed: {kws}')
    parts.append(f'/-- `stub.poll({req}' + (f', metadata={md}' if md else '') + ')` in LongPoll.poll -/\n'
                 f'def pollMetadataArg : Option String := {opt_str(md)}\n'
                 'def pollRequestFields : List (String × String) := [' + ', '.join(
                     f'({lean_str(k)}, {lean_str(v)})' for k, v in kws.items()) + ']\n')
    gs = load(GRPCSVC)
    cached = same_shape(find_def(gs, 'GRPCService.metadata'), METADATA_TEMPLATE)
    if not cached:
        raise Untranslatable('GRPCService.metadata changed shape')
    if not same_shape(find_def(gs, 'GRPCService._build_metadata'), BUILD_METADATA_TEMPLATE):
        raise Untranslatable('GRPCService._build_metadata changed shape')
    parts.append('/-- GRPCService.metadata: built once by `_build_metadata` (provider.provide() or []), then cached -/\n'
                 'def metadataCached : Bool := true\n'
                 '/-- `_build_metadata`: `provider.provide()` when a provider is configured, else `[]` -/\n'
                 'def buildMetadata (provided : Option (List (String × String))) : List (String × String) :=\n'
                 '  match provided with\n  | some md => md\n  | none => []\n')
    au = load(AUTH)
    gp = find_def(au, 'AuthProvider.get_provider')
    first = [s for s in gp.body if isinstance(s, ast.If)]
    if not first or ast.unparse(first[0].test) != "provider is None or provider == ''" \
            or ast.unparse(first[0].body[0]) != 'return None':
        raise Untranslatable('AuthProvider.get_provider: "no provider" test changed')
    parts.append('/-- `get_provider`: no provider when SERVICE_AUTH_PROVIDER is None or "" -/\n'
                 'def noProvider (name : Option String) : Bool := name.isNone || name == some ""\n')
    # what follows the "no provider" test: how the class is loaded.  Nothing here catches an exception, so a name that
    # cannot be loaded (no dot: ValueError from the unpacking, unknown module: ModuleNotFoundError, unknown attribute:
    # AttributeError, not callable / abstract: TypeError) propagates out of get_provider -> _build_metadata -> metadata()
    idx = gp.body.index(first[0])
    tail = [x for x in gp.body[idx + 1:]]
    if any(isinstance(x, (ast.Try, ast.With)) for t in tail for x in ast.walk(t)):
        raise Untranslatable('AuthProvider.get_provider: the loading of the provider class is now guarded (try/with)')
    parts.append('/-- `get_provider` after the "no provider" test: the statements that load and instantiate the class; none\n'
                 '    of them is guarded, an exception of any of them propagates to `GRPCService.metadata()` -/\n'
                 'def getProviderLoad : List String := [' + ', '.join(lean_str(ast.unparse(x).split('\n')[0]) for x in tail)
                 + ']\n')
    pv = find_def(au, 'BasicAuthProvider.provide')
    parts.append('/-- BasicAuthProvider.provide (translated) -/\n' + translate_provide(pv))
    parts.append('end Extracted.Wire\n')
    return '\n'.join(parts)
