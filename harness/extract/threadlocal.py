"""Extracted/ThreadLocal.lean — `deep.thread_local.ThreadLocal` (C15: the per-thread store of pending callbacks),
regenerated from src/deep/thread_local.py.

Every method of the class (`get`, `set`, `clear`, `is_set`, the `value` property getter / setter) is translated
statement by statement into a Lean state transformer over

    slot  : Slot α = Option (Option α)   the attribute `value` of the CALLING thread's namespace in `self.__store`
                                         (`none` = no such attribute; a Python value is `Option α`, `none` = `None`)
    calls : Nat                          how often `self.__default_provider` of this instance was called so far
                                         (`default_provider k` = what its k-th call does: `some v` = returns `v`,
                                         `none` = raises; providers may be stateful, `lambda: deque()` returns a new
                                         object each time)

with result `Slot α × Nat × Option R`: the state when the method is left and `some r` = it returns `r`, `none` = an
exception leaves it (AttributeError: `del` / read of an attribute the thread's namespace does not have; or the
provider's own exception, which `get` does not catch).  Statement / expression vocabulary (anything else is Untranslatable — never
guessed):

    x = E | self.__store.value = E | del self.__store.value | if C: .. [else: ..] | return [E] |
    self.set(E) | return self.get()
    E ::= x | None | getattr(self.__store, 'value', None) | self.__store.value | self.__default_provider() (as the
          whole right-hand side of an assignment only)
    C ::= hasattr(self.__store, 'value') | E is None | E is not None | not C

What makes the namespace *per thread* is `self.__store = threading.local()` in `__init__` (checked as an exact shape,
together with "no class-level attribute, no other instance attribute"): the interpreter keeps one attribute dict per
(local object, thread state) and releases it with the thread — that is the trusted base (CPython), modelled in
`Model/ThreadLocal.lean` as a store keyed by the thread OBJECT, and exercised by the differential run on real threads
whose idents are reused.
"""
import ast

from pylean import Untranslatable, load, find_def, same_shape, header

OUT = 'DeepModel/Extracted/ThreadLocal.lean'
SRC = 'src/deep/thread_local.py'

STORE = 'self.__store'
ATTR = 'value'


def strip_doc(body):
    if body and isinstance(body[0], ast.Expr) and isinstance(body[0].value, ast.Constant) \
            and isinstance(body[0].value.value, str):
        return body[1:]
    return list(body)


def is_store_attr(n):
    return isinstance(n, ast.Attribute) and n.attr == ATTR and ast.unparse(n.value) == STORE


class TL:
    """one method body -> Lean text.  `ret` = Lean text of the value returned by a bare fall-off / `return`."""

    def __init__(self, params, ret_kind):
        self.locals = set(params)
        self.ret_kind = ret_kind        # 'val' (Option α) | 'unit' | 'bool'

    # ---- expressions of type Option α
    def val(self, n):
        if isinstance(n, ast.Constant) and n.value is None:
            return '(none : Option α)'
        if isinstance(n, ast.Name):
            if n.id not in self.locals:
                raise Untranslatable('unknown name %s' % n.id)
            return n.id + '_' if n.id in ('get', 'set', 'clear') else n.id
        if isinstance(n, ast.Call) and ast.unparse(n.func) == 'getattr':
            if len(n.args) == 3 and ast.unparse(n.args[0]) == STORE and ast.unparse(n.args[1]) == repr(ATTR) \
                    and isinstance(n.args[2], ast.Constant) and n.args[2].value is None and not n.keywords:
                return '(slot.getD none)'
            raise Untranslatable('getattr outside the vocabulary: ' + ast.unparse(n))
        raise Untranslatable('expression outside the vocabulary: ' + ast.unparse(n)[:80])

    # ---- conditions
    def cond(self, n):
        if isinstance(n, ast.UnaryOp) and isinstance(n.op, ast.Not):
            return '(!%s)' % self.cond(n.operand)
        if isinstance(n, ast.Call) and ast.unparse(n.func) == 'hasattr' and len(n.args) == 2 \
                and ast.unparse(n.args[0]) == STORE and ast.unparse(n.args[1]) == repr(ATTR):
            return 'slot.isSome'
        if isinstance(n, ast.Compare) and len(n.ops) == 1 and isinstance(n.comparators[0], ast.Constant) \
                and n.comparators[0].value is None:
            if isinstance(n.ops[0], ast.Is):
                return '%s.isNone' % self.val(n.left)
            if isinstance(n.ops[0], ast.IsNot):
                return '%s.isSome' % self.val(n.left)
        raise Untranslatable('condition outside the vocabulary: ' + ast.unparse(n)[:80])

    def name(self, x):
        return x + '_' if x in ('get', 'set', 'clear') else x

    def done(self, value):
        return '(slot, calls, some %s)' % value

    RAISE = '(slot, calls, none)'

    def fall_off(self):
        if self.ret_kind == 'unit':
            return self.done('()')
        if self.ret_kind == 'val':
            return self.done('(none : Option α)')        # a Python function that falls off its end returns None
        raise Untranslatable('a bool-valued method may fall off its end')

    def block(self, stmts, ind):
        """translate `stmts` (the rest of the function from here).  Returns a list of lines."""
        p = '  ' * ind
        if not stmts:
            return [p + self.fall_off()]
        s, rest = stmts[0], stmts[1:]
        if isinstance(s, ast.Pass) or (isinstance(s, ast.Expr) and isinstance(s.value, ast.Constant)):
            return self.block(rest, ind)
        if isinstance(s, ast.Return):
            if s.value is None:
                return [p + self.fall_off()]
            if isinstance(s.value, ast.Call) and ast.unparse(s.value) == 'self.get()':
                if self.ret_kind != 'val':
                    raise Untranslatable('return self.get() in a method that is not value-typed')
                return [p + 'tlGet default_provider calls slot']
            if self.ret_kind == 'bool':
                return [p + self.done(self.cond(s.value))]
            if self.ret_kind == 'val':
                return [p + self.done(self.val(s.value))]
            raise Untranslatable('unexpected return value: ' + ast.unparse(s))
        if isinstance(s, ast.Assign) and len(s.targets) == 1:
            t, v = s.targets[0], s.value
            if isinstance(t, ast.Name):
                self.locals.add(t.id)
                if isinstance(v, ast.Call) and ast.unparse(v) == 'self.__default_provider()':
                    return [p + 'match default_provider calls with',
                            p + '| none => (slot, calls + 1, none)   -- the provider raises: its exception leaves the method',
                            p + '| some %s =>' % self.name(t.id),
                            p + '  let calls := calls + 1'] + self.block(rest, ind + 1)
                if is_store_attr(v):
                    # reading an attribute the namespace does not have raises AttributeError
                    return [p + 'match slot with', p + '| none => ' + self.RAISE, p + '| some %s =>' % self.name(t.id)] + \
                        self.block(rest, ind + 1)
                return [p + 'let %s := %s' % (self.name(t.id), self.val(v))] + self.block(rest, ind)
            if is_store_attr(t):
                return [p + 'let slot : Slot α := some %s' % self.val(v)] + self.block(rest, ind)
        if isinstance(s, ast.Delete) and len(s.targets) == 1 and is_store_attr(s.targets[0]):
            return [p + 'match slot with', p + '| none => ' + self.RAISE + '   -- AttributeError',
                    p + '| some _ =>', p + '  let slot : Slot α := none'] + self.block(rest, ind + 1)
        if isinstance(s, ast.Expr) and isinstance(s.value, ast.Call) and ast.unparse(s.value.func) == 'self.set' \
                and len(s.value.args) == 1 and not s.value.keywords:
            return [p + 'match tlSet default_provider %s calls slot with' % self.val(s.value.args[0]),
                    p + '| (slot, calls, none) => (slot, calls, none)',
                    p + '| (slot, calls, some _) =>'] + self.block(rest, ind + 1)
        if isinstance(s, ast.If):
            saved = set(self.locals)
            a = self.block(list(s.body) + rest, ind + 1)
            self.locals = set(saved)
            b = self.block(list(s.orelse) + rest, ind + 1)
            return [p + 'if %s then' % self.cond(s.test)] + a + [p + 'else'] + b
        raise Untranslatable('statement outside the vocabulary: ' + ast.unparse(s)[:80])


def find_property(cls, name, setter):
    for n in cls.body:
        if isinstance(n, ast.FunctionDef) and n.name == name:
            decs = [ast.unparse(d) for d in n.decorator_list]
            if (setter and decs == ['%s.setter' % name]) or (not setter and decs == ['property']):
                return n
    raise Untranslatable('property %s (%s) not found' % (name, 'setter' if setter else 'getter'))


def method(cls, name, lean_name, extra_params, ret_kind, ret_type, doc, prop=None):
    if prop is None:
        f = None
        for n in cls.body:
            if isinstance(n, ast.FunctionDef) and n.name == name and not n.decorator_list:
                f = n
        if f is None:
            raise Untranslatable('method ThreadLocal.%s not found' % name)
    else:
        f = find_property(cls, name, prop == 'setter')
    params = [a.arg for a in f.args.args]
    if params != ['self'] + [pn for pn, _ in extra_params] or f.args.vararg or f.args.kwarg or f.args.kwonlyargs:
        raise Untranslatable('ThreadLocal.%s signature changed: %s' % (name, params))
    tl = TL([pn for pn, _ in extra_params], ret_kind)
    body = tl.block(strip_doc(f.body), 1)
    sig = ' '.join('(%s : Option α)' % tl.name(pn) for pn, _ in extra_params)
    return ('/-- %s -/\n' % doc +
            'def %s {α : Type} (default_provider : Nat → Option (Option α)) %s(calls : Nat) (slot : Slot α) : '
            'Slot α × Nat × Option (%s) :=\n' % (lean_name, sig + ' ' if sig else '', ret_type) +
            '\n'.join(body) + '\n')


def generate():
    tree = load(SRC)
    cls = find_def(tree, 'ThreadLocal')
    # the store: one threading.local() per instance, created in __init__, nothing at class level, nothing else per
    # instance (a class-level dict keyed by thread ident is what 0ec78d1 removed)
    init = find_def(tree, 'ThreadLocal.__init__')
    if [a.arg for a in init.args.args] != ['self', 'default_provider']:
        raise Untranslatable('ThreadLocal.__init__ signature changed')
    if not same_shape(init, 'self.__default_provider = default_provider\nself.__store = threading.local()'):
        raise Untranslatable('ThreadLocal.__init__ no longer keeps its values on a threading.local() of its own')
    for n in cls.body:
        if isinstance(n, ast.FunctionDef):
            continue
        if isinstance(n, ast.Expr) and isinstance(n.value, ast.Constant) and isinstance(n.value.value, str):
            continue
        raise Untranslatable('ThreadLocal has a class-level statement: ' + ast.unparse(n)[:80])
    names = sorted(n.name for n in cls.body if isinstance(n, ast.FunctionDef))
    if names != sorted(['__init__', 'get', 'set', 'clear', 'is_set', 'value', 'value']):
        raise Untranslatable('ThreadLocal has other methods than the model: %s' % names)
    for n in ast.walk(cls):
        if isinstance(n, ast.Attribute) and ast.unparse(n).startswith('threading.') and ast.unparse(n) != 'threading.local':
            raise Untranslatable('ThreadLocal uses %s' % ast.unparse(n))
        if isinstance(n, (ast.Global, ast.Nonlocal)):
            raise Untranslatable('ThreadLocal uses global state')
    parts = [header('ThreadLocal: the per-thread value store (C15)', [SRC]),
             'set_option linter.unusedVariables false\n',
             'namespace Extracted.ThreadLocal\n',
             '/-- the attribute `value` of the calling thread\'s namespace in `self.__store`: `none` = no attribute;\n'
             '    a Python value is `Option α` (`none` = `None`) -/\n'
             'abbrev Slot (α : Type) := Option (Option α)\n',
             '/-- tripwire constant: where `__init__` puts the store (`self.__store = <this>()`) -/\n'
             'def storeFactory : String := "threading.local"\n']
    parts.append(method(cls, 'get', 'tlGet', [], 'val', 'Option α', '`ThreadLocal.get`'))
    parts.append(method(cls, 'set', 'tlSet', [('val', 'v')], 'unit', 'Unit', '`ThreadLocal.set`'))
    parts.append(method(cls, 'clear', 'tlClear', [], 'unit', 'Unit', '`ThreadLocal.clear`'))
    parts.append(method(cls, 'is_set', 'tlIsSet', [], 'bool', 'Bool', '`ThreadLocal.is_set` (property)', prop='getter'))
    parts.append(method(cls, 'value', 'tlValueGet', [], 'val', 'Option α', '`ThreadLocal.value` (property getter)',
                        prop='getter'))
    parts.append(method(cls, 'value', 'tlValueSet', [('value', 'v')], 'unit', 'Unit',
                        '`ThreadLocal.value` (property setter)', prop='setter'))
    parts.append('end Extracted.ThreadLocal\n')
    return '\n'.join(parts)
