"""Regenerate lean/DeepModel/Extracted/*.lean from /repo's current sources.

usage: run.py [area ...]      (no area = all)
Each area module defines OUT (path relative to lean/) and generate() -> str.  A failure to translate is
not fatal here: the file is written with a Lean error carrying the reason, so every theorem that depends
on it fails to build and the affected checks report a broken tie (DESIGN.md §8 step 4).
Writes lean/DeepModel/Extracted/status.json: {area: "ok" | "<reason>"}.
"""
import importlib
import json
import os
import sys
import traceback

HERE = os.path.dirname(os.path.abspath(__file__))
sys.path.insert(0, os.path.dirname(HERE))
sys.path.insert(0, HERE)
import pylean  # noqa: E402

LEAN = os.path.join(os.path.dirname(os.path.dirname(HERE)), 'lean')
AREAS = sorted(f[:-3] for f in os.listdir(HERE) if f.endswith('.py') and f not in ('run.py', '__init__.py'))


BASELINE = os.path.join(HERE, 'baseline')


def baseline_path(area):
    return os.path.join(BASELINE, area + '.lean')


def restore_baseline(areas):
    """put the committed last-good translation (made from the pinned /repo HEAD) back in place of the generated
    file of each area.  Used when the current source cannot be translated, or its translation no longer carries
    the proofs: the model is then the hand-kept baseline, tied to the code by the correspondence run alone."""
    done = []
    for a in areas:
        mod = importlib.import_module(a)
        if os.path.exists(baseline_path(a)):
            pylean.write_if_changed(os.path.join(LEAN, mod.OUT), open(baseline_path(a), encoding='utf-8').read())
            done.append(a)
    return done


def main(argv):
    save = '--save-baseline' in argv
    argv = [a for a in argv if not a.startswith('--')]
    areas = argv or AREAS
    status = {}
    for a in areas:
        mod = importlib.import_module(a)
        try:
            text = mod.generate()
            status[a] = 'ok'
            if save:
                os.makedirs(BASELINE, exist_ok=True)
                pylean.write_if_changed(baseline_path(a), text)
        except Exception as e:  # Untranslatable or an unexpected source shape
            reason = f'{type(e).__name__}: {e}'
            status[a] = reason
            if os.path.exists(baseline_path(a)):
                text = open(baseline_path(a), encoding='utf-8').read()     # keep the last good model (see core.py)
            else:
                text = (pylean.header('TRANSLATION FAILED', [a]) +
                        f'\n-- {traceback.format_exc().splitlines()[-1]}\n'
                        f'example : {pylean.lean_str("untranslatable: " + reason[:300])} = "" := by decide\n')
        pylean.write_if_changed(os.path.join(LEAN, mod.OUT), text)
    spath = os.path.join(LEAN, 'DeepModel/Extracted/status.json')
    old = {}
    if argv and os.path.exists(spath):
        try:
            old = json.load(open(spath))
        except Exception:
            old = {}
    old.update(status)
    pylean.write_if_changed(spath, json.dumps(old, indent=1, sort_keys=True) + '\n')
    return status


if __name__ == '__main__':
    st = main(sys.argv[1:])
    for k, v in st.items():
        print(f'extract {k}: {v}')
