"""Extracted/Deferred.lean — how deferred work is registered and completed (C15), regenerated from
src/deep/processor/context/{trigger_context,span_action,snapshot_action,log_action,metric_action}.py.

  * `contextExit`          — `TriggerContext.__exit__`: the loop that turns the results of the actions that ran into the
                             callbacks of the event (`result.process(ctx)` per result, per-result `try/except`);
  * `resultHasCallback`    — per `ActionResult` subclass of the package: does its `process` return a callback
                             (`return <ActionCallback subclass>(..)`) or `None`;
  * `attachedResult*`      — which result class an action context attaches (span: `SpanResult` when a span was created;
                             snapshot: `DeferredSnapshotActionResult` iff `_is_deferred()` else `SendSnapshotActionResult`);
  * `deferredStages` / `isDeferred` — `SnapshotActionContext._is_deferred`;
  * `spanCallbackProcess`  — `SpanActionCallback.process`: the loop that closes the spans (per-span `try/except`);
  * `captureAttaches`      — the guard of `DeferredSnapshotActionCallback.process` under which the result of the
                             invocation (`arg` of the event) is attached; the snapshot is pushed unconditionally after.
A loop is translated from a fixed vocabulary (one call per element, optionally in its own `try: .. except <class>:
<logging only>`); anything else is Untranslatable.
"""
import ast
import os

import pylean
from pylean import Translator, Untranslatable, load, find_def, same_shape, header, lean_str

OUT = 'DeepModel/Extracted/Deferred.lean'
DIR = 'src/deep/processor/context'
TCTX = DIR + '/trigger_context.py'
SPAN = DIR + '/span_action.py'
SNAP = DIR + '/snapshot_action.py'
LOG = DIR + '/log_action.py'
METRIC = DIR + '/metric_action.py'
CONSTS = 'src/deep/api/tracepoint/constants.py'


def strip_doc(body):
    if body and isinstance(body[0], ast.Expr) and isinstance(body[0].value, ast.Constant) \
            and isinstance(body[0].value.value, str):
        return body[1:]
    return list(body)


def is_logging(s):
    if not (isinstance(s, ast.Expr) and isinstance(s.value, ast.Call)):
        return False
    parts = ast.unparse(s.value.func).split('.')
    return len(parts) >= 2 and parts[-2] == 'logging' and parts[-1] in ('debug', 'info', 'warning', 'error', 'exception')


def no_logging(stmts):
    return [s for s in stmts if not is_logging(s)]


def isolated_loop(loop_body, what):
    """`loop_body` = the statements of a for loop: either the plain statements, or one `try: <stmts> except C: <logging>`.
    Returns (statements, caught class or None)."""
    body = no_logging(loop_body)
    if len(body) == 1 and isinstance(body[0], ast.Try):
        t = body[0]
        if not (len(t.handlers) == 1 and t.handlers[0].type is not None
                and ast.unparse(t.handlers[0].type) in ('Exception', 'BaseException')
                and not no_logging(t.handlers[0].body) and not t.orelse and not t.finalbody):
            raise Untranslatable('%s: the per-element try is not `except Exception: <logging>`' % what)
        return no_logging(t.body), ast.unparse(t.handlers[0].type)
    return body, None


def on_fail(caught):
    """Lean continuation texts for (Exception, BaseException) raised by the element's call"""
    go, stop = 'GO', 'STOP'
    return (go if caught in ('Exception', 'BaseException') else stop,
            go if caught == 'BaseException' else stop)


def gen_context_exit(tctx):
    f = find_def(tctx, 'TriggerContext.__exit__')
    body = no_logging(strip_doc(f.body))
    if not (len(body) == 1 and isinstance(body[0], ast.For) and ast.unparse(body[0].target) == 'result'
            and ast.unparse(body[0].iter) == 'self.__results' and not body[0].orelse):
        raise Untranslatable('TriggerContext.__exit__ is no longer one loop over its results')
    stmts, caught = isolated_loop(body[0].body, 'TriggerContext.__exit__')
    want = ['new_callback = result.process(self)',
            'if new_callback is not None:\n    self.callbacks.append(new_callback)']
    if [ast.unparse(s) for s in stmts] != want:
        raise Untranslatable('TriggerContext.__exit__: loop body outside the vocabulary')
    if not same_shape(find_def(tctx, 'TriggerContext.attach_result'), 'self.__results.append(result)'):
        raise Untranslatable('TriggerContext.attach_result no longer appends')
    init = find_def(tctx, 'TriggerContext.__init__')
    if not any(ast.unparse(s).startswith('self.callbacks') and ast.unparse(s).endswith('= []') for s in init.body):
        raise Untranslatable('TriggerContext.callbacks is no longer an empty list at creation')
    e, b = on_fail(caught)
    go, stop = 'contextExit proc rest', '([], true)'
    e = go if e == 'GO' else stop
    b = go if b == 'GO' else stop
    return ('/-- `TriggerContext.__exit__`: `proc r` = what `r.process(ctx)` does — returns a callback (`some c`), returns\n'
            '    `None`, or raises.  Result: the callbacks appended to `ctx.callbacks` (in order), and whether an exception\n'
            '    leaves `__exit__` (the remaining results are then not processed). -/\n'
            'def contextExit {ρ γ : Type} (proc : ρ → Except Py.Exn (Option γ)) : List ρ → List γ × Bool\n'
            '  | [] => ([], false)\n'
            '  | result :: rest =>\n'
            '    match proc result with\n'
            '    | .ok none => contextExit proc rest\n'
            '    | .ok (some new_callback) => let r := contextExit proc rest; (new_callback :: r.1, r.2)\n'
            f'    | .error Py.Exn.exc => {e}\n'
            f'    | .error Py.Exn.base => {b}\n')


def class_defs(tree):
    return [n for n in tree.body if isinstance(n, ast.ClassDef)]


def gen_result_table(trees):
    classes = {}
    for t in trees:
        for c in class_defs(t):
            classes[c.name] = c

    def is_sub(name, root, seen=()):
        if name == root:
            return True
        c = classes.get(name)
        if c is None or name in seen:
            return False
        return any(is_sub(ast.unparse(b), root, seen + (name,)) for b in c.bases)

    rows = []
    for name, c in sorted(classes.items()):
        if name == 'ActionResult' or not is_sub(name, 'ActionResult'):
            continue
        proc = [n for n in c.body if isinstance(n, ast.FunctionDef) and n.name == 'process']
        if not proc:
            raise Untranslatable('%s has no process of its own' % name)
        rets = [n for n in ast.walk(proc[0]) if isinstance(n, ast.Return)]
        kinds = set()
        for r in rets:
            if r.value is None or (isinstance(r.value, ast.Constant) and r.value.value is None):
                kinds.add(False)
            elif isinstance(r.value, ast.Call) and is_sub(ast.unparse(r.value.func), 'ActionCallback'):
                kinds.add(True)
            else:
                raise Untranslatable('%s.process returns something that is neither None nor a new ActionCallback' % name)
        if len(kinds) != 1:
            raise Untranslatable('%s.process: return statements disagree / missing' % name)
        rows.append((name, kinds.pop()))
    if not rows:
        raise Untranslatable('no ActionResult subclass found')
    out = ('/-- per `ActionResult` subclass: does `process` hand back a callback (work to complete later)? -/\n'
           'def resultHasCallback : String → Bool\n')
    for name, k in rows:
        out += f'  | {lean_str(name)} => {"true" if k else "false"}\n'
    out += '  | _ => false\n'
    out += ('\n/-- the `ActionResult` subclasses of the package -/\n'
            'def resultClasses : List String := [' + ', '.join(lean_str(n) for n, _ in rows) + ']\n')
    return out


def gen_attached(span, snap, log, metric):
    # span: SpanResult attached iff at least one span was created
    f = find_def(span, 'SpanActionContext._process_action')
    last = no_logging(strip_doc(f.body))[-1]
    if ast.unparse(last) != 'if len(spans) > 0:\n    self.trigger_context.attach_result(SpanResult(spans))':
        raise Untranslatable('SpanActionContext._process_action no longer attaches SpanResult(spans) when spans exist')
    attach = [n for n in ast.walk(f) if isinstance(n, ast.Call) and ast.unparse(n.func).endswith('attach_result')]
    if len(attach) != 1:
        raise Untranslatable('SpanActionContext._process_action attaches more than one result')
    # snapshot: deferred or send
    f = find_def(snap, 'SnapshotActionContext._process_action')
    last = no_logging(strip_doc(f.body))[-1]
    want = ('if self._is_deferred():\n    self.trigger_context.attach_result(DeferredSnapshotActionResult(self, snapshot))\n'
            'else:\n    self.trigger_context.attach_result(SendSnapshotActionResult(self, snapshot))')
    if ast.unparse(last) != want:
        raise Untranslatable('SnapshotActionContext._process_action no longer ends with the deferred / send choice')
    others = [ast.unparse(n.args[0].func) for n in ast.walk(f) if isinstance(n, ast.Call)
              and ast.unparse(n.func).endswith('attach_result') and isinstance(n.args[0], ast.Call)]
    if sorted(others) != ['DeferredSnapshotActionResult', 'LogActionResult', 'SendSnapshotActionResult']:
        raise Untranslatable('SnapshotActionContext._process_action attaches other results: %s' % others)
    # log: LogActionResult; metric: none
    lg = [ast.unparse(n.args[0].func) for n in ast.walk(find_def(log, 'LogActionContext')) if isinstance(n, ast.Call)
          and ast.unparse(n.func).endswith('attach_result') and isinstance(n.args[0], ast.Call)]
    if lg != ['LogActionResult']:
        raise Untranslatable('LogActionContext attaches %s' % lg)
    if any(isinstance(n, ast.Call) and ast.unparse(n.func).endswith('attach_result') for n in ast.walk(metric)):
        raise Untranslatable('the metric action attaches a result')
    return ('/-- the result class an action attaches for the completion of the event (`none` = no result): a span action\n'
            '    (when a span was created), a snapshot action by `_is_deferred()`, a log action, a metric action -/\n'
            'def attachedBySpan : String := "SpanResult"\n'
            'def attachedBySnapshot (deferred : Bool) : String :=\n'
            '  if deferred then "DeferredSnapshotActionResult" else "SendSnapshotActionResult"\n'
            'def attachedByLog : String := "LogActionResult"\n'
            'def attachedByMetric : Option String := none\n')


def gen_is_deferred(snap, consts):
    f = find_def(snap, 'SnapshotActionContext._is_deferred')
    body = strip_doc(f.body)
    if not (len(body) == 3 and ast.unparse(body[0]) == 'stage = self.location_action.config.get(STAGE, None)'
            and ast.unparse(body[1]) == 'if stage is None:\n    return False' and isinstance(body[2], ast.Return)):
        raise Untranslatable('SnapshotActionContext._is_deferred changed shape')
    env = pylean.module_constants(consts)
    e = body[2].value
    names = []
    if isinstance(e, ast.BoolOp) and isinstance(e.op, ast.Or):
        for v in e.values:
            if not (isinstance(v, ast.Compare) and len(v.ops) == 1 and isinstance(v.ops[0], ast.Eq)
                    and ast.unparse(v.left) == 'stage' and isinstance(v.comparators[0], ast.Name)):
                raise Untranslatable('_is_deferred: disjunct outside the vocabulary: ' + ast.unparse(v))
            names.append(v.comparators[0].id)
    elif isinstance(e, ast.Compare) and len(e.ops) == 1 and isinstance(e.ops[0], ast.In) \
            and ast.unparse(e.left) == 'stage' and isinstance(e.comparators[0], (ast.List, ast.Tuple)) \
            and all(isinstance(x, ast.Name) for x in e.comparators[0].elts):
        names = [x.id for x in e.comparators[0].elts]
    else:
        raise Untranslatable('_is_deferred: return expression outside the vocabulary: ' + ast.unparse(e))
    vals = []
    for n in names:
        if n not in env or not isinstance(env[n], str):
            raise Untranslatable('_is_deferred: %s is not a string constant of the constants module' % n)
        vals.append(env[n])
    if 'STAGE' not in env or not isinstance(env['STAGE'], str):
        raise Untranslatable('constant STAGE not found')
    return ('/-- the config key `_is_deferred` reads -/\n'
            f'def stageKey : String := {lean_str(env["STAGE"])}\n\n'
            '/-- the stages whose snapshot is sent by a callback -/\n'
            'def deferredStages : List String := [' + ', '.join(lean_str(v) for v in vals) + ']\n\n'
            '/-- `SnapshotActionContext._is_deferred`: `stage` = `config.get(STAGE, None)` -/\n'
            'def isDeferred (stage : Option String) : Bool :=\n'
            '  match stage with\n  | none => false\n  | some stage => deferredStages.contains stage\n')


def gen_span_callback(span):
    f = find_def(span, 'SpanActionCallback.process')
    body = no_logging(strip_doc(f.body))
    if not (len(body) == 2 and isinstance(body[0], ast.For) and ast.unparse(body[0].target) == 'span'
            and ast.unparse(body[0].iter) == 'self.__spans' and not body[0].orelse
            and ast.unparse(body[1]) == 'return False'):
        raise Untranslatable('SpanActionCallback.process is no longer one loop over its spans')
    stmts, caught = isolated_loop(body[0].body, 'SpanActionCallback.process')
    if [ast.unparse(s) for s in stmts] != ['span.close()']:
        raise Untranslatable('SpanActionCallback.process no longer calls span.close() once per span')
    if not same_shape(find_def(span, 'SpanActionCallback.__init__'), 'self.__spans = spans'):
        raise Untranslatable('SpanActionCallback.__init__ changed shape')
    if not same_shape(find_def(span, 'SpanResult.process'), 'return SpanActionCallback(self.__spans)'):
        raise Untranslatable('SpanResult.process no longer hands its spans to a SpanActionCallback')
    if not same_shape(find_def(span, 'SpanResult.__init__'), 'self.__spans = spans'):
        raise Untranslatable('SpanResult.__init__ changed shape')
    e, b = on_fail(caught)
    go, stop = 'spanCallbackProcess fails rest', '([], true)'
    e = go if e == 'GO' else stop
    b = go if b == 'GO' else stop
    return ('/-- `SpanActionCallback.process`: `fails s` = the class of the exception `s.close()` raises (`none` = it does not\n'
            '    raise).  Result: the spans whose `close` was called (in order), and whether an exception leaves `process`. -/\n'
            'def spanCallbackProcess {σ : Type} (fails : σ → Option Py.Exn) : List σ → List σ × Bool\n'
            '  | [] => ([], false)\n'
            '  | span :: rest =>\n'
            '    let r := match fails span with\n'
            '      | none => spanCallbackProcess fails rest\n'
            f'      | some Py.Exn.exc => {e}\n'
            f'      | some Py.Exn.base => {b}\n'
            '    (span :: r.1, r.2)\n')


def gen_capture(snap):
    f = find_def(snap, 'DeferredSnapshotActionCallback.process')
    if [a.arg for a in f.args.args] != ['self', 'ctx', 'event', 'frame', 'arg']:
        raise Untranslatable('DeferredSnapshotActionCallback.process signature changed')
    body = no_logging(strip_doc(f.body))
    if not (len(body) == 3 and isinstance(body[0], ast.If) and not body[0].orelse
            and [ast.unparse(s) for s in body[0].body] == [
                'watch, new_vars, _ = self.__action_context.process_capture_variable(event, arg)',
                'self.__snapshot.add_watch_result(watch)', 'self.__snapshot.merge_var_lookup(new_vars)']
            and ast.unparse(body[1]) == 'ctx.push_service.push_snapshot(self.__snapshot)'
            and ast.unparse(body[2]) == 'return False'):
        raise Untranslatable('DeferredSnapshotActionCallback.process changed shape (attach under a guard, then push once)')
    if not same_shape(find_def(snap, 'DeferredSnapshotActionResult.process'),
                      'snapshot = self._decorate_snapshot(ctx)\n'
                      'return DeferredSnapshotActionCallback(self.action_context, snapshot)'):
        raise Untranslatable('DeferredSnapshotActionResult.process changed shape')
    if not same_shape(find_def(snap, 'SendSnapshotActionResult.process'),
                      'snapshot = self._decorate_snapshot(ctx)\nctx.push_service.push_snapshot(snapshot)\nreturn None'):
        raise Untranslatable('SendSnapshotActionResult.process changed shape')
    tr = Translator()
    return ('/-- `DeferredSnapshotActionCallback.process`: is the `arg` of the completing event attached (as the watch\n'
            '    named after the event) before the snapshot is pushed?  (The push itself is unconditional, once.) -/\n'
            f'def captureAttaches (event : String) : Bool :=\n  {tr.expr(body[0].test)}\n')


def generate():
    tctx, span, snap, log, metric = load(TCTX), load(SPAN), load(SNAP), load(LOG), load(METRIC)
    consts = load(CONSTS)
    trees = [span, snap, log, metric, load(DIR + '/action_results.py')]
    parts = [header('registration and completion of deferred work (C15)', [TCTX, SPAN, SNAP, LOG, METRIC, CONSTS]),
             'set_option linter.unusedVariables false\n',
             'namespace Extracted.Deferred\n',
             gen_context_exit(tctx), gen_result_table(trees), gen_attached(span, snap, log, metric),
             gen_is_deferred(snap, consts), gen_span_callback(span), gen_capture(snap),
             'end Extracted.Deferred\n']
    return '\n'.join(parts)
