"""Extracted/Config.lean — configuration resolution (C19), regenerated from src/deep/config/__init__.py,
config_service.py, deep/__init__.py, utils.py, poll/poll.py, processor/frame_collector.py and docs/config/config.md.

Translated to Lean (harness/pylean_res.py on top of pylean):
  the module-level functions of deep.config (IN_APP_INCLUDE, IN_APP_EXCLUDE: splitting of the environment text, the
  exec-prefix entry), ConfigService.__getattribute__ STATEMENT BY STATEMENT (`getAttribute`: the try/except
  AttributeError around the object's own attribute, the custom-dict test and read, the `attr is None` fall-through to
  the deep.config module attribute (hasattr/getattr), the DEEP_<name> environment read with its two returns, the
  callable test and call, the final return — in the order and nesting the source has them),
  ConfigService.is_app_frame (exclude loop, include loop, app root, in that order, with the matched
  prefix), FrameCollector.parse_short_name.
Extracted as tables: every module-level setting of deep.config with its environment variable and default, the other
  module attribute names, the attribute names a ConfigService has of its own, the documented keys of docs/config/config.md.
Checked shapes (Untranslatable when gone; the Lean text next to each is the reading of exactly that shape):
  ConfigService.__init__ (the dict given is stored as `self.__custom`, `None` becomes `{}`), the APP_ROOT amendment of deep.start, RepeatedTimer.__init__ (whether the interval is
  coerced with float()), RepeatedTimer._time, LongPoll.start (timer built from config.POLL_TIMER).
"""
import ast
import os
import re

import pylean
from pylean import Untranslatable, load, find_def, same_shape, header, lean_str
from pylean_res import XTranslator, strip_doc

OUT = 'DeepModel/Extracted/Config.lean'
CFG = 'src/deep/config/__init__.py'
SVC = 'src/deep/config/config_service.py'
DEEP = 'src/deep/__init__.py'
UTILS = 'src/deep/utils.py'
POLL = 'src/deep/poll/poll.py'
FC = 'src/deep/processor/frame_collector.py'
DOC = 'docs/config/config.md'

INIT_TEMPLATE = '''
if custom is None:
    custom = {}
self._plugins = []
self.__custom = custom
self._resource = None
self._tracepoint_config = tracepoints
'''

START_TEMPLATE = '''
if config is None:
    config = {}
if 'APP_ROOT' not in config:
    config['APP_ROOT'] = os.getenv("DEEP_APP_ROOT", None) or os.path.dirname(
        os.path.dirname(inspect.stack()[1].filename))
from deep.config.config_service import ConfigService
cfg = ConfigService(config)
'''

MODULE_DUNDERS = ['__builtins__', '__cached__', '__doc__', '__file__', '__loader__', '__name__', '__package__', '__path__',
                  '__spec__']

LOOKUP_LEAN = '''/-- `ConfigService(custom).<name>` in an interpreter started under `env`: the translated `__getattribute__` on the
    object `ConfigService.__init__` builds (checked shape: the dict given is stored as `self.__custom`, `None`
    becomes `{}` — so `self.__custom` is never `None`). -/
def lookup (custom : List (String × CVal)) (env : Env) (execPrefix : String) (name : String) : CVal :=
  getAttribute ownStatic (some custom) env execPrefix name
'''

OWN_LEAN = '''/-- `super().__getattribute__(name)` on the object as `ConfigService.__init__` leaves it, with every property getter
    returning: `.value` (opaque) for the names the object has of its own (static table `ownNames`), AttributeError for
    every other name.  (An object whose getters fail, or with attributes set later, is another `own` function.) -/
def ownStatic (name : String) : OwnOut :=
  if ownNames.contains name then .value (.other ("own attribute " ++ name)) else .attributeError
'''

START_LEAN = '''/-- the custom dict `deep.start(config)` hands to `ConfigService` — reading of the checked shape: when the dict has
    no APP_ROOT entry one is added, `DEEP_APP_ROOT` when set and non-empty, else the calculated root `calcRoot`. -/
def startConfig (custom : List (String × CVal)) (env : Env) (calcRoot : String) : List (String × CVal) :=
  if custom.any (fun e => e.1 == "APP_ROOT") then custom
  else ("APP_ROOT", .str (match env.lookup "DEEP_APP_ROOT" with
      | some s => if s != "" then s else calcRoot
      | none => calcRoot)) :: custom
'''


def cval(v):
    if v is None:
        return 'CVal.none'
    if isinstance(v, bool):
        return f'(CVal.bool {"true" if v else "false"})'
    if isinstance(v, int):
        return f'(CVal.int ({v} : Int))'
    if isinstance(v, str):
        return f'(CVal.str {lean_str(v)})'
    if isinstance(v, list) and not v:
        return '(CVal.list [])'
    raise Untranslatable(f'module default {v!r}')


class CfgTr(XTranslator):
    """CVal-valued module functions of deep.config."""

    def e_List(self, n):
        return '(CVal.list [' + ', '.join(self.expr(e) for e in n.elts) + '])'

    def e_Compare(self, n):
        if len(n.ops) == 1 and isinstance(n.ops[0], ast.In) and isinstance(n.left, ast.Constant) \
                and isinstance(n.left.value, str) and len(n.left.value) == 1:
            return f"(CVal.strIn {lean_char(n.left.value)} {self.expr(n.comparators[0])})"
        if len(n.ops) == 1 and isinstance(n.ops[0], (ast.Is, ast.IsNot)) \
                and isinstance(n.comparators[0], ast.Constant) and n.comparators[0].value is None:
            t = f'(CVal.isNone {self.expr(n.left)})'
            return t if isinstance(n.ops[0], ast.Is) else f'(!{t})'
        return super().e_Compare(n)

    def e_Call(self, n):
        f = ast.unparse(n.func)
        if f == 'os.getenv':
            if len(n.args) != 2 or not isinstance(n.args[0], ast.Constant) or not isinstance(n.args[0].value, str) \
                    or not (isinstance(n.args[1], ast.Constant) and n.args[1].value is None):
                raise Untranslatable('os.getenv call: ' + ast.unparse(n))
            return f'(getenv env {lean_str(n.args[0].value)})'
        if isinstance(n.func, ast.Attribute) and n.func.attr == 'split' and len(n.args) == 1 \
                and isinstance(n.args[0], ast.Constant) and isinstance(n.args[0].value, str) \
                and len(n.args[0].value) == 1 and not n.keywords:
            return f'(CVal.split {lean_char(n.args[0].value)} {self.expr(n.func.value)})'
        return super().e_Call(n)


def lean_char(c):
    return "'" + ("\\'" if c == "'" else '\\\\' if c == '\\' else c) + "'"


def append_hook(tr, s, rest, k):
    if isinstance(s, ast.Expr) and isinstance(s.value, ast.Call) and isinstance(s.value.func, ast.Attribute) \
            and s.value.func.attr == 'append' and isinstance(s.value.func.value, ast.Name) and len(s.value.args) == 1:
        x = tr.names.get(s.value.func.value.id, s.value.func.value.id)
        return f'let {x} := (CVal.append {x} {tr.expr(s.value.args[0])})\n{tr.block(rest, k)}'
    return None


class GetAttrTr(CfgTr):
    """ConfigService.__getattribute__: CVal-valued, `self.__custom` is `custom : Option (List (String × CVal))`,
    the deep.config module is `moduleValue env execPrefix`, the object's own attributes are `ownAttr`."""

    def e_Call(self, n):
        f = ast.unparse(n.func)
        if f == 'os.getenv':
            # os.getenv(<text expression>, None)
            if len(n.args) != 2 or n.keywords or not (isinstance(n.args[1], ast.Constant) and n.args[1].value is None):
                raise Untranslatable('os.getenv call: ' + ast.unparse(n))
            return f'(getenv env {self.expr(n.args[0])})'
        if f in ('hasattr', 'getattr'):
            if n.keywords or not n.args or not isinstance(n.args[0], ast.Name) or n.args[0].id != self.module_name \
                    or len(n.args) < 2 or ast.unparse(n.args[1]) != 'name':
                raise Untranslatable(f'{f} call: ' + ast.unparse(n))
            if f == 'hasattr' and len(n.args) == 2:
                return '(Option.isSome (moduleValue env execPrefix name))'
            if f == 'getattr' and len(n.args) == 3:
                return f'(Option.getD (moduleValue env execPrefix name) {self.expr(n.args[2])})'
            raise Untranslatable(f'{f} call: ' + ast.unparse(n))
        if f == 'callable' and len(n.args) == 1 and not n.keywords:
            return f'(CVal.isCallable {self.expr(n.args[0])})'
        if isinstance(n.func, ast.Name) and not n.args and not n.keywords and n.func.id in self.locals_called:
            return f'(CVal.call {self.expr(n.func)})'
        return super().e_Call(n)

    def e_BinOp(self, n):
        # "<text>%s<text>" % <text expression>
        if isinstance(n.op, ast.Mod) and isinstance(n.left, ast.Constant) and isinstance(n.left.value, str) \
                and n.left.value.count('%') == 1 and n.left.value.count('%s') == 1 and not isinstance(n.right, ast.Tuple):
            pre, post = n.left.value.split('%s')
            t = self.expr(n.right)
            if pre:
                t = f'{lean_str(pre)} ++ {t}'
            if post:
                t = f'{t} ++ {lean_str(post)}'
            return f'({t})'
        return super().e_BinOp(n)


def getattr_hook(tr, s, rest, k):
    if isinstance(s, ast.Try):
        # try: x = super().__getattribute__(name)   except AttributeError: <handler>
        if (len(s.body) == 1 and isinstance(s.body[0], ast.Assign) and len(s.body[0].targets) == 1
                and isinstance(s.body[0].targets[0], ast.Name)
                and ast.unparse(s.body[0].value) == 'super().__getattribute__(name)'
                and len(s.handlers) == 1 and s.handlers[0].type is not None
                and ast.unparse(s.handlers[0].type) == 'AttributeError' and s.handlers[0].name is None
                and not s.orelse and not s.finalbody):
            x = s.body[0].targets[0].id
            after = tr.block(rest, k)
            h = tr.block(list(s.handlers[0].body), after)
            # a value: the try body completed; AttributeError: the handler; anything else propagates to the caller
            return (f'match own name with\n| .value {x} =>\n{_ind(after)}\n| .attributeError =>\n{_ind(h)}\n'
                    f'| .raises =>\n{_ind('(CVal.other "raises")')}')
        raise Untranslatable('try statement of __getattribute__: ' + ast.unparse(s)[:80])
    if isinstance(s, ast.ImportFrom):
        # from deep import config  — names the module object the hasattr/getattr calls are about
        if s.module == 'deep' and s.level == 0 and len(s.names) == 1 and s.names[0].name == 'config':
            tr.module_name = s.names[0].asname or 'config'
            return tr.block(rest, k)
        raise Untranslatable('import in __getattribute__: ' + ast.unparse(s))
    return None


def _ind(t):
    import textwrap
    return textwrap.indent(t, '  ')


def getattribute_function(fdef):
    if [a.arg for a in fdef.args.args] != ['self', 'name'] or fdef.args.vararg or fdef.args.kwarg \
            or fdef.args.kwonlyargs:
        raise Untranslatable('__getattribute__ signature')
    tr = GetAttrTr(none='CVal.none', stmt_hooks=[getattr_hook],
                   subst={'self.__custom is not None': '(Option.isSome custom)',
                          'self.__custom is None': '(Option.isNone custom)',
                          'name in self.__custom': '(dictHas custom name)',
                          'name not in self.__custom': '(!(dictHas custom name))',
                          'self.__custom[name]': '(dictGet custom name)'})
    tr.module_name = None
    # locals that are called without arguments (`attr()`): every local the body assigns
    from pylean_res import assigned_names
    tr.locals_called = set(assigned_names(strip_doc(fdef.body)))
    return ('/-- `ConfigService.__getattribute__(self, name)`, statement by statement.  `custom` = `self.__custom`\n'
            '    (`none` = Python `None`), `own` = the outcome of `super().__getattribute__` (value / AttributeError /\n'
            '    another exception, which propagates: result `CVal.other "raises"`),\n'
            '    `moduleValue env execPrefix` = the attributes of the `deep.config` module imported under `env`,\n'
            '    `getenv env` = `os.getenv`; `CVal.isCallable` / `CVal.call` = `callable(x)` / `x()`. -/\n' +
            tr.function(fdef, 'def getAttribute (own : String → OwnOut) (custom : Option (List (String × CVal))) (env : Env) '
                              '(execPrefix : String) (name : String) : CVal'))


def _is_known_env_use(tree, node):
    """is this `os.environ` node the receiver of a .get/.pop/.setdefault call or of a subscript (reported by those)?"""
    for n in ast.walk(tree):
        if isinstance(n, ast.Attribute) and n.value is node and n.attr in ('get', 'pop', 'setdefault'):
            return True
        if isinstance(n, ast.Subscript) and n.value is node:
            return True
    return False


def module_function(fdef):
    if fdef.args.args or fdef.args.kwonlyargs or fdef.args.vararg or fdef.args.kwarg:
        raise Untranslatable(f'deep.config.{fdef.name} takes arguments')
    tr = CfgTr(none='CVal.none', names={'prefix': 'prefix_'}, subst={'sys.exec_prefix': '(CVal.str execPrefix)'},
               stmt_hooks=[append_hook])
    return tr.function(fdef, f'def fn_{fdef.name} (env : Env) (execPrefix : String) : CVal')


def generate():
    cfg = load(CFG)
    svc = load(SVC)
    parts = [header('configuration resolution', [CFG, SVC, DEEP, UTILS, POLL, FC, DOC]).rstrip('\n'),
             'import DeepModel.Model.CfgBase\n', 'set_option linter.unusedVariables false\n',
             'namespace Extracted.Config\nopen Cfg\n']

    # ---- deep.config module: settings, functions, other names
    defaults, funcs, others, classes = [], [], [], []
    for n in cfg.body:
        if isinstance(n, ast.Expr) and isinstance(n.value, ast.Constant):
            continue
        if isinstance(n, ast.Import):
            others += [(a.asname or a.name).split('.')[0] for a in n.names]
        elif isinstance(n, ast.ImportFrom):
            others += [a.asname or a.name for a in n.names]
            if n.level == 1 and n.module:
                # names imported from a sibling module that are CLASSES there: callable module attributes
                try:
                    sib = load(os.path.join(os.path.dirname(CFG), n.module + '.py'))
                    for a in n.names:
                        if any(isinstance(x, ast.ClassDef) and x.name == a.name for x in sib.body):
                            classes.append(a.asname or a.name)
                except OSError:
                    pass
            if n.level == 1 and n.module:
                others.append(n.module)
        elif isinstance(n, ast.Assign) and len(n.targets) == 1 and isinstance(n.targets[0], ast.Name):
            name, v = n.targets[0].id, n.value
            if isinstance(v, ast.Call) and ast.unparse(v.func) == 'os.getenv' and len(v.args) == 2 \
                    and isinstance(v.args[0], ast.Constant) and isinstance(v.args[1], ast.Constant) and not v.keywords:
                defaults.append((name, v.args[0].value, v.args[1].value))
            elif isinstance(v, ast.Constant) or (isinstance(v, ast.List) and not v.elts):
                defaults.append((name, None, v.value if isinstance(v, ast.Constant) else []))
            else:
                raise Untranslatable(f'deep.config.{name} = {ast.unparse(v)}')
        elif isinstance(n, ast.FunctionDef):
            funcs.append(n)
        else:
            raise Untranslatable('deep.config module statement: ' + ast.unparse(n)[:60])
    for f in funcs:
        parts.append(module_function(f))
    parts.append('/-- (setting, environment variable read at import, default) for every plain module-level setting -/\n'
                 'def moduleDefaults : List (String × Option String × CVal) :=\n  [' + ',\n   '.join(
                     f'({lean_str(n)}, {"none" if e is None else "some " + lean_str(e)}, {cval(d)})'
                     for n, e, d in defaults) + ']\n')
    parts.append('def moduleFunctions : List (String × (Env → String → CVal)) :=\n  [' + ', '.join(
        f'({lean_str(f.name)}, fn_{f.name})' for f in funcs) + ']\n')
    parts.append('/-- other attributes of the module object (imports, sub-modules) -/\n'
                 'def moduleOtherNames : List String := [' + ', '.join(lean_str(o) for o in sorted(set(
                     others + ['config_service', 'tracepoint_config'] + MODULE_DUNDERS))) + ']\n')
    parts.append('/-- module attributes that are classes (callable: `__getattribute__` CALLS them and hands out the instance) -/\n'
                 'def moduleClassNames : List String := [' + ', '.join(lean_str(c) for c in sorted(set(classes))) + ']\n')
    parts.append('''/-- `getattr(deep.config, name)` in an interpreter started under `env` (`none` = no such attribute) -/
def moduleValue (env : Env) (execPrefix : String) (name : String) : Option CVal :=
  match moduleDefaults.find? (fun d => d.1 == name) with
  | some (_, some ev, dflt) => some (match env.lookup ev with
      | some s => .str s
      | none => dflt)
  | some (_, none, dflt) => some dflt
  | none =>
    match moduleFunctions.find? (fun f => f.1 == name) with
    | some (_, f) => some (.callable (f env execPrefix))
    | none =>
      if moduleClassNames.contains name then some (.callable (.other ("instance of " ++ name)))
      else if moduleOtherNames.contains name then some (.other ("module attribute " ++ name)) else none
''')

    # ---- ConfigService: own names, __init__, __getattribute__
    cls = find_def(svc, 'ConfigService')
    own = []
    for n in cls.body:
        if isinstance(n, ast.FunctionDef):
            own.append('_ConfigService' + n.name if n.name.startswith('__') and not n.name.endswith('__') else n.name)
    init = find_def(svc, 'ConfigService.__init__')
    if not same_shape(init, INIT_TEMPLATE):
        raise Untranslatable('ConfigService.__init__ changed shape')
    for s in strip_doc(init.body):
        if isinstance(s, ast.Assign) and isinstance(s.targets[0], ast.Attribute):
            a = s.targets[0].attr
            own.append('_ConfigService' + a if a.startswith('__') else a)
    ga = find_def(svc, 'ConfigService.__getattribute__')
    if not same_shape(find_def(svc, 'ConfigService.__setattr__'), 'super().__setattr__(name, value)'):
        raise Untranslatable('ConfigService.__setattr__ changed shape')
    # what every object / class instance has besides (C19-2: the lookup chain is only reached for other names)
    own += sorted(set(dir(object)) | {'__dict__', '__module__', '__weakref__', '__doc__', '__annotations__'})
    parts.append('/-- attribute names a ConfigService object has of its own (methods, properties, instance attributes) -/\n'
                 'def ownNames : List String := [' + ', '.join(lean_str(o) for o in sorted(set(own))) + ']\n')
    parts.append(OWN_LEAN)
    parts.append(getattribute_function(ga))
    parts.append(LOOKUP_LEAN)

    # ---- is_app_frame
    iaf = find_def(svc, 'ConfigService.is_app_frame')
    tr = XTranslator(subst={'self.IN_APP_INCLUDE': 'cfgInclude', 'self.IN_APP_EXCLUDE': 'cfgExclude',
                            'self.APP_ROOT': 'cfgRoot'})

    def ret(e, node):
        if isinstance(node, ast.Tuple) and len(node.elts) == 2:
            second = node.elts[1]
            opt = 'none' if (isinstance(second, ast.Constant) and second.value is None) \
                else f'some {tr.expr(second)}'
            return f'({tr.expr(node.elts[0])}, {opt})'
        raise Untranslatable('is_app_frame returns ' + ast.unparse(node))
    tr.ret = ret
    parts.append(tr.function(iaf, 'def isAppFrame (cfgInclude cfgExclude : List String) (cfgRoot : String) '
                                  '(filename : String) : Bool × Option String'))

    # ---- parse_short_name
    psn = find_def(load(FC), 'FrameCollector.parse_short_name')
    tr2 = XTranslator(names={'match': 'matched'}, types={'match': 'Option String'},
                      calls={'self.__source.is_app_frame': lambda a: f'(appFrame {a[0]})'})
    parts.append(tr2.function(psn, 'def parseShortName (appFrame : String → Bool × Option String) '
                                   '(filename : String) : String × Bool'))

    # ---- the route a collected frame takes: FrameCollector asks its source, the snapshot action context asks the
    #      configuration of its trigger — nothing in between (no memo, no second rule set)
    sa = load('src/deep/processor/context/snapshot_action.py')
    if not same_shape(find_def(sa, 'SnapshotActionContext.is_app_frame'),
                      'return self.trigger_context.config.is_app_frame(filename)'):
        raise Untranslatable('SnapshotActionContext.is_app_frame no longer just asks the trigger\'s configuration')
    # the route as it is WRITTEN in the source now (a real value: the theorem compares it with the expected chain)
    route = []
    psn_src = find_def(load(FC), 'FrameCollector.parse_short_name')
    for n in ast.walk(psn_src):
        if isinstance(n, ast.Call) and isinstance(n.func, ast.Attribute) and n.func.attr == 'is_app_frame':
            route.append('FrameCollector.parse_short_name: ' + ast.unparse(n))
    fci = find_def(load(FC), 'FrameCollector.__init__')
    route += ['FrameCollector.__init__: ' + ast.unparse(x) for x in strip_doc(fci.body)
              if isinstance(x, ast.Assign) and 'source' in ast.unparse(x)]
    for fn in ast.walk(sa):
        if isinstance(fn, ast.FunctionDef):
            for n in ast.walk(fn):
                if isinstance(n, ast.Call) and ast.unparse(n.func) == 'FrameCollector':
                    route.append(f'SnapshotActionContext.{fn.name}: ' + ast.unparse(n))
    route += ['SnapshotActionContext.is_app_frame: ' + ast.unparse(x)
              for x in strip_doc(find_def(sa, 'SnapshotActionContext.is_app_frame').body)]
    tc = load('src/deep/processor/context/trigger_context.py')
    route += ['TriggerContext.config: ' + ast.unparse(x) for x in strip_doc(find_def(tc, 'TriggerContext.config').body)]
    tci = find_def(tc, 'TriggerContext.__init__')
    route += ['TriggerContext.__init__: ' + ast.unparse(x) for x in strip_doc(tci.body)
              if isinstance(x, ast.Assign) and ast.unparse(x.targets[0]) == 'self.__config']
    parts.append('/-- the route a collected frame takes to the include/exclude/root rules, AS WRITTEN in the source now (every\n'
                 '    call of `is_app_frame` in parse_short_name, what FrameCollector keeps as its source, every construction\n'
                 '    of a FrameCollector in snapshot_action.py, the body of SnapshotActionContext.is_app_frame, the\n'
                 '    TriggerContext.config getter and what __init__ stores there) -/\n'
                 'def frameRoute : List String :=\n  [' + ',\n   '.join(lean_str(r) for r in route) + ']\n')

    # ---- every read of the process environment under src/deep (a consumer that reads DEEP_<KEY> itself bypasses the chain)
    reads = []
    root = os.path.join(pylean.REPO, 'src/deep')
    for dp, dn, fns in sorted(os.walk(root)):
        dn.sort()
        for fn in sorted(fns):
            if not fn.endswith('.py'):
                continue
            rel = os.path.relpath(os.path.join(dp, fn), os.path.join(pylean.REPO, 'src'))
            try:
                tree = ast.parse(open(os.path.join(dp, fn), encoding='utf-8').read())
            except SyntaxError as e:
                raise Untranslatable(f'{rel}: {e}')
            for n in ast.walk(tree):
                t = None
                if isinstance(n, ast.Call) and ast.unparse(n.func) in ('os.getenv', 'getenv', 'os.environ.get', 'environ.get',
                                                                        'os.environ.pop', 'os.environ.setdefault'):
                    t = ast.unparse(n.args[0]) if n.args else ''
                elif isinstance(n, ast.Subscript) and ast.unparse(n.value) in ('os.environ', 'environ'):
                    t = ast.unparse(n.slice)
                elif isinstance(n, (ast.Attribute, ast.Name)) and ast.unparse(n) in ('os.environ', 'os.environb') \
                        and not _is_known_env_use(tree, n):
                    t = '<whole environment>'
                if t is not None:
                    reads.append((rel, t))
    reads = sorted(set(reads))
    parts.append('/-- every place under src/deep that reads the process environment: (file, what is read) — found by scanning ALL\n'
                 '    files on every run (os.getenv / os.environ.get / os.environ[...] / any other use of os.environ) -/\n'
                 'def envReadSites : List (String × String) :=\n  [' + ',\n   '.join(
                     f'({lean_str(a)}, {lean_str(b)})' for a, b in reads) + ']\n')

    # ---- deep.start
    st = find_def(load(DEEP), 'start')
    body = strip_doc(st.body)
    want = [ast.dump(x) for x in ast.parse(START_TEMPLATE.strip()).body]
    if [ast.dump(x) for x in body[:len(want)]] != want:
        raise Untranslatable('APP_ROOT amendment of deep.start changed shape')
    parts.append(START_LEAN)

    # ---- poll timer
    ut = load(UTILS)
    ti = find_def(ut, 'RepeatedTimer.__init__')
    iv = [s for s in strip_doc(ti.body) if isinstance(s, ast.Assign) and ast.unparse(s.targets[0]) == 'self.interval']
    if len(iv) != 1:
        raise Untranslatable('RepeatedTimer.__init__ no longer stores self.interval once')
    src = ast.unparse(iv[0].value)
    if src == 'float(interval)':
        coerces = 'true'
    elif src == 'interval':
        coerces = 'false'
    else:
        raise Untranslatable('RepeatedTimer interval is ' + src)
    if not same_shape(find_def(ut, 'RepeatedTimer._time'),
                      'return self.interval - ((time.time() - self.start_ts) % self.interval)'):
        raise Untranslatable('RepeatedTimer._time changed shape')
    ls = find_def(load(POLL), 'LongPoll.start')
    if 'self.timer = RepeatedTimer(\'Tracepoint Long Poll\', self.config.POLL_TIMER, self.poll)' \
            not in [ast.unparse(s) for s in strip_doc(ls.body)]:
        raise Untranslatable('LongPoll.start no longer builds its timer from config.POLL_TIMER')
    parts.append('/-- does RepeatedTimer coerce its interval with float()? (text from the environment otherwise reaches\n'
                 '    the arithmetic of `_time` and kills the timer thread with a TypeError) -/\n'
                 f'def timerCoercesWithFloat : Bool := {coerces}\n')

    # ---- str2bool and its two use sites
    sb = find_def(ut, 'str2bool')
    rets = [x for x in strip_doc(sb.body) if isinstance(x, ast.Return)]
    if len(rets) != 1 or not isinstance(rets[0].value, ast.Compare) or len(rets[0].value.ops) != 1 \
            or not isinstance(rets[0].value.ops[0], ast.In) or not isinstance(rets[0].value.comparators[0], ast.Tuple):
        raise Untranslatable('str2bool changed shape')
    left = ast.unparse(rets[0].value.left)
    if left == 'str(string).lower()':
        sbc = 'true'
    elif left == 'string.lower()':
        sbc = 'false'
    else:
        raise Untranslatable('str2bool tests ' + left)
    truthy = [e.value for e in rets[0].value.comparators[0].elts
              if isinstance(e, ast.Constant) and isinstance(e.value, str)]
    if len(truthy) != len(rets[0].value.comparators[0].elts):
        raise Untranslatable('str2bool truthy texts')
    gs = load('src/deep/grpc/grpc_service.py')
    gi = [ast.unparse(x) for x in strip_doc(find_def(gs, 'GRPCService.__init__').body)]
    gst = strip_doc(find_def(gs, 'GRPCService.start').body)
    if 'self._secure = config.SERVICE_SECURE' not in gi or not gst or not isinstance(gst[0], ast.If) \
            or ast.unparse(gst[0].test) != 'str2bool(self._secure)':
        raise Untranslatable('GRPCService no longer decides with str2bool(config.SERVICE_SECURE)')
    pl = load('src/deep/api/plugin/__init__.py')
    if not same_shape(find_def(pl, 'Plugin.is_active'),
                      "attr = getattr(self.config, f'plugin_{self.name}'.upper(), 'True')\n"
                      "if attr is None:\n    return True\nreturn str2bool(attr)"):
        raise Untranslatable('Plugin.is_active changed shape')
    parts.append('/-- the texts `str2bool` reads as true (after lower-casing) -/\n'
                 'def truthyTexts : List String := [' + ', '.join(lean_str(t) for t in truthy) + ']\n')
    parts.append('/-- does str2bool convert its argument with str() first? (otherwise a bool/number given in code raises\n'
                 '    AttributeError at the use sites GRPCService.start and Plugin.is_active) -/\n'
                 f'def str2boolCoercesWithStr : Bool := {sbc}\n')

    # ---- documented keys
    doc = open(os.path.join(pylean.REPO, DOC), encoding='utf-8').read()
    keys = re.findall(r'^\|\s*([A-Z][A-Z0-9_]+)\s*\|', doc, flags=re.M)
    if not keys:
        raise Untranslatable('no documented keys found in ' + DOC)
    known = {n for n, _, _ in defaults} | {f.name for f in funcs}
    for k in keys:
        if k not in known:
            raise Untranslatable(f'documented key {k} has no module-level setting')
    parts.append('def documentedKeys : List String := [' + ', '.join(lean_str(k) for k in keys) + ']\n')
    parts.append('end Extracted.Config\n')
    return '\n'.join(parts)
