"""Extracted/TriggerTable.lean — how a tracepoint's arguments become a Trigger (C11), regenerated from
src/deep/api/tracepoint/trigger.py, constants.py, tracepoint_config.py and src/deep/grpc/__init__.py.

What is produced
  * every constant of constants.py as a Lean `def` (+ `allConstants`, the name/value table);
  * the enums `LocationAction.ActionType`, `Location.Position` and the value classes `LocationAction`,
    `LineLocation`/`FunctionLocation` (one inductive `Location`), `Trigger`, `LabelExpression`, `MetricDefinition`
    as Lean types whose fields are read from the `__init__` signatures and `self.x = param` assignments;
  * `Location.Position.from_stage`, `build_snapshot_action`, `build_log_action`, `build_metric_action`,
    `build_span_action`, `build_trigger` TRANSLATED statement by statement (TriggerTranslator below);
  * `convert_label_expressions`, `__convert_metric_definition` translated (positional constructor arguments are
    bound to fields through the `__init__` signature), `MetricType` names read from the installed deepproto;
  * location ids (`LineLocation.id`, `FunctionLocation.id`, `Trigger.id`, `Trigger.merge_actions`) and
    `convert_response` are matched against exact source templates; `convertResponseSkipsNone` etc. record what the
    template says.  Anything else raises Untranslatable (= broken tie, reported by the check).

TriggerTranslator extends pylean.Translator (own file, pylean.py is shared) with:
  `k in args` / `k not in args`, `args[k]` (only where a dominating `k in args` test is syntactically known —
  otherwise a KeyError would be possible and the translation refuses), `args.get(k, None)` / `args.get(k, d)`,
  dict displays -> association lists of `CfgVal`, constructor calls -> Lean structure values, `a if c else None`,
  `[x for x in [..] if x is not None]`, `if c: x = e` (no else) -> `let x := if c then e else x`.
"""
import ast
import textwrap

from pylean import (Translator, Untranslatable, load, find_def, same_shape, header, lean_str, module_constants,
                    lean_const, lean_const_type)

OUT = 'DeepModel/Extracted/TriggerTable.lean'
TRIGGER = 'src/deep/api/tracepoint/trigger.py'
CONSTS = 'src/deep/api/tracepoint/constants.py'
TPCFG = 'src/deep/api/tracepoint/tracepoint_config.py'
GRPC = 'src/deep/grpc/__init__.py'
CFGSVC = 'src/deep/config/tracepoint_config.py'

# Lean types of constructor parameters (by parameter name). An unknown parameter = the class changed.
PARAM_TYPES = {
    'LocationAction': {'tp_id': 'String', 'condition': 'Option String', 'config': 'List (String × CfgVal)',
                       'action_type': 'ActionType'},
    'LineLocation': {'path': 'String', 'line': 'Int', 'position': 'Position'},
    'FunctionLocation': {'path': 'String', 'function_name': 'Option String', 'position': 'Position'},
    'Trigger': {'location': 'Location', 'actions': 'List LocationAction'},
    'LabelExpression': {'key': 'String', 'static': 'Option StaticVal', 'expression': 'String'},
    'MetricDefinition': {'name': 'String', 'metric_type': 'String', 'labels': 'List LabelExpression',
                         'expression': 'String', 'namespace': 'String', 'help_str': 'String', 'unit': 'String'},
}

ID_LINE = "return '%s#%s' % (self.path, self.line)"
ID_FUNC = "return '%s#%s' % (self.path, self.__function_name)"
CONVERT_RESPONSE = '''
all_triggers: Dict[str, Trigger] = {}
for r in response:
    trigger = build_trigger(r.ID, r.path, r.line_number, dict(r.args), [w for w in r.watches], __convert_metric_definition(r.metrics))
    if trigger is None:
        continue
    location_id = trigger.id
    if location_id in all_triggers:
        all_triggers[location_id].merge_actions(trigger.actions)
    else:
        all_triggers[location_id] = trigger
return list(all_triggers.values())
'''
STATIC_VALUE = '''
static_value = value.static
set_field = static_value.WhichOneof('value')
if set_field is None:
    return None
return getattr(static_value, set_field)
'''


LEAN_KEYWORDS = {'namespace', 'end', 'from', 'at', 'then', 'else', 'if', 'do', 'in', 'fun', 'let', 'have', 'show',
                 'section', 'open', 'import', 'where', 'with', 'match', 'instance', 'structure', 'class', 'def'}


def lean_ident(n):
    return f'«{n}»' if n in LEAN_KEYWORDS else n


def strip_doc(body):
    if body and isinstance(body[0], ast.Expr) and isinstance(body[0].value, ast.Constant) \
            and isinstance(body[0].value.value, str):
        return body[1:]
    return body


def ctor_fields(tree, cls):
    """(param order, {param: field name}) of `cls.__init__`: each parameter must be stored by `self.<attr> = param`
    (or handed to `super().__init__`, which stores `position`)."""
    init = find_def(tree, cls + '.__init__')
    params = [a.arg for a in init.args.args[1:]]
    fields = {}
    for s in strip_doc(list(init.body)):
        if isinstance(s, (ast.Assign, ast.AnnAssign)):
            tgt = s.targets[0] if isinstance(s, ast.Assign) else s.target
            if isinstance(tgt, ast.Attribute) and ast.unparse(tgt.value) == 'self' \
                    and isinstance(s.value, ast.Name) and s.value.id in params:
                fields[s.value.id] = lean_ident(tgt.attr.lstrip('_'))
        elif isinstance(s, ast.Expr) and isinstance(s.value, ast.Call) \
                and ast.unparse(s.value.func) == 'super().__init__':
            for a in s.value.args:
                if isinstance(a, ast.Name) and a.id in params:
                    fields[a.id] = a.id
    return params, fields


def enum_members(tree, qual):
    cls = find_def(tree, qual)
    out = []
    for s in cls.body:
        if isinstance(s, ast.Assign) and len(s.targets) == 1 and isinstance(s.targets[0], ast.Name) \
                and isinstance(s.value, ast.Constant) and isinstance(s.value.value, int):
            out.append(s.targets[0].id)
    if not out:
        raise Untranslatable(f'enum {qual} has no members')
    return out


def always_returns(stmts):
    if not stmts:
        return False
    last = stmts[-1]
    if isinstance(last, ast.Return):
        return True
    if isinstance(last, ast.If):
        return always_returns(last.body) and always_returns(last.orelse)
    return False


class TriggerTranslator(Translator):
    """see module docstring. `ctors`: class name -> (params, fields, lean constructor text fn)."""

    def __init__(self, ctors, args_name='args', optional_return=False, **kw):
        super().__init__(**kw)
        self.ctors = ctors
        self.args_name = args_name
        self.known = frozenset()          # keys of `args` known to be present at this program point
        self.optional_return = optional_return
        if optional_return:
            self.ret = self._ret_opt

    def _ret_opt(self, e, node):
        if node is None or (isinstance(node, ast.Constant) and node.value is None):
            return 'none'
        return f'some {e}'

    # ---- facts about `k in args` ---------------------------------------------------------------
    def _is_args(self, n):
        return isinstance(n, ast.Name) and n.id == self.args_name

    def facts(self, test, truth):
        """keys known present when `test` evaluates to `truth`."""
        if isinstance(test, ast.Compare) and len(test.ops) == 1 and self._is_args(test.comparators[0]):
            if isinstance(test.ops[0], ast.In) and truth:
                return {ast.unparse(test.left)}
            if isinstance(test.ops[0], ast.NotIn) and not truth:
                return {ast.unparse(test.left)}
            return set()
        if isinstance(test, ast.UnaryOp) and isinstance(test.op, ast.Not):
            return self.facts(test.operand, not truth)
        if isinstance(test, ast.BoolOp):
            if (isinstance(test.op, ast.And) and truth) or (isinstance(test.op, ast.Or) and not truth):
                out = set()
                for v in test.values:
                    out |= self.facts(v, truth)
                return out
        return set()

    def under(self, extra, fn):
        old = self.known
        self.known = frozenset(old | set(extra))
        try:
            return fn()
        finally:
            self.known = old

    # ---- expressions ------------------------------------------------------------------------------
    def e_Compare(self, n):
        if len(n.ops) == 1 and self._is_args(n.comparators[0]):
            k = self.expr(n.left)
            if isinstance(n.ops[0], ast.In):
                return f'(Args.has {self.args_name} {k})'
            if isinstance(n.ops[0], ast.NotIn):
                return f'(!(Args.has {self.args_name} {k}))'
        if len(n.ops) == 1 and isinstance(n.comparators[0], ast.Constant) and n.comparators[0].value is None:
            if isinstance(n.ops[0], ast.Is):
                return f'(Option.isNone {self.expr(n.left)})'
            if isinstance(n.ops[0], ast.IsNot):
                return f'(Option.isSome {self.expr(n.left)})'
        return super().e_Compare(n)

    def e_BoolOp(self, n):
        # left to right; later operands are translated knowing what the earlier ones established
        is_and = isinstance(n.op, ast.And)
        parts = []
        learned = set()
        for v in n.values:
            parts.append(self.under(learned, lambda v=v: self.expr(v)))
            learned |= self.facts(v, is_and)
        return '(' + (' && ' if is_and else ' || ').join(parts) + ')'

    def e_Subscript(self, n):
        if self._is_args(n.value):
            key = ast.unparse(n.slice)
            if key not in self.known:
                raise Untranslatable(f'{ast.unparse(n)} is not dominated by a `{key} in {self.args_name}` test '
                                     f'(KeyError possible)')
            return f'(Args.idx {self.args_name} {self.expr(n.slice)})'
        return super().e_Subscript(n)

    def e_IfExp(self, n):
        c = self.expr(n.test)
        a = self.under(self.facts(n.test, True), lambda: self.expr(n.body))
        if isinstance(n.orelse, ast.Constant) and n.orelse.value is None:
            return f'(if {c} then some {a} else none)'
        b = self.under(self.facts(n.test, False), lambda: self.expr(n.orelse))
        return f'(if {c} then {a} else {b})'

    def e_Dict(self, n):
        items = []
        for k, v in zip(n.keys, n.values):
            if k is None:
                raise Untranslatable('dict unpacking in a config display')
            items.append(f'({self.expr(k)}, {self.cfg_value(v)})')
        return '[' + ',\n   '.join(items) + ']'

    def cfg_value(self, v):
        """a value stored in an action config: text, optional text, the watch list or the metric list."""
        if isinstance(v, ast.Name) and v.id == 'watches':
            return 'CfgVal.strs watches'
        if isinstance(v, ast.Name) and v.id == 'metrics':
            return 'CfgVal.metrics metrics'
        if isinstance(v, ast.Call) and ast.unparse(v.func) == f'{self.args_name}.get' and len(v.args) == 2 \
                and isinstance(v.args[1], ast.Constant) and v.args[1].value is None:
            return f'CfgVal.ofOpt {self.expr(v)}'
        if isinstance(v, ast.Constant) and v.value is None:
            return 'CfgVal.none'
        if isinstance(v, (ast.Call, ast.Subscript, ast.Name, ast.Constant)):
            return f'CfgVal.str {self.expr(v)}'
        raise Untranslatable(f'config value {ast.unparse(v)}')

    def e_ListComp(self, n):
        # [x for x in [a, b, ...] if x is not None]
        if len(n.generators) == 1:
            g = n.generators[0]
            if isinstance(n.elt, ast.Name) and isinstance(g.target, ast.Name) and n.elt.id == g.target.id \
                    and len(g.ifs) == 1 and ast.unparse(g.ifs[0]) == f'{g.target.id} is not None' \
                    and isinstance(g.iter, ast.List):
                return f'(List.filterMap id {self.expr(g.iter)})'
        raise Untranslatable(f'list comprehension {ast.unparse(n)}')

    def e_Attribute(self, n):
        # enum members: LocationAction.ActionType.X, Location.Position.X
        text = ast.unparse(n)
        for prefix, lean in (('LocationAction.ActionType.', 'ActionType.'), ('Location.Position.', 'Position.')):
            if text.startswith(prefix):
                return lean + text[len(prefix):]
        return super().e_Attribute(n)

    def e_Call(self, n):
        f = ast.unparse(n.func)
        if f == f'{self.args_name}.get' and len(n.args) == 2:
            k = self.expr(n.args[0])
            if isinstance(n.args[1], ast.Constant) and n.args[1].value is None:
                return f'(Args.get? {self.args_name} {k})'
            return f'(Args.getD {self.args_name} {k} {self.expr(n.args[1])})'
        if f in self.ctors:
            params, fields, build = self.ctors[f]
            if n.keywords or len(n.args) != len(params):
                raise Untranslatable(f'constructor call {ast.unparse(n)[:80]}')
            return build([self.expr(a) for a in n.args])
        if f == 'len' and len(n.args) == 1:
            return f'(Int.ofNat (List.length {self.expr(n.args[0])}))'
        return super().e_Call(n)

    # ---- statements --------------------------------------------------------------------------------
    def block(self, stmts, k):
        if not stmts:
            return super().block(stmts, k)
        s, rest = stmts[0], stmts[1:]
        if isinstance(s, ast.If):
            t, f = self.facts(s.test, True), self.facts(s.test, False)
            test = self.expr(s.test)
            # `if c: x = e` (no else, body only assigns locals)  ==>  let x := if c then e else x
            if not s.orelse and s.body and all(isinstance(b, ast.Assign) and len(b.targets) == 1
                                               and isinstance(b.targets[0], ast.Name) for b in s.body):
                lets = []
                for b in s.body:
                    x = self.names.get(b.targets[0].id, b.targets[0].id)
                    e = self.under(t, lambda b=b: self.expr(b.value))
                    lets.append(f'let {x} := if {test} then {e} else {x}')
                return '\n'.join(lets) + '\n' + self.block(rest, k)
            extra = set()
            if always_returns(s.body):
                extra = f
            elif s.orelse and always_returns(s.orelse):
                extra = t
            after = self.under(extra, lambda: self.block(rest, k)) if (rest or k is not None) else None
            a = self.under(t, lambda: self.block(s.body, after))
            b = self.under(f, lambda: self.block(s.orelse, after))
            return f'if {test} then\n{textwrap.indent(a, "  ")}\nelse\n{textwrap.indent(b, "  ")}'
        return super().block(stmts, k)


def struct_decl(name, params, fields, types):
    lines = [f'structure {name} where']
    for p in params:
        if p not in types:
            raise Untranslatable(f'{name}.__init__ has an unknown parameter `{p}`')
        if p not in fields:
            raise Untranslatable(f'{name}.__init__ does not store parameter `{p}`')
        lines.append(f'  {fields[p]} : {types[p]}')
    lines.append('deriving Repr, DecidableEq\n')
    return '\n'.join(lines)


def generate():
    trig = load(TRIGGER)
    tpc = load(TPCFG)
    grpc = load(GRPC)
    ctree = load(CONSTS)
    consts = module_constants(ctree)
    parts = [header('tracepoint args -> Trigger table (C11)', [TRIGGER, CONSTS, TPCFG, GRPC, CFGSVC]),
             'namespace Extracted.TriggerTable\n']

    # ---- constants (all of them, in source order; lists refer to the names they are built from) ------------
    names = []
    for n in ctree.body:
        if isinstance(n, ast.Assign) and len(n.targets) == 1 and isinstance(n.targets[0], ast.Name):
            nm = n.targets[0].id
            if nm not in consts:
                raise Untranslatable(f'constant {nm} is not a literal')
            v = consts[nm]
            if isinstance(n.value, ast.List) and all(isinstance(e, ast.Name) for e in n.value.elts):
                rhs = '[' + ', '.join(e.id for e in n.value.elts) + ']'
            else:
                rhs = lean_const(v)
            parts.append(f'def {nm} : {lean_const_type(v)} := {rhs}')
            names.append(nm)
    parts.append('\n/-- name/value table of the text constants, for `decide`d obligations -/')
    parts.append('def allConstants : List (String × String) :=\n  [' + ',\n   '.join(
        f'({lean_str(nm)}, {nm})' for nm in names if isinstance(consts[nm], str)) + ']\n')

    # ---- argument map ---------------------------------------------------------------------------------------
    parts.append(textwrap.dedent('''\
        /-- tracepoint args: `map<string,string>` / `Dict[str, str]` as an association list (first binding wins,
            as a dict built from unique keys). -/
        abbrev Args := List (String × String)
        /-- `k in args` -/
        def Args.has (a : Args) (k : String) : Bool := (a.lookup k).isSome
        /-- `args.get(k, None)` -/
        def Args.get? (a : Args) (k : String) : Option String := a.lookup k
        /-- `args.get(k, d)` -/
        def Args.getD (a : Args) (k d : String) : String := (a.lookup k).getD d
        /-- `args[k]` — every translated use is dominated by a `k in args` test (checked by the extractor), so the
            `""` of the absent case is unreachable. -/
        def Args.idx (a : Args) (k : String) : String := (a.lookup k).getD ""
        '''))

    # ---- enums and value classes -----------------------------------------------------------------------------
    at = enum_members(trig, 'LocationAction.ActionType')
    pos = enum_members(trig, 'Location.Position')
    parts.append('inductive ActionType where\n' + '\n'.join(f'  | {m}' for m in at) + '\nderiving Repr, DecidableEq\n')
    parts.append('inductive Position where\n' + '\n'.join(f'  | {m}' for m in pos) + '\nderiving Repr, DecidableEq\n')
    parts.append(textwrap.dedent('''\
        /-- the value of a static metric label: what `getattr(AnyValue, WhichOneof("value"))` returns -/
        inductive StaticVal where
          | str (s : String) | bool (b : Bool) | int (i : Int) | dbl (bits : Nat) | bytes (b : List Nat)
          | msg (repr : String)
        deriving Repr, DecidableEq
        '''))
    decls = {}
    for cls, tree in (('LabelExpression', tpc), ('MetricDefinition', tpc), ('LocationAction', trig),
                      ('LineLocation', trig), ('FunctionLocation', trig), ('Trigger', trig)):
        params, fields = ctor_fields(tree, cls)
        if set(params) != set(PARAM_TYPES[cls]):
            raise Untranslatable(f'{cls}.__init__ parameters changed: {params}')
        missing = [p for p in params if p not in fields]
        if missing:
            raise Untranslatable(f'{cls}.__init__ does not store {missing}')
        decls[cls] = (params, fields)
    parts.append(struct_decl('LabelExpression', *decls['LabelExpression'], PARAM_TYPES['LabelExpression']))
    parts.append(struct_decl('MetricDefinition', *decls['MetricDefinition'], PARAM_TYPES['MetricDefinition']))
    parts.append(textwrap.dedent('''\
        /-- a value stored in an action's config dict -/
        inductive CfgVal where
          | str (s : String) | none | strs (ws : List String) | metrics (ms : List MetricDefinition)
        deriving Repr, DecidableEq
        def CfgVal.ofOpt : Option String → CfgVal
          | some s => .str s
          | .none => .none
        '''))
    parts.append(struct_decl('LocationAction', *decls['LocationAction'], PARAM_TYPES['LocationAction']))
    loc = ['inductive Location where']
    for cls in ('LineLocation', 'FunctionLocation'):
        params, fields = decls[cls]
        loc.append(f'  | {cls} ' + ' '.join(f'({fields[p]} : {PARAM_TYPES[cls][p]})' for p in params))
    loc.append('deriving Repr, DecidableEq\n')
    parts.append('\n'.join(loc))
    parts.append(struct_decl('Trigger', *decls['Trigger'], PARAM_TYPES['Trigger']))

    def struct_builder(cls):
        params, fields = decls[cls]
        return lambda a: '({ ' + ', '.join(f'{fields[p]} := {v}' for p, v in zip(params, a)) + f' }} : {cls})'

    def loc_builder(cls):
        return lambda a: f'(Location.{cls} ' + ' '.join(a) + ')'
    ctors = {
        'LocationAction': decls['LocationAction'] + (struct_builder('LocationAction'),),
        'Trigger': decls['Trigger'] + (struct_builder('Trigger'),),
        'LabelExpression': decls['LabelExpression'] + (struct_builder('LabelExpression'),),
        'MetricDefinition': decls['MetricDefinition'] + (struct_builder('MetricDefinition'),),
        'LineLocation': decls['LineLocation'] + (loc_builder('LineLocation'),),
        'FunctionLocation': decls['FunctionLocation'] + (loc_builder('FunctionLocation'),),
    }

    # ---- location ids (exact templates) -----------------------------------------------------------------------
    if not same_shape(find_def(trig, 'LineLocation.id'), ID_LINE):
        raise Untranslatable('LineLocation.id changed shape')
    if not same_shape(find_def(trig, 'FunctionLocation.id'), ID_FUNC):
        raise Untranslatable('FunctionLocation.id changed shape')
    for prop, attr in (('path', '__path'), ('line', '__line')):
        if not same_shape(find_def(trig, 'LineLocation.' + prop), f'return self.{attr}'):
            raise Untranslatable(f'LineLocation.{prop} is no longer a plain getter')
    if not same_shape(find_def(trig, 'FunctionLocation.path'), 'return self.__path'):
        raise Untranslatable('FunctionLocation.path is no longer a plain getter')
    if not same_shape(find_def(trig, 'Trigger.id'), 'return self.__location.id'):
        raise Untranslatable('Trigger.id changed shape')
    if not same_shape(find_def(trig, 'Trigger.merge_actions'), 'self.__actions += actions'):
        raise Untranslatable('Trigger.merge_actions changed shape')
    lf, ff = decls['LineLocation'][1], decls['FunctionLocation'][1]
    parts.append(textwrap.dedent(f'''\
        /-- `"%s#%s" % (path, line)` / `"%s#%s" % (path, function_name)` (`None` prints as `None`) -/
        def Location.id : Location → String
          | .LineLocation {' '.join(lf[p] if p != 'position' else '_' for p in decls['LineLocation'][0])} =>
              {lf['path']} ++ "#" ++ toString {lf['line']}
          | .FunctionLocation {' '.join(ff[p] if p != 'position' else '_' for p in decls['FunctionLocation'][0])} =>
              {ff['path']} ++ "#" ++ ({ff['function_name']}.getD "None")
        def Trigger.id (t : Trigger) : String := t.location.id
        /-- `Trigger.merge_actions`: `self.__actions += actions` -/
        def Trigger.mergeActions (t : Trigger) (actions : List LocationAction) : Trigger :=
          {{ t with actions := t.actions ++ actions }}
        '''))

    # ---- translated functions ----------------------------------------------------------------------------------
    fs = find_def(trig, 'Location.Position.from_stage')
    parts.append(TriggerTranslator(ctors).function(fs, 'def from_stage (stage_ : String) : Position'))

    sigs = {
        'build_snapshot_action': 'def build_snapshot_action (tp_id : String) (args : Args) (watches : List String) '
                                 ': Option LocationAction',
        'build_log_action': 'def build_log_action (tp_id : String) (args : Args) : Option LocationAction',
        'build_metric_action': 'def build_metric_action (tp_id : String) (args : Args) '
                               '(metrics : List MetricDefinition) : Option LocationAction',
        'build_span_action': 'def build_span_action (tp_id : String) (args : Args) : Option LocationAction',
    }
    for fn, sig in sigs.items():
        fd = find_def(trig, fn)
        want = [w for w in sig.split('(')[1:]]
        params = [a.arg for a in fd.args.args]
        if params != [w.split(' ')[0] for w in want]:
            raise Untranslatable(f'{fn} parameters changed: {params}')
        # `metrics is None` cannot happen for a list handed over by convert_response / register_tracepoint
        tr = TriggerTranslator(ctors, optional_return=True, subst={'metrics is None': 'false'})
        parts.append(tr.function(fd, sig))

    bt = find_def(trig, 'build_trigger')
    if [a.arg for a in bt.args.args] != ['tp_id', 'path', 'line_no', 'args', 'watches', 'metrics']:
        raise Untranslatable('build_trigger parameters changed')
    tr = TriggerTranslator(ctors, optional_return=True,
                           calls={'Location.Position.from_stage': lambda a: f'(from_stage {a[0]})',
                                  'build_snapshot_action': lambda a: f'(build_snapshot_action {" ".join(a)})',
                                  'build_log_action': lambda a: f'(build_log_action {" ".join(a)})',
                                  'build_metric_action': lambda a: f'(build_metric_action {" ".join(a)})',
                                  'build_span_action': lambda a: f'(build_span_action {" ".join(a)})'})
    parts.append(tr.function(bt, 'def build_trigger (tp_id path : String) (line_no : Int) (args : Args) '
                                 '(watches : List String) (metrics : List MetricDefinition) : Option Trigger'))

    # ---- metric definition conversion (grpc/__init__.py) ----------------------------------------------------------
    try:
        from deepproto.proto.tracepoint.v1.tracepoint_pb2 import MetricType
        mt = sorted((v, k) for k, v in MetricType.items())
    except Exception as e:  # noqa: B902
        raise Untranslatable(f'deepproto MetricType not importable: {e}')
    parts.append('/-- `MetricType.Name(n)` of the installed deepproto; proto3 enums are open, a number this version does not\n'
                 '    know raises ValueError: `none` -/\n'
                 'def metricTypeNames : List (Nat × String) := [' +
                 ', '.join(f'({v}, {lean_str(k)})' for v, k in mt) + ']\n'
                 'def metricTypeName (n : Nat) : Option String := metricTypeNames.lookup n\n')
    parts.append(textwrap.dedent('''\
        /-- what the getters of a protobuf `LabelExpression` return: `static` = the set member of the AnyValue when the
            oneof holds a static value, `expression` = the text or "" -/
        structure PLabelExpression where
          key : String
          static : Option StaticVal
          expression : String
        deriving Repr, DecidableEq
        /-- getter view of a protobuf `Metric` (unset optional text reads as "") -/
        structure PMetric where
          name : String
          labelExpressions : List PLabelExpression
          type : Nat
          expression : String
          «namespace» : String
          help : String
          unit : String
        deriving Repr, DecidableEq
        '''))
    sv = find_def(grpc, '__convert_static_value')
    if not same_shape(sv, STATIC_VALUE):
        raise Untranslatable('__convert_static_value changed shape')

    def comp_map(fdef, var_expected_iter):
        body = strip_doc(list(fdef.body))
        if len(body) != 1 or not isinstance(body[0], ast.Return) or not isinstance(body[0].value, ast.ListComp):
            raise Untranslatable(f'{fdef.name} is no longer one list comprehension')
        lc = body[0].value
        g = lc.generators[0]
        if len(lc.generators) != 1 or g.ifs or not isinstance(g.target, ast.Name) \
                or ast.unparse(g.iter) != var_expected_iter:
            raise Untranslatable(f'{fdef.name} comprehension changed')
        return g.target.id, lc.elt

    cle = find_def(grpc, 'convert_label_expressions')
    var, elt = comp_map(cle, 'label_expressions')
    trl = TriggerTranslator(ctors, subst={f'{var}.key': f'{var}.key', f'{var}.expression': f'{var}.expression',
                                          f'__convert_static_value({var})': f'{var}.static'})
    parts.append('def convert_label_expressions (label_expressions : List PLabelExpression) : List LabelExpression :=\n'
                 f'  label_expressions.map (fun {var} => {trl.expr(elt)})\n')
    cmd = find_def(grpc, '__convert_metric_definition')
    var, elt = comp_map(cmd, 'metrics')
    sub = {f'{var}.{a}': f'{var}.{a}' for a in ('name', 'expression', 'help', 'unit', 'type', 'labelExpressions')}
    sub[f'{var}.namespace'] = f'{var}.«namespace»'
    names_used = []

    def type_name(a):
        names_used.append(a[0])
        return 'type_name__'
    trm = TriggerTranslator(ctors, subst=sub,
                            calls={'MetricType.Name': type_name,
                                   'convert_label_expressions': lambda a: f'(convert_label_expressions {a[0]})'})
    body = trm.expr(elt)
    if names_used == [f'{var}.type']:
        # MetricType.Name raises for an unknown number: the conversion of the whole list raises (`none`)
        body = f'Option.map (fun type_name__ => {body}) (metricTypeName {var}.type)'
    elif not names_used:
        body = f'some {body}'
    else:
        raise Untranslatable(f'__convert_metric_definition: MetricType.Name used on {names_used}')
    parts.append('/-- `none` = an exception (ValueError of `MetricType.Name`) leaves `__convert_metric_definition` -/\n'
                 'def convert_metric_definition (metrics : List PMetric) : Option (List MetricDefinition) :=\n'
                 f'  metrics.mapM (fun {var} => {body})\n')

    # ---- convert_response: exact template ---------------------------------------------------------------------------
    cr = find_def(grpc, 'convert_response')
    # is the conversion of ONE tracepoint (metric definitions + build_trigger) guarded by try/except Exception: continue?
    guarded = False
    loops = [n for n in strip_doc(list(cr.body)) if isinstance(n, ast.For)]
    if len(loops) == 1 and loops[0].body and isinstance(loops[0].body[0], ast.Try):
        t = loops[0].body[0]
        if (len(t.body) == 1 and isinstance(t.body[0], ast.Assign) and len(t.handlers) == 1 and not t.orelse
                and not t.finalbody and t.handlers[0].type is not None
                and ast.unparse(t.handlers[0].type) in ('Exception', 'BaseException')
                and isinstance(t.handlers[0].body[-1], ast.Continue)
                and all(isinstance(x, ast.Expr) for x in t.handlers[0].body[:-1])):
            guarded = True
            cr = ast.parse(ast.unparse(cr)).body[0]                  # private copy, then splice the guarded statement
            lp = [n for n in cr.body if isinstance(n, ast.For)][0]
            lp.body[0] = lp.body[0].body[0]
    if not same_shape(cr, CONVERT_RESPONSE):
        raise Untranslatable('convert_response changed shape (expected: build, skip None, group by trigger.id with '
                             'merge_actions, return values in insertion order)')
    parts.append('/-- convert_response matches the template: build_trigger per tracepoint, `None` skipped, grouped by\n'
                 '    `trigger.id` (first trigger of an id keeps its location, later ones merge their actions), values in\n'
                 '    insertion order.  The model of this loop is `TriggerBuild.convertResponse`. -/\n'
                 'def convertResponseSkipsNone : Bool := true\n'
                 '/-- the conversion of one tracepoint (metric definitions, build_trigger) sits in\n'
                 '    `try: … except Exception: continue`: an exception costs that tracepoint only -/\n'
                 f'def convertResponseGuardsBuild : Bool := {"true" if guarded else "false"}\n')
    # ---- add_custom: is the result of build_trigger checked before it is stored? -----------------------------------
    ac = find_def(load(CFGSVC), 'TracepointConfigService.add_custom')
    body = strip_doc(list(ac.body))
    built = [i for i, st in enumerate(body) if isinstance(st, ast.Assign) and isinstance(st.value, ast.Call)
             and ast.unparse(st.value.func) == 'build_trigger' and isinstance(st.targets[0], ast.Name)]
    stored = [i for i, st in enumerate(body) if isinstance(st, ast.Expr) and isinstance(st.value, ast.Call)
              and ast.unparse(st.value.func) == 'self._custom.append']
    if len(built) != 1 or len(stored) != 1 or stored[0] < built[0]:
        raise Untranslatable('add_custom changed shape (expected: config = build_trigger(..) ... self._custom.append(config))')
    var = body[built[0]].targets[0].id
    if ast.unparse(body[stored[0]].value.args[0]) != var:
        raise Untranslatable('add_custom stores something else than the built trigger')
    guarded = any(isinstance(st, ast.If) and ast.unparse(st.test) == f'{var} is None' and always_returns(st.body)
                  for st in body[built[0] + 1:stored[0]])
    parts.append('/-- `add_custom` returns before `self._custom.append(config)` when `build_trigger` gave `None` -/\n'
                 f'def addCustomSkipsNone : Bool := {"true" if guarded else "false"}\n')
    parts.append('end Extracted.TriggerTable\n')
    return '\n'.join(parts)
