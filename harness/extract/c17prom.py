"""Extracted/C17Prom.lean — the built-in Prometheus metric processor (C17, "through the operation matching its type"
down to the client-library call), regenerated from src/deep/api/plugin/metric/prometheus_metrics.py:

  PrometheusPlugin.__check_cache          -> translated: the cache key (from the f-string), lookup-else-create-and-store
  PrometheusPlugin.counter/gauge/histogram/summary
                                          -> one `Method` record each, every field read off the AST: the type name handed
                                             to the cache, the client class constructed, where each constructor keyword
                                             comes from, the default of `documentation`, whether `.labels(**labels)` is
                                             applied only for a non-empty dict, the client operation called with `value`,
                                             the except clause around everything
  PrometheusPlugin.clear                  -> checked: unregisters every cached metric, empties the cache
  the import line                         -> the client classes really are prometheus_client's
  prometheus_client default collectors    -> the names already held in the default registry (foreignNames)
Anything else in these methods (another statement, another argument) is `Untranslatable`.
"""
import ast

from pylean import Untranslatable, load, find_def, header, lean_str

OUT = 'DeepModel/Extracted/C17Prom.lean'
PROM = 'src/deep/api/plugin/metric/prometheus_metrics.py'
CLS = 'PrometheusPlugin'
METHODS = ['counter', 'gauge', 'histogram', 'summary']
CLIENT = {'Counter': '.counter', 'Gauge': '.gauge', 'Histogram': '.histogram', 'Summary': '.summary'}
OPS = {'inc': '.inc', 'dec': '.dec', 'set': '.set', 'observe': '.observe'}
PARAMS = {'name': '.name', 'labels': '.labels', 'namespace': '.namespace', 'help_string': '.help', 'unit': '.unit',
          'value': '.value'}


def _body(fdef):
    return [s for s in fdef.body if not (isinstance(s, ast.Expr) and isinstance(s.value, ast.Constant))]


def _strip_pass(stmts):
    return [s for s in stmts if not isinstance(s, ast.Pass)]


def part_check_cache(tree):
    f = find_def(tree, f'{CLS}.__check_cache')
    ps = [a.arg for a in f.args.args]
    if ps != ['self', 'name', 'type_name', 'from_default']:
        raise Untranslatable('__check_cache parameters %s' % ps)
    b = _body(f)
    if len(b) != 5 or not isinstance(b[0], ast.Assign) or not isinstance(b[0].value, ast.JoinedStr):
        raise Untranslatable('__check_cache: no longer `key = f"..."; if key in cache: return cache[key]; ...`')
    kvar = ast.unparse(b[0].targets[0])
    pieces = []
    for v in b[0].value.values:
        if isinstance(v, ast.Constant) and isinstance(v.value, str):
            pieces.append(lean_str(v.value))
        elif isinstance(v, ast.FormattedValue) and isinstance(v.value, ast.Name) and v.value.id in ('name', 'type_name') \
                and v.conversion == -1 and v.format_spec is None:
            pieces.append(v.value.id)
        else:
            raise Untranslatable('__check_cache: cache key piece ' + ast.unparse(v))
    rest = '\n'.join(ast.unparse(s) for s in b[1:])
    want = (f'if {kvar} in self.__cache:\n    return self.__cache[{kvar}]\n'
            f'default = from_default()\nself.__cache[{kvar}] = default\nreturn default')
    if rest != want:
        raise Untranslatable('__check_cache: body changed: ' + rest[:120])
    return ('/-- `PrometheusPlugin.__check_cache`: the key under which a client metric object is kept (translated from the\n'
            '    f-string); the rest of the method is checked to be: cached object if the key is present, else\n'
            '    `from_default()` is called, its result stored under the key and returned (an exception of\n'
            '    `from_default` leaves the cache as it was). -/\n'
            f'def cacheKey (name type_name : String) : String := {" ++ ".join(pieces) if pieces else chr(34) * 2}\n')


def method_record(tree, m):
    f = find_def(tree, f'{CLS}.{m}')
    ps = [a.arg for a in f.args.args if a.arg != 'self']
    if ps != ['name', 'labels', 'namespace', 'help_string', 'unit', 'value']:
        raise Untranslatable(f'{m}: parameters {ps}')
    b = _body(f)
    # the except clause around everything
    guard = 'none'
    if len(b) == 1 and isinstance(b[0], ast.Try) and not b[0].finalbody and not b[0].orelse and len(b[0].handlers) == 1:
        h = b[0].handlers[0]
        cls = ast.unparse(h.type) if h.type is not None else 'BaseException'
        if cls not in ('Exception', 'BaseException'):
            raise Untranslatable(f'{m}: except {cls}')
        if any(isinstance(x, (ast.Raise, ast.Return)) for s in h.body for x in ast.walk(s)):
            raise Untranslatable(f'{m}: the handler re-raises / returns')
        guard = 'some .exc' if cls == 'Exception' else 'some .base'
        b = list(b[0].body)
    # the lock
    if len(b) == 1 and isinstance(b[0], ast.With) and len(b[0].items) == 1 \
            and ast.unparse(b[0].items[0].context_expr) == 'self.__lock' and b[0].items[0].optional_vars is None:
        b = list(b[0].body)
    else:
        raise Untranslatable(f'{m}: body is no longer under `with self.__lock`')
    b = _strip_pass(b)
    if len(b) != 4:
        raise Untranslatable(f'{m}: expected 4 statements under the lock, found {len(b)}')
    # label_keys = list(labels.keys())
    if not (isinstance(b[0], ast.Assign) and ast.unparse(b[0].value) in ('list(labels.keys())', 'list(labels)')
            and isinstance(b[0].targets[0], ast.Name)):
        raise Untranslatable(f'{m}: label keys: ' + ast.unparse(b[0])[:80])
    keys_var = b[0].targets[0].id
    # x = self.__check_cache(name, '<type>', lambda: Cls(...))
    s = b[1]
    if isinstance(s, ast.AnnAssign):
        target, value = s.target, s.value
    elif isinstance(s, ast.Assign) and len(s.targets) == 1:
        target, value = s.targets[0], s.value
    else:
        raise Untranslatable(f'{m}: ' + ast.unparse(s)[:80])
    if not (isinstance(target, ast.Name) and isinstance(value, ast.Call) and ast.unparse(value.func) == 'self.__check_cache'
            and len(value.args) == 3 and not value.keywords and ast.unparse(value.args[0]) == 'name'
            and isinstance(value.args[1], ast.Constant) and isinstance(value.args[1].value, str)
            and isinstance(value.args[2], ast.Lambda) and not value.args[2].args.args
            and isinstance(value.args[2].body, ast.Call)):
        raise Untranslatable(f'{m}: cache call changed: ' + ast.unparse(s)[:100])
    obj = target.id
    type_name = value.args[1].value
    ctor = value.args[2].body
    cname = ast.unparse(ctor.func)
    if cname not in CLIENT or ctor.args:
        raise Untranslatable(f'{m}: constructs {cname}')
    kws = {}
    doc_default = None
    for kw in ctor.keywords:
        if kw.arg is None:
            raise Untranslatable(f'{m}: **kwargs in the constructor call')
        v = kw.value
        if isinstance(v, ast.BoolOp) and isinstance(v.op, ast.Or) and len(v.values) == 2 and isinstance(v.values[0], ast.Name) \
                and isinstance(v.values[1], ast.Constant) and isinstance(v.values[1].value, str) and kw.arg == 'documentation':
            doc_default = v.values[1].value
            src = v.values[0].id
        elif isinstance(v, ast.Name):
            src = v.id
        else:
            raise Untranslatable(f'{m}: constructor argument {kw.arg}={ast.unparse(v)}')
        if src == keys_var:
            kws[kw.arg] = '.labelKeys'
        elif src in PARAMS:
            kws[kw.arg] = PARAMS[src]
        else:
            raise Untranslatable(f'{m}: constructor argument {kw.arg} comes from {src}')
    if sorted(kws) != ['documentation', 'labelnames', 'name', 'namespace', 'unit']:
        raise Untranslatable(f'{m}: constructor keywords {sorted(kws)}')
    # if len(labels) > 0: x = x.labels(**labels)
    s = b[2]
    if not (isinstance(s, ast.If) and not s.orelse and ast.unparse(s.test) in ('len(labels) > 0', 'labels', 'len(labels) != 0')
            and len(s.body) == 1 and ast.unparse(s.body[0]) == f'{obj} = {obj}.labels(**labels)'):
        raise Untranslatable(f'{m}: labels step changed: ' + ast.unparse(s)[:100])
    # x.<op>(value)
    s = b[3]
    if not (isinstance(s, ast.Expr) and isinstance(s.value, ast.Call) and isinstance(s.value.func, ast.Attribute)
            and ast.unparse(s.value.func.value) == obj and len(s.value.args) == 1 and not s.value.keywords
            and isinstance(s.value.args[0], ast.Name) and s.value.args[0].id in PARAMS):
        raise Untranslatable(f'{m}: client operation changed: ' + ast.unparse(s)[:100])
    op = s.value.func.attr
    if op not in OPS:
        raise Untranslatable(f'{m}: client operation {op}')
    return (f'  ({lean_str(m)}, ⟨{lean_str(type_name)}, {CLIENT[cname]}, {kws["name"]}, {kws["documentation"]}, '
            f'{lean_str(doc_default) if doc_default is not None else lean_str("")}, '
            f'{"true" if doc_default is not None else "false"}, {kws["labelnames"]}, {kws["namespace"]}, {kws["unit"]}, '
            f'{OPS[op]}, {PARAMS[s.value.args[0].id]}, {guard}⟩)')


def part_clear(tree):
    f = find_def(tree, f'{CLS}.clear')
    want = ('with self.__lock:\n    for metric in self.__cache.values():\n        REGISTRY.unregister(metric)\n'
            '    self.__cache = {}')
    if '\n'.join(ast.unparse(s) for s in _body(f)) != want:
        raise Untranslatable('clear changed shape')
    return ('/-- `PrometheusPlugin.clear` (checked shape): every cached metric is unregistered, the cache is emptied -/\n'
            'def clearEmptiesCache : Bool := true\n')


def part_imports(tree):
    names = None
    for n in ast.walk(tree):
        if isinstance(n, ast.ImportFrom) and n.module == 'prometheus_client':
            names = {a.name: (a.asname or a.name) for a in n.names}
    if names is None or any(names.get(c) != c for c in CLIENT) or names.get('REGISTRY') != 'REGISTRY':
        raise Untranslatable('the client classes are no longer imported from prometheus_client under their own names')
    return ''


def part_foreign():
    """the time-series names prometheus_client's own default collectors hold in the default registry of every process
    (read from the INSTALLED client library: a fresh registry with the three default collectors, so the answer does not
    depend on what this process has registered meanwhile)"""
    try:
        from prometheus_client import CollectorRegistry, ProcessCollector, PlatformCollector, GCCollector
        r = CollectorRegistry(auto_describe=True)
        ProcessCollector(registry=r)
        PlatformCollector(registry=r)
        GCCollector(registry=r)
        names = sorted(r._names_to_collectors)
    except Exception as e:  # noqa: B902
        raise Untranslatable('default collectors of prometheus_client: %s: %s' % (type(e).__name__, e))
    if not names:
        raise Untranslatable('prometheus_client registers no default collectors')
    return ('/-- time-series names held by prometheus_client\'s default collectors (process, platform, gc) in the default\n'
            '    registry — read from the installed library -/\n'
            'def foreignNames : List String :=\n  [' + ',\n   '.join(lean_str(n) for n in names) + ']\n')


def generate():
    tree = load(PROM)
    part_imports(tree)
    rows = [method_record(tree, m) for m in METHODS]
    return '\n'.join([
        header('the built-in Prometheus metric processor: cache key, client class / operation per method', [PROM]),
        'namespace Extracted.C17Prom\n',
        '/-- the prometheus_client metric classes -/\ninductive Cls | counter | gauge | histogram | summary\n'
        'deriving DecidableEq, Repr\n',
        '/-- operations of a client metric object that take the value -/\ninductive ClientOp | inc | dec | set | observe\n'
        'deriving DecidableEq, Repr\n',
        '/-- where an argument comes from: a parameter of the processor operation, or the list of the label dict\'s keys -/\n'
        'inductive Src | name | labels | namespace | help | unit | value | labelKeys\nderiving DecidableEq, Repr\n',
        '/-- one operation of `PrometheusPlugin` as written in the source -/\n'
        'structure Method where\n'
        '  typeName : String          -- second argument of `__check_cache`\n'
        '  cls : Cls                  -- class constructed by the `from_default` lambda\n'
        '  ctorName : Src             -- `name=`\n'
        '  ctorDoc : Src              -- `documentation=` (`<src> or <docDefault>` when `docHasDefault`)\n'
        '  docDefault : String\n'
        '  docHasDefault : Bool\n'
        '  ctorLabelnames : Src       -- `labelnames=`\n'
        '  ctorNamespace : Src        -- `namespace=`\n'
        '  ctorUnit : Src             -- `unit=`\n'
        '  op : ClientOp              -- the operation called on the (labelled) object\n'
        '  opArg : Src                -- its argument\n'
        '  guard : Option Py.Exn      -- the except clause around the whole body (none = no try)\n'
        'deriving DecidableEq, Repr\n',
        part_check_cache(tree),
        '/-- `PrometheusPlugin.counter / gauge / histogram / summary`; in each: `.labels(**labels)` is applied iff the\n'
        '    label dict is non-empty (checked) -/\n'
        'def methods : List (String × Method) :=\n [' + ',\n '.join(r.strip() for r in rows) + ']\n',
        part_clear(tree),
        part_foreign(),
        'end Extracted.C17Prom\n'])
