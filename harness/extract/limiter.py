"""Extracted/Limiter.lean — rate-limit decision logic of a tracepoint action (C04, C10), regenerated from
src/deep/api/tracepoint/trigger.py and tracepoint_config.py."""
import ast
import sys
from pylean import (Translator, Untranslatable, load, find_def, update_function, same_shape, header,
                    lean_str, module_constants)

OUT = 'DeepModel/Extracted/Limiter.lean'
TRIGGER = 'src/deep/api/tracepoint/trigger.py'
TPCFG = 'src/deep/api/tracepoint/tracepoint_config.py'
CONSTS = 'src/deep/api/tracepoint/constants.py'

GET_INT_TEMPLATE = '''
try:
    return int(self.__config.get(name, default_value))
except ValueError:
    return default_value
'''


def generate():
    trig = load(TRIGGER)
    tp = load(TPCFG)
    consts = module_constants(load(CONSTS))
    parts = [header('rate limit decision logic', [TRIGGER, TPCFG, CONSTS]), 'namespace Extracted.Limiter\n']
    parts.append('structure Stats where\n  count : Int\n  last : Int\nderiving Repr, DecidableEq\n')
    parts.append('structure Window where\n  start : Int\n  stop : Int\nderiving Repr, DecidableEq\n')

    # TracepointExecutionStats.__init__ : initial values
    init = find_def(tp, 'TracepointExecutionStats.__init__')
    tr0 = Translator()
    vals = {}
    for s in init.body:
        if isinstance(s, ast.Assign) and isinstance(s.targets[0], ast.Attribute):
            vals[s.targets[0].attr] = tr0.expr(s.value)
    if set(vals) != {'_fire_count', '_last_fire'}:
        raise Untranslatable('TracepointExecutionStats fields changed: %s' % sorted(vals))
    parts.append(f'def Stats.init : Stats := ⟨{vals["_fire_count"]}, {vals["_last_fire"]}⟩\n')

    # TracepointExecutionStats.fire
    fire = find_def(tp, 'TracepointExecutionStats.fire')
    body = update_function(fire, Translator(), 'st', {'_fire_count': 'count', '_last_fire': 'last'})
    parts.append('def fire (st : Stats) (ts : Int) : Stats :=\n  ' + body.replace('\n', '\n  ') + '\n')
    for prop, field in (('fire_count', '_fire_count'), ('last_fire', '_last_fire')):
        p = find_def(tp, 'TracepointExecutionStats.' + prop)
        if not same_shape(p, f'return self.{field}'):
            raise Untranslatable(f'TracepointExecutionStats.{prop} is no longer a plain getter')

    # TracepointWindow.in_window
    w = find_def(tp, 'TracepointWindow.in_window')
    tr = Translator(subst={'self._start': 'w.start', 'self._end': 'w.stop'})
    parts.append(tr.function(w, 'def inWindow (w : Window) (ts : Int) : Bool'))

    # LocationAction.__get_int  (idiom: exact shape)
    gi = find_def(trig, 'LocationAction.__get_int')
    if not same_shape(gi, GET_INT_TEMPLATE):
        raise Untranslatable('LocationAction.__get_int changed shape')
    # CPython (>= 3.11) refuses integer TEXT with more decimal digits than sys.get_int_max_str_digits() (ValueError;
    # process-configurable, 0 = no limit; every digit counts, leading zeros too; sign, spaces, underscores do not)
    parts.append('/-- `sys.get_int_max_str_digits()` of the interpreter the extraction ran on (0 = no limit) -/\n'
                 f'def maxStrDigits : Nat := {sys.get_int_max_str_digits()}\n')
    parts.append('/-- decimal digits in a text (ASCII) -/\n'
                 'def digitCount (s : String) : Nat := (s.toList.filter Char.isDigit).length\n')
    parts.append('/-- `int(s)` for ASCII text with the digit limit: `none` = ValueError -/\n'
                 'def parseIntL (s : String) : Option Int :=\n'
                 '  if maxStrDigits != 0 && decide (digitCount s > maxStrDigits) then none else Py.parseInt s\n')
    parts.append('/-- `int(config.get(name, default))` with `ValueError` falling back to the default; the config\n'
                 '    value is text (tracepoint args are `map<string,string>`), `none` = key absent. -/\n'
                 'def getInt (v : Option String) (d : Int) : Int :=\n'
                 '  match v with\n  | none => d\n  | some s => (parseIntL s).getD d\n')

    # fire_count / fire_period properties: which key, which default
    for prop, lean in (('fire_count', 'fireCountOf'), ('fire_period', 'firePeriodOf')):
        p = find_def(trig, 'LocationAction.' + prop)
        rets = [s for s in p.body if isinstance(s, ast.Return)]
        if len(rets) != 1 or not isinstance(rets[0].value, ast.Call) \
                or ast.unparse(rets[0].value.func) != 'self.__get_int' or len(rets[0].value.args) != 2:
            raise Untranslatable(f'LocationAction.{prop} changed shape')
        key, dflt = rets[0].value.args
        keyv = consts.get(key.id) if isinstance(key, ast.Name) else None
        if keyv != prop:
            raise Untranslatable(f'LocationAction.{prop} reads config key {keyv!r}')
        parts.append(f'def {lean} (v : Option String) : Int := getInt v {Translator().expr(dflt)}\n')

    # __fire_period_ns
    fp = find_def(trig, 'LocationAction.__fire_period_ns')
    tr = Translator(subst={'self.fire_period': 'firePeriod'})
    parts.append(tr.function(fp, 'def firePeriodNs (firePeriod : Int) : Int'))

    # can_trigger
    ct = find_def(trig, 'LocationAction.can_trigger')
    tr = Translator(subst={'self.fire_count': 'fireCount',
                           'self.__stats.fire_count': 'st.count',
                           'self.__stats.last_fire': 'st.last'},
                    calls={'self.__window.in_window': lambda a: f'(inWindow win {a[0]})',
                           'self.__fire_period_ns': lambda a: '(firePeriodNs firePeriod)'})
    parts.append(tr.function(ct, 'def canTrigger (fireCount firePeriod : Int) (win : Window) (st : Stats) '
                                 '(ts : Int) : Bool'))

    # record_triggered delegates to stats.fire
    rt = find_def(trig, 'LocationAction.record_triggered')
    if not same_shape(rt, 'self.__stats.fire(ts)'):
        raise Untranslatable('LocationAction.record_triggered changed shape')

    # window construction in LocationAction.__init__: keys and defaults
    init = find_def(trig, 'LocationAction.__init__')
    wsrc = None
    for s in init.body:
        if isinstance(s, ast.Assign) and ast.unparse(s.targets[0]) == 'self.__window':
            wsrc = ast.unparse(s.value)
    if wsrc != 'TracepointWindow(self.__config.get(WINDOW_START, 0), self.__config.get(WINDOW_END, 0))':
        raise Untranslatable('window construction changed: %r' % wsrc)
    parts.append(f'def windowStartKey : String := {lean_str(consts["WINDOW_START"])}\n'
                 f'def windowEndKey : String := {lean_str(consts["WINDOW_END"])}\n')

    # defaults written by the four action builders
    rows = []
    for b in ('build_snapshot_action', 'build_log_action', 'build_metric_action', 'build_span_action'):
        f = find_def(trig, b)
        found = {}
        for n in ast.walk(f):
            if isinstance(n, ast.Dict):
                for k, v in zip(n.keys, n.values):
                    if isinstance(k, ast.Name) and k.id in ('FIRE_COUNT', 'FIRE_PERIOD'):
                        if isinstance(v, ast.Call) and ast.unparse(v.func) == 'args.get' \
                                and ast.unparse(v.args[0]) == k.id and isinstance(v.args[1], ast.Constant):
                            found[k.id] = v.args[1].value
                        else:
                            found[k.id] = '<' + ast.unparse(v) + '>'
        rows.append(f'({lean_str(b)}, {lean_str(str(found.get("FIRE_COUNT", "<absent>")))}, '
                    f'{lean_str(str(found.get("FIRE_PERIOD", "<absent>")))})')
    parts.append('/-- (builder, default fire_count text, default fire_period text) as written in the source -/\n'
                 'def builderDefaults : List (String × String × String) :=\n  [' + ',\n   '.join(rows) + ']\n')
    parts.append('end Extracted.Limiter\n')
    return '\n'.join(parts)
