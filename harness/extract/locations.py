"""Extracted/Locations.lean — where tracepoint actions fire and where pending callbacks complete (C03, C15),
regenerated from src/deep/api/tracepoint/trigger.py, processor/trigger_handler.py,
processor/context/callback_context.py and grpc/__init__.py.

Two kinds of output:
  * pure decision functions translated by pylean.Translator (LineLocation.at_location, the named-function part of
    FunctionLocation.at_location, CallbackContext.at_location and its two helpers, location_from_event, the guards
    of TriggerHandler.__trace_call);
  * the three small imperative loops (__actions_for_location, __process_call_backs, convert_response) translated
    statement by statement from a fixed statement vocabulary (list accumulate, deque pop/append/clear, dict
    set/update) into folds over lists — a statement outside the vocabulary is Untranslatable, a statement inside it
    is translated as written (so `actions = trigger.actions` instead of `+=`, a missing push-back, or an overwrite
    instead of a merge produce a *different* Lean function and the theorems about it fail).
Everything else the model relies on is checked as an exact shape (same_shape) and fails the translation otherwise.
"""
import ast
import textwrap

from pylean import Translator, Untranslatable, load, find_def, same_shape, header, lean_str

OUT = 'DeepModel/Extracted/Locations.lean'
TRIGGER = 'src/deep/api/tracepoint/trigger.py'
HANDLER = 'src/deep/processor/trigger_handler.py'
CBCTX = 'src/deep/processor/context/callback_context.py'
GRPC = 'src/deep/grpc/__init__.py'


def strip_doc(body):
    if body and isinstance(body[0], ast.Expr) and isinstance(body[0].value, ast.Constant) \
            and isinstance(body[0].value.value, str):
        return body[1:]
    return list(body)


def is_logging(s):
    """`logging.debug(...)` / `logging.exception(...)` statements carry no model content."""
    return (isinstance(s, ast.Expr) and isinstance(s.value, ast.Call)
            and len(ast.unparse(s.value.func).split('.')) >= 2
            and ast.unparse(s.value.func).split('.')[-2] == 'logging'
            and ast.unparse(s.value.func).split('.')[-1] in ('debug', 'info', 'warning', 'error', 'exception'))


def no_logging(stmts):
    return [s for s in stmts if not is_logging(s)]


def params(fdef):
    return [a.arg for a in fdef.args.args]


def clone_with_body(fdef, body):
    f = ast.FunctionDef(name=fdef.name, args=fdef.args, body=body, decorator_list=[], returns=None,
                        type_comment=None)
    return ast.fix_missing_locations(ast.copy_location(f, fdef))


def bool_ret(e, node):
    return e


# ------------------------------------------------------------------------------------ pure decision functions
def gen_line_location(trig):
    f = find_def(trig, 'LineLocation.at_location')
    if params(f) != ['self', 'event', 'file', 'line', 'function_name', 'frame']:
        raise Untranslatable('LineLocation.at_location signature changed: %s' % params(f))
    for prop, field in (('path', '__path'), ('line', '__line')):
        if not same_shape(find_def(trig, 'LineLocation.' + prop), f'return self.{field}'):
            raise Untranslatable(f'LineLocation.{prop} is no longer a plain getter')
    init = find_def(trig, 'LineLocation.__init__')
    if not same_shape(init, 'super().__init__(position)\nself.__path = path\nself.__line = line'):
        raise Untranslatable('LineLocation.__init__ changed shape')
    tr = Translator(subst={'self.path': 'path', 'self.line': 'lline'})
    return tr.function(f, 'def lineAtLocation (path : String) (lline : Int) (event file : String) (line : Int) '
                          '(function_name : String) : Bool')


def gen_function_location(trig):
    f = find_def(trig, 'FunctionLocation.at_location')
    if params(f) != ['self', 'event', 'file', 'line', 'function_name', 'frame']:
        raise Untranslatable('FunctionLocation.at_location signature changed')
    body = strip_doc(f.body)
    # the block that discovers an unnamed function from the source lines is outside the model (the property speaks
    # of method tracepoints *with* a method name): it must be exactly one `if self.__function_name is None:` block
    # that returns on every path, and it is removed before translating
    idx = [i for i, s in enumerate(body) if isinstance(s, ast.If)
           and ast.unparse(s.test) == 'self.__function_name is None']
    if len(idx) != 1:
        raise Untranslatable('FunctionLocation.at_location: expected exactly one `self.__function_name is None` block')
    blk = body[idx[0]]
    if blk.orelse or not isinstance(blk.body[-1], ast.Return):
        raise Untranslatable('FunctionLocation.at_location: the unnamed-function block no longer returns on all paths')
    for other in body[:idx[0]] + body[idx[0] + 1:]:
        for n in ast.walk(other):
            if isinstance(n, ast.Name) and n.id == 'frame':
                raise Untranslatable('FunctionLocation.at_location: named branch reads the frame')
    if not same_shape(find_def(trig, 'FunctionLocation.path'), 'return self.__path'):
        raise Untranslatable('FunctionLocation.path is no longer a plain getter')
    init = find_def(trig, 'FunctionLocation.__init__')
    if not same_shape(init, 'super().__init__(position)\nself.__function_name = function_name\nself.__path = path'):
        raise Untranslatable('FunctionLocation.__init__ changed shape')
    named = clone_with_body(f, body[:idx[0]] + body[idx[0] + 1:])
    tr = Translator(subst={'self.path': 'path', 'self.__function_name': 'fname'})
    out = tr.function(named, 'def funcAtLocation (path fname : String) (event file : String) (line : Int) '
                             '(function_name : String) : Bool')
    # a method tracepoint without a method name on a file whose source is not available: the block starts by
    # reading the source lines of the frame, which raises (OSError) — `none`; before the block only the path test
    pre = body[:idx[0]]
    first = no_logging(blk.body)[0] if no_logging(blk.body) else None
    if not (len(pre) == 1 and isinstance(pre[0], ast.If) and not pre[0].orelse
            and [ast.unparse(x) for x in pre[0].body] == ['return False']
            and first is not None and ast.unparse(first) == 'lines, start = inspect.getsourcelines(frame)'):
        raise Untranslatable('FunctionLocation.at_location: the unnamed-function block no longer starts by reading '
                             'the source lines after the path test')
    # ... and on a file WITH source: the rest of the block, translated
    blk_body = no_logging(blk.body)
    if not (len(blk_body) == 4 and ast.unparse(blk_body[1]) == 'end = start + len(lines)'
            and isinstance(blk_body[2], ast.If) and not blk_body[2].orelse
            and [ast.unparse(x) for x in no_logging(blk_body[2].body)] == ['self.__function_name = function_name',
                                                                            'return True']
            and ast.unparse(blk_body[3]) == 'return False'):
        raise Untranslatable('FunctionLocation.at_location: the unnamed-function block changed shape')
    trn = Translator(subst={'self.path': 'path'}, names={'end': 'end_'})
    out += ('\n/-- `FunctionLocation.at_location` of a location without a function name: `src` = what\n'
            '    `inspect.getsourcelines(frame)` gives for the frame of the event — (first line, number of lines) of the\n'
            '    source block of its code object, `none` = it raises.  `some true` also stores the function name of\n'
            '    the event in the location (it is a named location from then on: `Trigger.Loc.settle`). -/\n'
            'def funcAtLocationNameless (path : String) (src : Option (Int × Int)) (event file : String) (line : Int) '
            '(function_name : String) : Option Bool :=\n'
            f'  if {trn.expr(pre[0].test)} then some false else\n'
            '  match src with\n'
            '  | none => none\n'
            '  | some (start, n_lines) =>\n'
            '    let end_ := start + n_lines\n'
            f'    some {trn.expr(blk_body[2].test)}\n')
    out += ('\n/-- `FunctionLocation.at_location` of a location without a function name, for a frame whose source is not\n'
            '    available (`inspect.getsourcelines` raises): `none` = raises. -/\n'
            'def funcAtLocationNoSource (path : String) (event file : String) (line : Int) (function_name : String) : '
            'Option Bool :=\n'
            f'  if {tr.expr(pre[0].test)} then some false else none\n')
    return out


def gen_callback_context(cb):
    out = []
    init = find_def(cb, 'CallbackContext.__init__')
    if params(init) != ['self', 'event', 'filename', 'line', 'name', 'callbacks']:
        raise Untranslatable('CallbackContext.__init__ signature changed: %s' % params(init))
    want = ('super().__init__(Location.Position.END)\nself.__event = event\nself.__filename = filename\n'
            'self.__function_name = name\nself.__line = line\nself.__callbacks = callbacks')
    if not same_shape(init, want):
        raise Untranslatable('CallbackContext.__init__ no longer stores its arguments field by field')
    nl = find_def(cb, 'CallbackContext.__check_at_next_line')
    if params(nl) != ['self', 'event', 'file', 'function_name']:
        raise Untranslatable('__check_at_next_line signature changed')
    sub = {'self.__filename': 'cfile', 'self.__function_name': 'cfunc', 'self.__event': 'cevent'}
    out.append(Translator(subst=sub).function(
        nl, 'def checkAtNextLine (cfile cfunc : String) (event file function_name : String) : Bool'))
    me = find_def(cb, 'CallbackContext.__check_at_method_end')
    if params(me) != ['self', 'event']:
        raise Untranslatable('__check_at_method_end signature changed')
    out.append(Translator(subst=sub).function(me, 'def checkAtMethodEnd (event : String) : Bool'))
    at = find_def(cb, 'CallbackContext.at_location')
    if params(at) != ['self', 'event', 'file', 'line', 'function_name', 'frame']:
        raise Untranslatable('CallbackContext.at_location signature changed')
    tr = Translator(subst=sub, calls={
        'self.__check_at_next_line': lambda a: f'(checkAtNextLine cfile cfunc {" ".join(a)})',
        'self.__check_at_method_end': lambda a: f'(checkAtMethodEnd {" ".join(a)})'})
    out.append(tr.function(at, 'def cbAtLocation (cevent cfile cfunc : String) (event file : String) (line : Int) '
                               '(function_name : String) : Bool'))
    # CallbackContext.process: every callback in order; each call optionally in its own try/except Exception
    pr = find_def(cb, 'CallbackContext.process')
    body = no_logging(strip_doc(pr.body))
    if not (len(body) == 1 and isinstance(body[0], ast.For) and ast.unparse(body[0].target) == 'callback'
            and ast.unparse(body[0].iter) == 'self.__callbacks' and not body[0].orelse):
        raise Untranslatable('CallbackContext.process is no longer one loop over its callbacks')
    loop = no_logging(body[0].body)
    isolated = False
    if len(loop) == 1 and isinstance(loop[0], ast.Try):
        t = loop[0]
        if not (len(t.handlers) == 1 and t.handlers[0].type is not None
                and ast.unparse(t.handlers[0].type) in ('Exception', 'BaseException')
                and not no_logging(t.handlers[0].body) and not t.orelse and not t.finalbody):
            raise Untranslatable('CallbackContext.process: per-callback try is not `except Exception: <logging>`')
        isolated = True
        loop = no_logging(t.body)
    if [ast.unparse(x) for x in loop] != ['callback.process(ctx, event, frame, arg)']:
        raise Untranslatable('CallbackContext.process no longer calls callback.process(ctx, event, frame, arg)')
    caught = ast.unparse(t.handlers[0].type) if isolated else None
    go, stop = 'contextProcess fails rest', '([], true)'
    on_exc = go if caught in ('Exception', 'BaseException') else stop
    on_base = go if caught == 'BaseException' else stop
    out.append('/-- `CallbackContext.process`: `fails cb` = the class of the exception `cb.process(..)` raises (`none` = it\n'
               '    does not raise).  Result: the callbacks whose `process` was called (in order), and whether an exception\n'
               '    leaves `process` (the remaining callbacks are then not run). -/\n'
               'def contextProcess {β : Type} (fails : β → Option Py.Exn) : List β → List β × Bool\n'
               '  | [] => ([], false)\n'
               '  | callback :: rest =>\n'
               '    let r := match fails callback with\n'
               '      | none => contextProcess fails rest\n'
               f'      | some Py.Exn.exc => {on_exc}\n'
               f'      | some Py.Exn.base => {on_base}\n'
               '    (callback :: r.1, r.2)\n')
    return out


def gen_location_from_event(h):
    f = find_def(h, 'TriggerHandler.location_from_event')
    if params(f) != ['event', 'frame']:
        raise Untranslatable('location_from_event signature changed')
    tr = Translator(subst={'frame.f_code.co_filename': 'co_filename', 'frame.f_lineno': 'f_lineno',
                           'frame.f_code.co_name': 'co_name'},
                    calls={'os.path.basename': lambda a: f'(PyX.basename {a[0]})'})
    return tr.function(f, 'def locationFromEvent (event : String) (co_filename : String) (f_lineno : Int) '
                          '(co_name : String) : String × String × Int × String')


# the statement skeleton of TriggerHandler.__trace_call the hand-written glue (Model/Callbacks.stepWith) follows;
# <E1>.. are the guard expressions, which are translated, not fixed
TRACE_CALL_SKELETON = '''
event, file, line, function = self.location_from_event(event, frame)
trigger_context = TriggerContext(self._config, self._push_service, frame, event, arg)
if GUARD1:
    self.__process_call_backs(trigger_context, arg, frame, event, file, line, function)
if GUARD2:
    return None
actions = self.__actions_for_location(event, file, line, function, frame)
if GUARD3:
    return self.trace_call
try:
    with trigger_context:
        for action in actions:
            try:
                ctx: ActionContext
                with trigger_context.action_context(action) as ctx:
                    if ctx.can_trigger():
                        ctx.process()
            except BaseException:
                pass
except BaseException:
    pass
callbacks = trigger_context.callbacks
if GUARD4:
    self._callbacks.get().append(CallbackContext(event, file, line, function, callbacks))
return self.trace_call
'''


class _StripLogging(ast.NodeTransformer):
    def generic_visit(self, node):
        super().generic_visit(node)
        for field in ('body', 'orelse', 'finalbody'):
            v = getattr(node, field, None)
            if isinstance(v, list):
                nv = [s for s in v if not is_logging(s)]
                if not nv and v:
                    nv = [ast.Pass()]
                setattr(node, field, nv)
        return node


def gen_trace_call(h):
    try:
        f = find_def(h, 'TriggerHandler.__trace_call')
    except Untranslatable:
        f = find_def(h, 'TriggerHandler.trace_call')     # the steps directly in trace_call (no catch-all wrapper)
    if params(f) != ['self', 'frame', 'event', 'arg']:
        raise Untranslatable('__trace_call signature changed')
    import copy
    body = [_StripLogging().visit(copy.deepcopy(s)) for s in strip_doc(f.body)]
    body = [s for s in body if not is_logging(s)]
    ifs = [s for s in body if isinstance(s, ast.If)]
    if len(ifs) != 4:
        raise Untranslatable('__trace_call: expected 4 guarded steps, found %d' % len(ifs))
    guards = [i.test for i in ifs]
    # compare the skeleton with the guards blanked
    want = ast.parse(textwrap.dedent(TRACE_CALL_SKELETON)).body
    got = []
    k = 0
    for s in body:
        if isinstance(s, ast.If):
            s = copy.deepcopy(s)
            s.test = ast.Name(id='GUARD%d' % (k + 1), ctx=ast.Load())
            k += 1
        got.append(s)
    if [ast.dump(x) for x in got] != [ast.dump(x) for x in want]:
        raise Untranslatable('TriggerHandler.__trace_call no longer has the sequence of steps the model follows '
                             '(callbacks, empty-config return, actions, no-action return, process, push callbacks)')
    tr = Translator(subst={'self._callbacks.is_set': 'is_set', 'len(self._tp_config)': 'n_config',
                           'len(actions)': 'n_actions', 'len(callbacks)': 'n_callbacks'})
    out = ['/-- guard of the callback step of `__trace_call` -/\n'
           f'def callbackEvent (event : String) (is_set : Bool) : Bool :=\n  {tr.expr(guards[0])}\n',
           '/-- guard of the early `return None` (no tracepoints installed) -/\n'
           f'def noTracepoints (n_config : Int) : Bool :=\n  {tr.expr(guards[1])}\n',
           '/-- guard of the early return when no installed trigger is at the location -/\n'
           f'def noActions (n_actions : Int) : Bool :=\n  {tr.expr(guards[2])}\n',
           '/-- guard of the push of a new CallbackContext after the trigger ran -/\n'
           f'def pushCallbacks (n_callbacks : Int) : Bool :=\n  {tr.expr(guards[3])}\n']
    # ThreadLocal: value stored per thread (threading.local), `get` creates the default, `clear` removes it
    tl = load('src/deep/thread_local.py')
    init = find_def(tl, 'ThreadLocal.__init__')
    if not same_shape(init, 'self.__default_provider = default_provider\nself.__store = threading.local()'):
        raise Untranslatable('ThreadLocal no longer keeps its values on a threading.local()')
    if not same_shape(find_def(tl, 'ThreadLocal.is_set'), "return hasattr(self.__store, 'value')"):
        raise Untranslatable('ThreadLocal.is_set changed shape')
    if not same_shape(find_def(tl, 'ThreadLocal.clear'), "if hasattr(self.__store, 'value'):\n    del self.__store.value"):
        raise Untranslatable('ThreadLocal.clear changed shape')
    if not same_shape(find_def(tl, 'ThreadLocal.get'),
                      "get = getattr(self.__store, 'value', None)\nif get is None:\n"
                      "    get = self.__default_provider()\n    self.__store.value = get\nreturn get"):
        raise Untranslatable('ThreadLocal.get changed shape')
    if not same_shape(find_def(tl, 'ThreadLocal.value'), 'return self.get()'):
        raise Untranslatable('ThreadLocal.value changed shape')
    hinit = find_def(h, 'TriggerHandler.__init__')
    if not any(isinstance(s, ast.AnnAssign) and ast.unparse(s.target) == 'self._callbacks'
               and ast.unparse(s.value) == 'ThreadLocal(lambda: deque())' for s in hinit.body):
        raise Untranslatable('TriggerHandler._callbacks is no longer ThreadLocal(lambda: deque())')
    return out


# ------------------------------------------------------------------------------------ statement vocabularies
def gen_actions_for_location(h, trig):
    f = find_def(h, 'TriggerHandler.__actions_for_location')
    if params(f) != ['self', 'event', 'file', 'line', 'function', 'frame']:
        raise Untranslatable('__actions_for_location signature changed')
    body = no_logging(strip_doc(f.body))
    if not (len(body) == 3 and isinstance(body[0], ast.Assign) and isinstance(body[0].targets[0], ast.Name)
            and ast.unparse(body[0].value) == '[]'
            and isinstance(body[1], ast.For) and isinstance(body[1].target, ast.Name)
            and ast.unparse(body[1].iter) == 'self._tp_config' and not body[1].orelse
            and isinstance(body[2], ast.Return) and isinstance(body[2].value, ast.Name)
            and body[2].value.id == body[0].targets[0].id):
        raise Untranslatable('__actions_for_location is no longer `acc = []; for t in self._tp_config: ..; return acc`')
    A, T = body[0].targets[0].id, body[1].target.id          # names of the accumulator and of the loop variable
    loop = no_logging(body[1].body)
    # optional: the test + accumulate of one trigger wrapped in `try: .. except Exception: <logging only>`
    isolated = False
    if len(loop) == 1 and isinstance(loop[0], ast.Try):
        t = loop[0]
        if not (len(t.handlers) == 1 and t.handlers[0].type is not None
                and ast.unparse(t.handlers[0].type) in ('Exception', 'BaseException')
                and not no_logging(t.handlers[0].body) and not t.orelse and not t.finalbody):
            raise Untranslatable('__actions_for_location: per-trigger try is not `except Exception: <logging>`')
        isolated = True
        loop = no_logging(t.body)
    if not (len(loop) == 1 and isinstance(loop[0], ast.If) and not loop[0].orelse
            and ast.unparse(loop[0].test) == '%s.at_location(event, file, line, function, frame)' % T):
        raise Untranslatable('__actions_for_location: loop body is no longer one `if trigger.at_location(..)`')
    acc = 'actions'
    for s in no_logging(loop[0].body):
        src = ast.unparse(s)
        if src in ('%s += %s.actions' % (A, T), '%s = %s + %s.actions' % (A, A, T), '%s.extend(%s.actions)' % (A, T)):
            acc = f'({acc} ++ actionsOf trigger)'
        elif src == '%s = %s.actions' % (A, T):
            acc = '(actionsOf trigger)'
        else:
            raise Untranslatable('__actions_for_location: statement outside the vocabulary: ' + src[:80])
    # Trigger.at_location delegates to its location; Trigger.actions lists its actions in order
    ta = find_def(trig, 'Trigger.at_location')
    if not same_shape(ta, 'return self.__location.at_location(event, file, line, function_name, frame)'):
        raise Untranslatable('Trigger.at_location no longer delegates to its location')
    tac = find_def(trig, 'Trigger.actions')
    if not same_shape(tac, 'return [action.with_location(self) for action in self.__actions]'):
        raise Untranslatable('Trigger.actions changed shape')
    wl = find_def(trig, 'LocationAction.with_location')
    if not same_shape(wl, 'self.__location = location\nreturn self'):
        raise Untranslatable('LocationAction.with_location changed shape')
    on_raise = 'some actions   -- caught per trigger: this trigger contributes nothing' if isolated \
        else 'none   -- propagates out of __actions_for_location'
    return ('/-- `TriggerHandler.__actions_for_location`: the loop over the installed triggers.  `atLocation t = none`\n'
            '    means `t.at_location(..)` raises; result `none` = the exception leaves the function. -/\n'
            'def actionsForLocation {τ α : Type} (atLocation : τ → Option Bool) (actionsOf : τ → List α) '
            '(tp_config : List τ) : Option (List α) :=\n'
            '  tp_config.foldl (fun acc trigger =>\n'
            '    match acc with\n'
            '    | none => none\n'
            '    | some actions =>\n'
            '      match atLocation trigger with\n'
            f'      | none => {on_raise}\n'
            f'      | some b => if b then some {acc} else some actions) (some [])\n')


def check_wrapper(h):
    """the model treats an IndexError inside __trace_call as "the event is abandoned": that is what the catch-all
    wrapper does — needed only when __process_call_backs can pop from an empty deque."""
    outer = find_def(h, 'TriggerHandler.trace_call')
    if not same_shape(outer, 'try:\n    return self.__trace_call(frame, event, arg)\nexcept BaseException:\n'
                             '    logging.exception("Cannot process event %s", event)\n    return self.trace_call'):
        raise Untranslatable('TriggerHandler.trace_call is no longer the catch-all wrapper of __trace_call')


def gen_process_call_backs(h):
    f = find_def(h, 'TriggerHandler.__process_call_backs')
    if params(f) != ['self', 'ctx', 'arg', 'frame', 'event', 'file', 'line', 'function_name']:
        raise Untranslatable('__process_call_backs signature changed')
    body = no_logging(strip_doc(f.body))
    if not body:
        raise Untranslatable('__process_call_backs is empty')
    # optional leading guard: `if len(self._callbacks.value) == 0: self._callbacks.clear(); return`
    on_empty = 'none   -- IndexError: pop from an empty deque'
    g = body[0]
    if isinstance(g, ast.If) and not g.orelse and ast.unparse(g.test) == 'len(self._callbacks.value) == 0':
        gb = no_logging(g.body)
        if [ast.unparse(x) for x in gb] == ['self._callbacks.clear()', 'return']:
            on_empty = 'some (none, [])   -- nothing pending: the slot is cleared'
            body = body[1:]
        else:
            raise Untranslatable('__process_call_backs: empty-queue guard outside the vocabulary')
    if not body:
        raise Untranslatable('__process_call_backs has no pop')
    if on_empty.startswith('none'):
        check_wrapper(h)
    first = body[0]
    val = first.value if isinstance(first, (ast.Assign, ast.AnnAssign)) else None
    tgt = (first.target if isinstance(first, ast.AnnAssign) else
           first.targets[0] if isinstance(first, ast.Assign) else None)
    if val is None or ast.unparse(tgt) != 'context' or ast.unparse(val) != 'self._callbacks.value.pop()':
        raise Untranslatable('__process_call_backs no longer starts with `context = self._callbacks.value.pop()`')

    def ops(stmts, value, processed):
        for s in no_logging(stmts):
            src = ast.unparse(s)
            if src == 'context.process(ctx, event, frame, arg)':
                processed = f'({processed} ++ [context])'
            elif src == 'self._callbacks.value.append(context)':
                value = f'(context :: {value})'
            elif isinstance(s, ast.Pass):
                pass
            else:
                raise Untranslatable('__process_call_backs: statement outside the vocabulary: ' + src[:80])
        return value, processed

    lines = ['match value with', '| [] => ' + on_empty, '| context :: value =>']
    rest = []
    for s in body[1:]:
        # `try: A finally: B` is A then B on the path the model follows (callbacks that do not raise; what a raising
        # callback does to the host is C01/C20's subject)
        if isinstance(s, ast.Try) and not s.handlers and not s.orelse and s.finalbody:
            rest += no_logging(s.body) + no_logging(s.finalbody)
        else:
            rest.append(s)
    ind = '  '
    # zero or more `if context.at_location(..)` steps, then an optional `if len(..) == 0: clear()`
    tail = None
    for s in rest:
        if isinstance(s, ast.If) and ast.unparse(s.test) == \
                'context.at_location(event, file, line, function_name, frame)':
            if tail is not None:
                raise Untranslatable('__process_call_backs: at_location step after the clear step')
            v1, p1 = ops(s.body, 'value', 'processed')
            v2, p2 = ops(s.orelse, 'value', 'processed')
            lines.append(f'{ind}let (value, processed) := if atLocation context then ({v1}, {p1}) else ({v2}, {p2})')
        elif isinstance(s, ast.If) and not s.orelse and \
                [ast.unparse(x) for x in no_logging(s.body)] == ['self._callbacks.clear()']:
            if tail is not None:
                raise Untranslatable('__process_call_backs: two clear steps')
            tr = Translator(subst={'len(self._callbacks.value)': '(value.length : Int)'})
            tail = tr.expr(s.test)
        else:
            raise Untranslatable('__process_call_backs: statement outside the vocabulary: ' + ast.unparse(s)[:80])
    if tail is None:
        lines.append(f'{ind}some (some value, processed)')
    else:
        lines.append(f'{ind}if {tail} then some (none, processed) else some (some value, processed)')
    text = '\n'.join(lines[:3]) + '\n' + f'{ind}let processed : List γ := []\n' + '\n'.join(lines[3:])
    return ('/-- `TriggerHandler.__process_call_backs` over the thread\'s deque (head of the list = right end of the\n'
            '    deque).  Result: `none` = IndexError (pop from an empty deque); else (the slot afterwards — `none` =\n'
            '    cleared — , the contexts whose `process` ran). -/\n'
            'def processCallBacks {γ : Type} (atLocation : γ → Bool) (value : List γ) : '
            'Option (Option (List γ) × List γ) :=\n' + textwrap.indent(text, '  ') + '\n')


def gen_convert_response(g, trig):
    f = find_def(g, 'convert_response')
    body = no_logging(strip_doc(f.body))
    if not (len(body) == 3 and isinstance(body[0], (ast.Assign, ast.AnnAssign))
            and ast.unparse(body[0].value) == '{}'
            and ast.unparse(body[0].target if isinstance(body[0], ast.AnnAssign) else body[0].targets[0]) == 'all_triggers'
            and isinstance(body[1], ast.For) and ast.unparse(body[1].target) == 'r'
            and ast.unparse(body[1].iter) == 'response' and not body[1].orelse
            and isinstance(body[2], ast.Return) and ast.unparse(body[2].value) == 'list(all_triggers.values())'):
        raise Untranslatable('convert_response is no longer `all_triggers = {}; for r in response: ..; '
                             'return list(all_triggers.values())`')
    loop = no_logging(body[1].body)
    # optional: the build of one tracepoint in `try: trigger = build_trigger(..) except Exception: <logging>; continue`
    # — a tracepoint whose build raises is skipped like one that cannot be interpreted (`none` in `built`)
    if loop and isinstance(loop[0], ast.Try):
        t = loop[0]
        if not (len(t.handlers) == 1 and t.handlers[0].type is not None
                and ast.unparse(t.handlers[0].type) in ('Exception', 'BaseException')
                and [type(x) for x in no_logging(t.handlers[0].body)] == [ast.Continue]
                and not t.orelse and not t.finalbody and len(no_logging(t.body)) == 1):
            raise Untranslatable('convert_response: the per-tracepoint try is not `except Exception: <logging>; continue`')
        loop = no_logging(t.body) + loop[1:]
    if not (len(loop) >= 3 and isinstance(loop[0], ast.Assign) and ast.unparse(loop[0].targets[0]) == 'trigger'
            and isinstance(loop[0].value, ast.Call) and ast.unparse(loop[0].value.func) == 'build_trigger'
            and [ast.unparse(a) for a in loop[0].value.args[:3]] == ['r.ID', 'r.path', 'r.line_number']):
        raise Untranslatable('convert_response no longer builds one trigger per response entry with build_trigger')
    if not (isinstance(loop[1], ast.If) and ast.unparse(loop[1].test) == 'trigger is None' and not loop[1].orelse
            and [type(x) for x in no_logging(loop[1].body)] == [ast.Continue]):
        raise Untranslatable('convert_response no longer skips a tracepoint that cannot be built')
    if not (isinstance(loop[2], ast.Assign) and ast.unparse(loop[2]) == 'location_id = trigger.id'):
        raise Untranslatable('convert_response no longer keys triggers by trigger.id')

    def stmts(ss, d):
        for s in no_logging(ss):
            src = ast.unparse(s)
            if src == 'all_triggers[location_id].merge_actions(trigger.actions)':
                d = f'(PyX.dictUpdate {d} location_id (fun t => mergeActions t trigger))'
            elif src == 'all_triggers[location_id] = trigger':
                d = f'(PyX.dictSet {d} location_id trigger)'
            elif isinstance(s, ast.If) and ast.unparse(s.test) == 'location_id in all_triggers':
                d = (f'(if PyX.dictHas {d} location_id then {stmts(s.body, d)} else {stmts(s.orelse, d)})')
            elif isinstance(s, ast.If) and ast.unparse(s.test) == 'location_id not in all_triggers':
                d = (f'(if !(PyX.dictHas {d} location_id) then {stmts(s.body, d)} else {stmts(s.orelse, d)})')
            elif isinstance(s, ast.Pass):
                pass
            else:
                raise Untranslatable('convert_response: statement outside the vocabulary: ' + src[:80])
        return d
    step = stmts(loop[3:], 'all_triggers')
    # Trigger.id is the id of its location; merge_actions appends
    if not same_shape(find_def(trig, 'Trigger.id'), 'return self.__location.id'):
        raise Untranslatable('Trigger.id changed shape')
    if not same_shape(find_def(trig, 'Trigger.merge_actions'), 'self.__actions += actions'):
        raise Untranslatable('Trigger.merge_actions no longer appends the actions')
    if not same_shape(find_def(trig, 'LineLocation.id'), "return '%s#%s' % (self.path, self.line)"):
        raise Untranslatable('LineLocation.id changed shape')
    if not same_shape(find_def(trig, 'FunctionLocation.id'), "return '%s#%s' % (self.path, self.__function_name)"):
        raise Untranslatable('FunctionLocation.id changed shape')
    return ('/-- `grpc.convert_response`: one trigger per location id, in first-seen order.  `built` is the result of\n'
            '    `build_trigger` per response entry (`none` = cannot be built, skipped); `idOf t` is `trigger.id`,\n'
            '    `mergeActions t u` is `t.merge_actions(u.actions)`. -/\n'
            'def convertResponse {τ κ : Type} [BEq κ] (idOf : τ → κ) (mergeActions : τ → τ → τ) '
            '(built : List (Option τ)) : List τ :=\n'
            '  PyX.dictValues (built.foldl (fun (all_triggers : List (κ × τ)) r =>\n'
            '    match r with\n'
            '    | none => all_triggers\n'
            '    | some trigger =>\n'
            '      let location_id := idOf trigger\n'
            f'      {step}) [])\n')


def generate():
    trig = load(TRIGGER)
    h = load(HANDLER)
    cb = load(CBCTX)
    g = load(GRPC)
    parts = [header('trigger placement and callback completion logic', [TRIGGER, HANDLER, CBCTX, GRPC,
                                                                        'src/deep/thread_local.py'])
             + 'import DeepModel.Model.PyX\nset_option linter.unusedVariables false\n',
             'namespace Extracted.Locations\n']
    parts.append(gen_line_location(trig))
    parts.append(gen_function_location(trig))
    parts.extend(gen_callback_context(cb))
    parts.append(gen_location_from_event(h))
    parts.extend(gen_trace_call(h))
    parts.append(gen_actions_for_location(h, trig))
    parts.append(gen_process_call_backs(h))
    parts.append(gen_convert_response(g, trig))
    parts.append('end Extracted.Locations\n')
    return '\n'.join(parts)
