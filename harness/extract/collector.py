"""Extracted/Collector.lean — the decision logic of the variable collector (C05, C06, C07), regenerated from
src/deep/processor/{variable_processor,variable_set_processor,frame_collector}.py, bfs/__init__.py and
context/{action_context,snapshot_action}.py.

Translated with pylean (the function bodies become Lean definitions): check_var_count, truncate_string,
var_modifiers, correct_names, the depth test of process_child_nodes, the cap test of
process_list_breadth_first, the id arithmetic of new_var_id, variable_to_string (as a decision returning which
rendering is used).  Extracted as constants / shape facts: the three type-name lists, the default limits and the
config keys they are read from, the queue discipline of breadth_first_search, the order of the kind tests in
find_children_for_parent, which exception class safe_str catches, where the cache and the table of an action come
from (per action / per trigger), whether processed roots are held alive, the guard of eval_watch for an exhausted
budget.  Anything whose shape is not recognised raises Untranslatable (never guessed)."""
import ast
import textwrap

from pylean import (Translator, Untranslatable, load, find_def, same_shape, header, lean_str, lean_const,
                    module_constants)

OUT = 'DeepModel/Extracted/Collector.lean'
VP = 'src/deep/processor/variable_processor.py'
VSP = 'src/deep/processor/variable_set_processor.py'
BFS = 'src/deep/processor/bfs/__init__.py'
FC = 'src/deep/processor/frame_collector.py'
AC = 'src/deep/processor/context/action_context.py'
SA = 'src/deep/processor/context/snapshot_action.py'


class CTranslator(Translator):
    """pylean.Translator + the two string idioms the collector uses: `'lit' + s` / `s + 'lit'` (concatenation) and
    `'… %s …' % x` (one positional %s)."""

    def e_BinOp(self, n):
        def is_str(x):
            return isinstance(x, ast.Constant) and isinstance(x.value, str)
        if isinstance(n.op, ast.Add) and (is_str(n.left) or is_str(n.right)):
            return f'({self.expr(n.left)} ++ {self.expr(n.right)})'
        if isinstance(n.op, ast.Mod) and is_str(n.left) and n.left.value.count('%') == 1 \
                and n.left.value.count('%s') == 1 and not isinstance(n.right, ast.Tuple):
            pre, post = n.left.value.split('%s')
            return f'({lean_str(pre)} ++ {self.expr(n.right)} ++ {lean_str(post)})'
        return super().e_BinOp(n)


def body_no_doc(fdef):
    b = list(fdef.body)
    if b and isinstance(b[0], ast.Expr) and isinstance(b[0].value, ast.Constant) and isinstance(b[0].value.value, str):
        b = b[1:]
    return b


def shape_with(fdef, template, **holes):
    """same_shape against a template in which `{name}` holes are filled with the unparsed source fragments."""
    return same_shape(fdef, template.format(**holes))


BFS_TEMPLATE = '''
queue = [node]
while len(queue) != 0:
    pop = queue.pop({arg})
    can_continue = consumer(pop)
    if can_continue:
        queue += pop.children
    else:
        return
'''

LIST_TEMPLATE = '''
nodes = []
total = 0
for val_ in tuple(value):
    if {test}:
        break
    nodes.append(Node(value=NodeValue(str(total), val_), parent=parent_node))
    total += 1
return nodes
'''

DICT_TEMPLATE = '''
return [Node(value=NodeValue(func(type_name, key if isinstance(key, str) else safe_str(key)), value[key], key if isinstance(key, str) else None), parent=parent_node) for key in list(value.keys()) if key in value]
'''

NEW_ID_TEMPLATE = '''
var_count = self.size
new_id = str({expr})
self._VariableCacheProvider__cache[identity_hash_id] = new_id
return new_id
'''

SAFE_STR_TEMPLATE = '''
try:
    return str(var_value)
except {cls}:
    return f'{{type(var_value)}}@{{id(var_value)}}'
'''


def gen_lists(parts, vp):
    consts = module_constants(vp)
    for py, lean in (('NO_CHILD_TYPES', 'noChildTypes'), ('LIST_LIKE_TYPES', 'listLikeTypes'),
                     ('ITER_LIKE_TYPES', 'iterLikeTypes')):
        v = consts.get(py)
        if not isinstance(v, list) or not all(isinstance(x, str) for x in v):
            raise Untranslatable(f'{py} is not a list of string literals')
        parts.append(f'def {lean} : List String :=\n  {lean_const(v)}\n')


def gen_defaults(parts, vsp, sa):
    cls = find_def(vsp, 'VariableProcessorConfig')
    vals = {}
    for s in cls.body:
        if isinstance(s, ast.Assign) and isinstance(s.targets[0], ast.Name) and isinstance(s.value, ast.Constant) \
                and isinstance(s.value.value, int):
            vals[s.targets[0].id] = s.value.value
    init = find_def(vsp, 'VariableProcessorConfig.__init__')
    dflt = {}
    names = [a.arg for a in init.args.args][1:]
    for a, d in zip(names, init.args.defaults):
        if not isinstance(d, ast.Name) or d.id not in vals:
            raise Untranslatable('VariableProcessorConfig.__init__ default of %s' % a)
        dflt[a] = vals[d.id]
    for s in body_no_doc(init):
        if not (isinstance(s, ast.Assign) and ast.unparse(s.targets[0]) == 'self.' + ast.unparse(s.value)):
            raise Untranslatable('VariableProcessorConfig.__init__ is not plain field assignment')
    want = {'max_string_length', 'max_variables', 'max_collection_size', 'max_var_depth'}
    if set(dflt) != want:
        raise Untranslatable('VariableProcessorConfig fields: %s' % sorted(dflt))
    parts.append('/-- default limits of `VariableProcessorConfig` -/')
    for k, lean in (('max_variables', 'defaultMaxVars'), ('max_string_length', 'defaultMaxStr'),
                    ('max_collection_size', 'defaultMaxColl'), ('max_var_depth', 'defaultMaxDepth')):
        if dflt[k] < 0:
            raise Untranslatable('negative default limit')
        parts.append(f'def {lean} : Nat := {dflt[k]}')
    parts.append('')
    # SnapshotActionContext.collection_config: which action config key feeds which limit, and its default
    cc = find_def(sa, 'SnapshotActionContext.collection_config')
    rows = {}
    for s in body_no_doc(cc):
        if isinstance(s, ast.Assign) and isinstance(s.targets[0], ast.Attribute) \
                and ast.unparse(s.targets[0].value) == 'config':
            v = s.value
            if not (isinstance(v, ast.Call) and ast.unparse(v.func) == 'self.location_action.config.get'
                    and len(v.args) == 2 and isinstance(v.args[0], ast.Constant)):
                raise Untranslatable('collection_config: ' + ast.unparse(s))
            d = ast.unparse(v.args[1])
            if not d.startswith('config.') or d[len('config.'):] not in vals:
                raise Untranslatable('collection_config default: ' + d)
            rows[s.targets[0].attr] = (v.args[0].value, vals[d[len('config.'):]])
    if set(rows) != want:
        raise Untranslatable('collection_config sets %s' % sorted(rows))
    parts.append('/-- (limit field, action config key, default) as read by `SnapshotActionContext.collection_config` -/')
    parts.append('def configKeys : List (String × String × Nat) :=\n  [' + ',\n   '.join(
        f'({lean_str(f)}, {lean_str(rows[f][0])}, {rows[f][1]})' for f in sorted(rows)) + ']\n')


def gen_queue(parts, bfs):
    f = find_def(bfs, 'breadth_first_search')
    pops = [n for n in ast.walk(f) if isinstance(n, ast.Call) and ast.unparse(n.func) == 'queue.pop']
    if len(pops) != 1:
        raise Untranslatable('breadth_first_search: expected exactly one queue.pop')
    arg = ast.unparse(pops[0].args[0]) if pops[0].args else ''
    if not shape_with(f, BFS_TEMPLATE, arg=arg):
        raise Untranslatable('breadth_first_search changed shape')
    if arg == '0':
        end = '.front'
    elif arg in ('', '-1'):
        end = '.back'
    else:
        raise Untranslatable('queue.pop(%s)' % arg)
    parts.append('/-- which end of the work list `breadth_first_search` takes the next node from; children are appended\n'
                 '    at the back (`queue += pop.children`) -/\n'
                 'inductive QueueEnd | front | back\nderiving DecidableEq, Repr\n\n'
                 f'def queueEnd : QueueEnd := {end}\n')
    # Node.add_children: depth of a child
    ac = find_def(bfs, 'Node.add_children')
    if not same_shape(ac, 'for child in children:\n    child._depth = self._depth + 1\n    self._children.append(child)'):
        raise Untranslatable('Node.add_children changed shape')
    init = find_def(bfs, 'Node.__init__')
    if 'self._depth = 0' not in [ast.unparse(s) for s in init.body]:
        raise Untranslatable('Node.__init__ no longer starts at depth 0')
    nv = find_def(bfs, 'NodeValue.__init__')
    if not same_shape(nv, 'self.name = name\nif original_name is not None and name != original_name:\n'
                          '    self.original_name = original_name\nelse:\n    self.original_name = None\n'
                          'self.value = value'):
        raise Untranslatable('NodeValue.__init__ changed shape')


def gen_translated(parts, vp, vsp):
    # check_var_count
    f = find_def(vsp, 'VariableSetProcessor.check_var_count')
    tr = CTranslator(subst={'self.__var_cache.size': 'size', 'self.__config.max_variables': 'max_variables'})
    parts.append('/-- `VariableSetProcessor.check_var_count`: may another node be looked at? -/')
    parts.append(tr.function(f, 'def checkVarCount (size max_variables : Int) : Bool'))
    size = find_def(vsp, 'VariableCacheProvider.size')
    if not same_shape(size, 'return len(self.__cache)'):
        raise Untranslatable('VariableCacheProvider.size changed shape')
    # new_var_id
    f = find_def(vsp, 'VariableCacheProvider.new_var_id')
    calls = [n for n in ast.walk(f) if isinstance(n, ast.Call) and ast.unparse(n.func) == 'str']
    if len(calls) != 1 or len(calls[0].args) != 1:
        raise Untranslatable('new_var_id: expected one str(..) call')
    e = calls[0].args[0]
    src = ast.unparse(f)
    if not shape_with(f, NEW_ID_TEMPLATE.replace('self._VariableCacheProvider__cache', 'self.__cache'),
                      expr=ast.unparse(e)):
        raise Untranslatable('new_var_id changed shape: ' + src[:80])
    parts.append('/-- `VariableCacheProvider.new_var_id`: the id given to the next new object, from the cache size -/')
    parts.append(f'def newVarId (var_count : Int) : Int :=\n  {CTranslator().expr(e)}\n')
    ci = find_def(vsp, 'VariableCacheProvider.check_id')
    if not same_shape(ci, 'if identity_hash_id in self.__cache:\n    return self.__cache[identity_hash_id]\nreturn None'):
        raise Untranslatable('check_id changed shape')
    # truncate_string
    f = find_def(vp, 'truncate_string')
    parts.append('/-- `truncate_string` -/')
    parts.append(CTranslator().function(f, 'def truncateString (string : String) (max_length : Int) : String × Bool'))
    # var_modifiers
    f = find_def(vp, 'var_modifiers')
    parts.append('/-- `var_modifiers` -/')
    parts.append(CTranslator().function(f, 'def varModifiers (var_name : String) : List String'))
    # correct_names
    f = find_def(vp, 'correct_names')
    parts.append('/-- `correct_names` (class name, attribute name) -/')
    parts.append(CTranslator(names={'prefix': 'pfx'}).function(f, 'def correctNames (name val : String) : String'))
    # process_child_nodes: [no-child test] [depth test] class.. return find_children_for_parent(..)
    f = find_def(vp, 'process_child_nodes')
    b = body_no_doc(f)
    final = 'return find_children_for_parent(var_collector, VariableParent(), var_value, variable_type)'
    kids_guarded = False
    last = b[4] if len(b) == 5 else None
    if isinstance(last, ast.Try):
        # try: return find_children_for_parent(..)  except Exception: [logging..]; return []
        hs = last.handlers
        tail = [x for x in (hs[0].body if len(hs) == 1 else [])
                if not (isinstance(x, ast.Expr) and isinstance(x.value, ast.Call)
                        and ast.unparse(x.value.func).startswith('logging.'))]
        if not (len(last.body) == 1 and ast.unparse(last.body[0]) == final and len(hs) == 1 and hs[0].type is not None
                and ast.unparse(hs[0].type) == 'Exception' and [ast.unparse(x) for x in tail] == ['return []']
                and not last.orelse and not last.finalbody):
            raise Untranslatable('process_child_nodes: guard around find_children_for_parent changed shape')
        kids_guarded = True
        last_ok = True
    else:
        last_ok = last is not None and ast.unparse(last) == final
    ok = (len(b) == 5 and ast.unparse(b[0]) == 'variable_type = type(var_value)'
          and isinstance(b[1], ast.If) and ast.unparse(b[1].test) == 'variable_type.__name__ in NO_CHILD_TYPES'
          and ast.unparse(b[1].body[0]) == 'return []' and not b[1].orelse
          and isinstance(b[2], ast.If) and ast.unparse(b[2].body[0]) == 'return []' and not b[2].orelse
          and isinstance(b[3], ast.ClassDef) and last_ok)
    if not ok:
        raise Untranslatable('process_child_nodes changed shape')
    parts.append('/-- `process_child_nodes` catches `Exception` around `find_children_for_parent`: a value whose inspection\n'
                 '    raises is collected without children -/\n'
                 f'def childrenGuarded : Bool := {"true" if kids_guarded else "false"}\n')
    cls = b[3]
    if not (len(cls.body) == 1 and isinstance(cls.body[0], ast.FunctionDef)
            and same_shape(cls.body[0], 'var_collector.append_child(variable_id, child)')):
        raise Untranslatable('VariableParent.add_child changed shape')
    tr = CTranslator(subst={'var_collector.max_var_depth': 'max_var_depth'})
    parts.append('/-- the depth test of `process_child_nodes`: true = no children are looked for -/')
    parts.append(f'def depthStop (frame_depth max_var_depth : Int) : Bool :=\n  {tr.expr(b[2].test)}\n')
    # process_list_breadth_first
    f = find_def(vp, 'process_list_breadth_first')
    brk = [n for n in ast.walk(f) if isinstance(n, ast.If) and len(n.body) == 1 and isinstance(n.body[0], ast.Break)]
    if len(brk) != 1:
        raise Untranslatable('process_list_breadth_first: expected one `if ..: break`')
    if not shape_with(f, LIST_TEMPLATE, test=ast.unparse(brk[0].test)):
        raise Untranslatable('process_list_breadth_first changed shape')
    tr = CTranslator(subst={'var_collector.max_collection_size': 'max_collection_size'})
    parts.append('/-- the cap test of `process_list_breadth_first`, evaluated before each element: true = stop -/')
    parts.append(f'def collStop (total max_collection_size : Int) : Bool :=\n  {tr.expr(brk[0].test)}\n')
    f = find_def(vp, 'process_dict_breadth_first')
    if not same_shape(f, DICT_TEMPLATE):
        raise Untranslatable('process_dict_breadth_first changed shape')
    # safe_str
    f = find_def(vp, 'safe_str')
    handlers = [n for n in ast.walk(f) if isinstance(n, ast.ExceptHandler)]
    if len(handlers) != 1 or handlers[0].type is None:
        raise Untranslatable('safe_str: expected one typed except clause')
    cls_name = ast.unparse(handlers[0].type)
    b = [s for s in f.body if not (isinstance(s, ast.Expr) and isinstance(s.value, ast.Constant))]
    tmpl = ast.parse(textwrap.dedent(SAFE_STR_TEMPLATE.format(cls=cls_name))).body
    if [ast.dump(x) for x in b] != [ast.dump(x) for x in tmpl]:
        raise Untranslatable('safe_str changed shape')
    parts.append('/-- the exception class `safe_str` catches around `str(value)` -/')
    parts.append(f'def safeStrCatches : String := {lean_str(cls_name)}\n')
    # variable_to_string: which rendering
    f = find_def(vp, 'variable_to_string')
    len_guarded = [False]

    class Unguard(ast.NodeTransformer):
        """`try: return <len rendering>  except Exception: return safe_str(var_value)`  ->  `return <len rendering>`"""

        def visit_Try(self, n):
            hs = n.handlers
            if (len(n.body) == 1 and isinstance(n.body[0], ast.Return) and 'len(var_value)' in ast.unparse(n.body[0])
                    and len(hs) == 1 and hs[0].type is not None and ast.unparse(hs[0].type) == 'Exception'
                    and [ast.unparse(x) for x in hs[0].body] == ['return safe_str(var_value)']
                    and not n.orelse and not n.finalbody):
                len_guarded[0] = True
                return n.body[0]
            raise Untranslatable('variable_to_string: unexpected try statement')
    f = Unguard().visit(f)

    def ret(e, node):
        src = ast.unparse(node)
        if isinstance(node, ast.BinOp) and isinstance(node.op, ast.Mod) and isinstance(node.left, ast.Constant) \
                and isinstance(node.left.value, str) and node.left.value.count('%s') == 1 \
                and node.left.value.count('%') == 1:
            pre, post = node.left.value.split('%s')
            if ast.unparse(node.right) == 'variable_type':
                return f'Render.typeFmt {lean_str(pre)} {lean_str(post)}'
            if ast.unparse(node.right) == 'len(var_value)':
                return f'Render.lenFmt {lean_str(pre)} {lean_str(post)}'
        if src == 'safe_str(var_value)':
            return 'Render.safeStr'
        raise Untranslatable('variable_to_string returns ' + src)
    tr = CTranslator(subst={'variable_type.__name__': 'tyName', 'variable_type is dict': 'isDictExact',
                            'ITER_LIKE_TYPES': 'iterLikeTypes', 'LIST_LIKE_TYPES': 'listLikeTypes'},
                     calls={'safe_str': lambda a: 'safeStr'}, ret=ret)
    parts.append('/-- how `variable_to_string` renders a value: the text of its type between two literals, its `len`\n'
                 '    between two literals, or `safe_str` -/\n'
                 'inductive Render\n  | typeFmt (pre post : String)\n  | lenFmt (pre post : String)\n  | safeStr\n'
                 'deriving DecidableEq, Repr\n')
    parts.append(tr.function(f, 'def renderKind (tyName : String) (isDictExact : Bool) : Render'))
    parts.append('/-- `variable_to_string` catches `Exception` around `len(value)` and falls back to `safe_str` -/\n'
                 f'def lenGuarded : Bool := {"true" if len_guarded[0] else "false"}\n')
    # find_children_for_parent: order of the kind tests
    f = find_def(vp, 'find_children_for_parent')
    b = body_no_doc(f)
    if len(b) != 1 or not isinstance(b[0], ast.If):
        raise Untranslatable('find_children_for_parent changed shape')
    known = {
        ('variable_type is dict',
         'return process_dict_breadth_first(parent_node, variable_type.__name__, value)'): '.dictExact',
        ('variable_type.__name__ in LIST_LIKE_TYPES',
         'return process_list_breadth_first(var_collector, parent_node, value)'): '.listLike',
        ('isinstance(value, Exception)',
         'return process_list_breadth_first(var_collector, parent_node, value.args)'): '.isException',
        ("hasattr(value, '__dict__')",
         'return process_dict_breadth_first(parent_node, variable_type.__name__, value.__dict__, correct_names)'):
            '.hasDict',
    }
    order = []
    node = b[0]
    while True:
        key = (ast.unparse(node.test), ast.unparse(node.body[0]) if len(node.body) == 1 else '?')
        if key not in known:
            raise Untranslatable('find_children_for_parent branch: %s -> %s' % key)
        order.append(known[key])
        if len(node.orelse) == 1 and isinstance(node.orelse[0], ast.If):
            node = node.orelse[0]
            continue
        tail = [s for s in node.orelse if not (isinstance(s, ast.Expr) and isinstance(s.value, ast.Call)
                                               and ast.unparse(s.value.func).startswith('logging.'))]
        if [ast.unparse(s) for s in tail] != ['return []']:
            raise Untranslatable('find_children_for_parent: final else')
        break
    parts.append('/-- the kind tests of `find_children_for_parent`, in source order -/\n'
                 'inductive Branch | dictExact | listLike | isException | hasDict\nderiving DecidableEq, Repr\n\n'
                 f'def childBranches : List Branch := [{", ".join(order)}]\n')


def gen_scopes(parts, vsp, ac, sa, fc):
    # where the identity cache and the table of a snapshot action come from
    pa = find_def(sa, 'SnapshotActionContext._process_action')
    calls = [n for n in ast.walk(pa) if isinstance(n, ast.Call) and ast.unparse(n.func) == 'collector.collect']
    if len(calls) != 1 or len(calls[0].args) != 2:
        raise Untranslatable('_process_action: collector.collect(..) call')
    table_src, cache_src = (ast.unparse(a) for a in calls[0].args)
    init = find_def(ac, 'ActionContext.__init__')
    init_lines = [ast.unparse(s) for s in init.body]
    own_cache = 'self.var_cache = VariableCacheProvider()' in init_lines
    uses = set()
    for fn in ('ActionContext.eval_watch', 'ActionContext.process_capture_variable'):
        f = find_def(ac, fn)
        for n in ast.walk(f):
            if isinstance(n, ast.Call) and ast.unparse(n.func) == 'VariableSetProcessor':
                if len(n.args) < 2 or ast.unparse(n.args[0]) != '{}':
                    raise Untranslatable(fn + ': VariableSetProcessor(..) arguments')
                uses.add(ast.unparse(n.args[1]))
                lim = ast.unparse(n.args[2]) if len(n.args) > 2 else '<default>'
                uses.add('limits:' + lim)
    caches = {u for u in uses if not u.startswith('limits:')} | {cache_src}
    if caches == {'self.var_cache'} and own_cache:
        cscope = '.perAction'
    elif caches == {'self.trigger_context.var_cache'}:
        cscope = '.perTrigger'
    else:
        raise Untranslatable('identity cache comes from %s' % sorted(caches))
    if table_src == '{}':
        tscope = '.perAction'
    elif table_src == 'self.trigger_context.vars':
        tscope = '.perTrigger'
    else:
        raise Untranslatable('table comes from ' + table_src)
    limits = {u[len('limits:'):] for u in uses if u.startswith('limits:')}
    if limits == {'self.collection_config'}:
        lim = 'true'
    elif limits == {'<default>'}:
        lim = 'false'
    else:
        raise Untranslatable('limits of watch/capture processors: %s' % sorted(limits))
    # the nested log context of a snapshot action shares cache and limits with it
    pa_lines = [ast.unparse(s) for s in ast.walk(pa) if isinstance(s, ast.Assign)]
    log_cache = 'context.var_cache = self.var_cache' in pa_lines or cscope == '.perTrigger'
    log_limits = 'context.collection_config = self.collection_config' in pa_lines
    parts.append('/-- where a snapshot action takes its identity cache and its table from -/\n'
                 'inductive Scope | perAction | perTrigger\nderiving DecidableEq, Repr\n\n'
                 f'def cacheScope : Scope := {cscope}\n'
                 f'def tableScope : Scope := {tscope}\n'
                 '/-- watch, log-field and capture values are collected with the limits of the action -/\n'
                 f'def watchesUseActionLimits : Bool := {lim}\n'
                 f'def logUsesActionCache : Bool := {"true" if log_cache else "false"}\n'
                 f'def logUsesActionLimits : Bool := {"true" if log_limits else "false"}\n')
    # channels between actions other than cache and table: the limits object
    cc_ = find_def(sa, 'SnapshotActionContext.collection_config')
    first = [x for x in body_no_doc(cc_)][0]
    fresh = ast.unparse(first) == 'config = VariableProcessorConfig()'
    n_args = [len(n.args) + len(n.keywords) for f_ in (find_def(ac, 'ActionContext.eval_watch'),
                                                       find_def(ac, 'ActionContext.process_capture_variable'),
                                                       find_def(fc, 'FrameCollector._process_frame'))
              for n in ast.walk(f_) if isinstance(n, ast.Call) and ast.unparse(n.func) == 'VariableSetProcessor']
    parts.append('/-- `collection_config` builds a NEW `VariableProcessorConfig` on every read (no limits object shared between\n'
                 '    actions or threads) -/\n'
                 f'def configFreshPerRead : Bool := {"true" if fresh else "false"}\n'
                 '/-- every `VariableSetProcessor` is given its config explicitly (the shared default-argument instance of its\n'
                 '    constructor is never used) -/\n'
                 f'def processorsGetConfig : Bool := {"true" if n_args and all(k == 3 for k in n_args) else "false"}\n')
    # hold(): processed roots are kept alive while the cache is in use
    pv = find_def(vsp, 'VariableSetProcessor.process_variable')
    b = body_no_doc(pv)
    lines = [ast.unparse(s) for s in b]
    holds = False
    if 'self.__var_cache.hold(value)' in lines:
        i = lines.index('self.__var_cache.hold(value)')
        j = lines.index('check_id = self.__var_cache.check_id(identity_hash_id)') \
            if 'check_id = self.__var_cache.check_id(identity_hash_id)' in lines else -1
        try:
            hold = find_def(vsp, 'VariableCacheProvider.hold')
            holds = same_shape(hold, 'self.__held.append(value)') and (j < 0 or i < j)
        except Untranslatable:
            holds = False
    parts.append('/-- `process_variable` keeps every root value alive in the cache provider (`hold`), so the identity\n'
                 '    (`id()`) of a recorded object cannot be reused while the cache is in use -/\n'
                 f'def holdsRoots : Bool := {"true" if holds else "false"}\n')
    if lines[0] != 'identity_hash_id = str(id(value))':
        raise Untranslatable('process_variable: identity is no longer str(id(value))')
    # eval_watch: guard for an exhausted budget
    ew = find_def(ac, 'ActionContext.eval_watch')
    msg = None
    for n in ast.walk(ew):
        if isinstance(n, ast.If) and ast.unparse(n.test) == 'variable_id.vid is None' and len(n.body) == 1 \
                and isinstance(n.body[0], ast.Return):
            r = n.body[0].value
            if isinstance(r, ast.Tuple) and isinstance(r.elts[0], ast.Call) \
                    and ast.unparse(r.elts[0].func) == 'WatchResult' and len(r.elts[0].args) == 4 \
                    and ast.unparse(r.elts[0].args[2]) == 'None' and isinstance(r.elts[0].args[3], ast.Constant) \
                    and ast.unparse(r.elts[1]) == '{}':
                msg = r.elts[0].args[3].value
    parts.append('/-- `eval_watch`: a watch whose root got no id (budget exhausted) becomes an error result with this text;\n'
                 '    `none` = no such guard (the result is sent with no id) -/\n'
                 f'def watchLimitError : Option String := {("some " + lean_str(msg)) if msg is not None else "none"}\n')
    handlers = [ast.unparse(h.type) for h in ast.walk(ew) if isinstance(h, ast.ExceptHandler) and h.type is not None]
    parts.append('/-- `eval_watch` contains failures of evaluation and collection of one watch -/\n'
                 f'def watchCatches : List String := {lean_const(handlers)}\n')
    cap = find_def(ac, 'ActionContext.process_capture_variable')
    cmsg = None
    for n in ast.walk(cap):
        if isinstance(n, ast.If) and ast.unparse(n.test) == 'variable_id.vid is None' and len(n.body) == 1 \
                and isinstance(n.body[0], ast.Return):
            r = n.body[0].value
            if isinstance(r, ast.Tuple) and isinstance(r.elts[0], ast.Call) \
                    and ast.unparse(r.elts[0].func) == 'WatchResult' and len(r.elts[0].args) == 4 \
                    and ast.unparse(r.elts[0].args[2]) == 'None' and isinstance(r.elts[0].args[3], ast.Constant) \
                    and ast.unparse(r.elts[1]) == '{}':
                cmsg = r.elts[0].args[3].value
        elif isinstance(n, ast.If) and 'vid is None' in ast.unparse(n.test):
            raise Untranslatable('process_capture_variable: guard of an unknown shape')
    if any(isinstance(n, ast.Try) for n in ast.walk(cap)):
        raise Untranslatable('process_capture_variable: unexpected try statement')
    parts.append('/-- `process_capture_variable` has the same guard (`none` = no guard: the result is attached with no id);\n'
                 '    a failure of the collection itself is not contained there -/\n'
                 f'def captureLimitError : Option String := {("some " + lean_str(cmsg)) if cmsg is not None else "none"}\n')
    # frame unwrap
    pf = find_def(fc, 'FrameCollector._process_frame')
    src = [ast.unparse(s) for s in ast.walk(pf) if isinstance(s, (ast.Assign, ast.Delete, ast.If))]
    need = ["variable, log_str = processor.process_variable('locals', f_locals)",
            'variable_val = var_lookup[variable.vid]', 'del var_lookup[variable.vid]',
            'var_ids = variable_val.children']
    for l in need:
        if l not in src:
            raise Untranslatable('_process_frame: missing `%s`' % l)
    # the class name of `self`: guarded read or not
    guarded = None
    for n in ast.walk(pf):
        if isinstance(n, ast.If) and ast.unparse(n.test).startswith('_self is not None'):
            test = ast.unparse(n.test)
            if test == "_self is not None and hasattr(_self, '__class__')" \
                    and [ast.unparse(x) for x in n.body] == ['class_name = _self.__class__.__name__']:
                guarded = False       # hasattr() only swallows AttributeError: any other exception of the read escapes
            elif test == '_self is not None' and len(n.body) == 1 and isinstance(n.body[0], ast.Try):
                t = n.body[0]
                if ([ast.unparse(x) for x in t.body] == ['class_name = _self.__class__.__name__'] and len(t.handlers) == 1
                        and t.handlers[0].type is not None and ast.unparse(t.handlers[0].type) in ('BaseException', 'Exception')
                        and [ast.unparse(x) for x in t.handlers[0].body] == ['class_name = None']
                        and not t.orelse and not t.finalbody):
                    guarded = True
    if guarded is None:
        raise Untranslatable('_process_frame: the class-name read of `self` changed shape')
    parts.append('/-- `_process_frame` reads `_self.__class__.__name__` inside try/except (a read that raises gives no class name);\n'
                 '    false = the read is only behind `hasattr`, which lets every exception but AttributeError escape -/\n'
                 f'def selfClassGuarded : Bool := {"true" if guarded else "false"}\n')
    parts.append('/-- `_process_frame` collects the frame as one dict named "locals", removes that entry from the table and\n'
                 '    puts its children on the frame -/\n'
                 'def localsName : String := "locals"\n')


NOTE = '''/-
  Expressions of the source that CAN raise on host objects, and how this translation / the model treat them:

  modelled as probes with a "raises" outcome (Heap.Probe), guarded or not as the extracted constants say:
    str(value) [safeStrCatches], len(value) [lenGuarded], tuple(value), isinstance(value, Exception), value.args,
    hasattr(value, '__dict__'), value.__dict__ [childrenGuarded], _self.__class__.__name__ [selfClassGuarded].

  ASSUMED NOT TO RAISE (facts of the model that have no "raises" outcome — the domain of every "for every heap" theorem):
    type(value).__name__ and str(type(value))   (PyObj.tyName / tyRepr: a metaclass whose `__name__` / `__repr__` raises)
    name.startswith(..), name[len(prefix):]     (var_modifiers / correct_names on a key that is an instance of a str
                                                 SUBCLASS overriding these methods)
    len(text), text[:n]                         (truncate_string on the result of str(value) when `__str__` returns an
                                                 instance of a str subclass overriding `__len__` / `__getitem__`)
    list(d.keys()), k in d, d[k] of an exact dict  (guarded by childrenGuarded in the source; PyObj.dictItems is a plain list,
                                                 defined as what that idiom yields and EMPTY when it raises — a key whose
                                                 `__hash__` raises after insertion: the walker applies the guard, not the model)
    id(value), type(value), str(total), frame.f_locals / f_lineno / f_code  (cannot run host code)
  The first three are unguarded in the source (notes/probes/p20_c06_assumed_not_to_raise.py shows each aborting a snapshot).
-/
'''


def generate():
    vp, vsp, bfs = load(VP), load(VSP), load(BFS)
    ac, sa, fc = load(AC), load(SA), load(FC)
    parts = [header('variable collector decision logic', [VP, VSP, BFS, FC, AC, SA]), NOTE, 'namespace Extracted.Collector\n']
    gen_lists(parts, vp)
    gen_defaults(parts, vsp, sa)
    gen_queue(parts, bfs)
    gen_translated(parts, vp, vsp)
    gen_scopes(parts, vsp, ac, sa, fc)
    parts.append('end Extracted.Collector\n')
    return '\n'.join(parts)
