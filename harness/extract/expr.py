"""Extracted/Expr.lean — how the agent evaluates conditions / expressions and what it does with the results
(C10, C16, C17), regenerated from the current sources:

  utils.str2bool                                  -> translated
  ActionContext.can_trigger                       -> translated, eval oracle as a parameter, oracle calls counted
  ActionContext.process / __exit__ / has_triggered -> checked shapes (process always marks triggered; exit records iff)
  TriggerContext.evaluate_expression              -> checked shape: eval(expr, <globals>, <locals>), what is caught
  LogActionContext.process_log                    -> checked shape: prefix text, formatter call
  LogActionResult.process                         -> argument order of log_tracepoint vs the TracepointLogger signature
  PythonPlugin.log_tracepoint                     -> the default logger's line
  MetricActionContext.*                           -> _convert_type translated, can_trigger translated, call argument
                                                     order vs MetricProcessor signatures, namespace default, value
                                                     default, 'expression failed' text, per-processor guard
  SnapshotActionContext._process_action           -> checked: log_msg branch present, shares the cache, attaches result
"""
import ast

from pylean import (Translator, Untranslatable, load, find_def, same_shape, header, lean_str)

OUT = 'DeepModel/Extracted/Expr.lean'
UTILS = 'src/deep/utils.py'
ACTX = 'src/deep/processor/context/action_context.py'
TCTX = 'src/deep/processor/context/trigger_context.py'
LOGA = 'src/deep/processor/context/log_action.py'
META = 'src/deep/processor/context/metric_action.py'
SNAP = 'src/deep/processor/context/snapshot_action.py'
PLUG = 'src/deep/api/plugin/__init__.py'
PYPL = 'src/deep/api/plugin/python.py'
MPRO = 'src/deep/api/plugin/metric/__init__.py'

ORACLE = 'self.trigger_context.evaluate_expression'


class ExprTranslator(Translator):
    """pylean.Translator + (a) `x in (a, b, c)` against a tuple display, (b) counting of eval-oracle calls:
    every statement that contains a call of ORACLE bumps the local `evals`; returns are pairs (value, evals)."""

    def __init__(self, count_oracle=False, **kw):
        super().__init__(**kw)
        self.count_oracle = count_oracle

    def e_Compare(self, n):
        if len(n.ops) == 1 and isinstance(n.ops[0], (ast.In, ast.NotIn)) \
                and isinstance(n.comparators[0], (ast.Tuple, ast.List)):
            lst = '[' + ', '.join(self.expr(e) for e in n.comparators[0].elts) + ']'
            t = f'(List.contains {lst} {self.expr(n.left)})'
            return t if isinstance(n.ops[0], ast.In) else f'(!{t})'
        return super().e_Compare(n)

    # -- oracle call counting
    def _oracle_calls(self, node):
        if node is None:
            return 0
        k = 0
        for x in ast.walk(node):
            if isinstance(x, ast.Call) and ast.unparse(x.func) == ORACLE:
                k += 1
        return k

    def _unconditional(self, node):
        """oracle calls must not sit under a short-circuit operator or a conditional expression."""
        for x in ast.walk(node):
            if isinstance(x, ast.BoolOp):
                for v in x.values[1:]:
                    if self._oracle_calls(v):
                        raise Untranslatable('eval oracle call under short-circuit: ' + ast.unparse(node)[:80])
            if isinstance(x, ast.IfExp) and (self._oracle_calls(x.body) or self._oracle_calls(x.orelse)):
                raise Untranslatable('eval oracle call under a conditional expression: ' + ast.unparse(node)[:80])

    def block(self, stmts, k):
        if self.count_oracle and stmts:
            s = stmts[0]
            node = None
            if isinstance(s, (ast.Assign, ast.Return)):
                node = s.value
            elif isinstance(s, ast.If):
                node = s.test
            elif isinstance(s, ast.Expr) and not isinstance(s.value, ast.Constant):
                node = s.value
            n = self._oracle_calls(node)
            if n:
                self._unconditional(node)
                bump = f'let evals := evals + {n}\n'
                if isinstance(s, ast.Assign) and len(s.targets) == 1 and isinstance(s.targets[0], ast.Name):
                    name = self.names.get(s.targets[0].id, s.targets[0].id)
                    return f'let {name} := {self.expr(s.value)}\n{bump}{self.block(stmts[1:], k)}'
                if isinstance(s, ast.Expr):
                    return bump + self.block(stmts[1:], k)        # value unused; the call still happened
                if isinstance(s, (ast.Return, ast.If)):
                    return bump + super().block(stmts, k)         # base class handles stmts[0], recursion is ours
                raise Untranslatable('eval oracle call in ' + ast.unparse(s)[:80])
        return super().block(stmts, k)


def _isinstance(a):
    # `isinstance(result, BaseException)`: the result object is an exception (evaluation failed, or the expression's
    # value is itself an exception instance)
    if len(a) == 2 and a[1] == 'BaseException':
        return f'(Outcome.isExc {a[0]})'
    raise Untranslatable('isinstance against ' + (a[1] if len(a) > 1 else '?'))


def _single_return(fdef, what):
    body = [s for s in fdef.body if not (isinstance(s, ast.Expr) and isinstance(s.value, ast.Constant))]
    if len(body) != 1 or not isinstance(body[0], ast.Return):
        raise Untranslatable(f'{what} is no longer a single return')
    return body[0].value


def _params(fdef):
    return [a.arg for a in fdef.args.args if a.arg != 'self']


# ------------------------------------------------------------------------------------------------ parts
def part_str2bool():
    f = find_def(load(UTILS), 'str2bool')
    # `str(string)`: the argument is text on every path modelled here (the condition path passes `str(result)`), on
    # text `str` is the identity
    tr = ExprTranslator(calls={'str': lambda a: a[0]})
    return ('/-- `deep.utils.str2bool` -/\n' +
            tr.function(f, 'def str2bool (string : String) : Bool'))


def part_can_trigger():
    tree = load(ACTX)
    f = find_def(tree, 'ActionContext.can_trigger')
    cond = 'self.location_action.condition'
    tr = ExprTranslator(
        count_oracle=True,
        subst={cond + ' is None': 'condition.isNone', cond: '(condition.getD "")',
               'self.trigger_context.ts': 'ts'},
        calls={'self.location_action.can_trigger': lambda a: 'limitsAllow',
               ORACLE: lambda a: f'(ev {a[0]})',
               'str2bool': lambda a: f'(str2bool {a[0]})',
               'str': lambda a: f'(Outcome.text {a[0]})',
               'isinstance': _isinstance},
        ret=lambda e, node: f'({e}, evals)')
    body = tr.function(f, 'def canTrigger (limitsAllow : Bool) (condition : Option String) (ev : String → Outcome) '
                          ': Bool × Nat')
    body = body.replace(':=\n', ':=\n  let evals : Nat := 0\n', 1)
    out = ['/-- `ActionContext.can_trigger`: `limitsAllow` stands for `location_action.can_trigger(ts)`\n'
           '    (Extracted.Limiter.canTrigger), `ev` is the eval oracle (`evaluate_expression`: the value, or the\n'
           '    exception object when evaluation failed).  Second component: number of oracle calls made. -/\n' + body]
    # the glue around it: process() always marks the action as triggered, __exit__ records iff triggered
    checks = [
        ('ActionContext.process', 'try:\n    return self._process_action()\nfinally:\n    self._triggered = True\n'),
        ('ActionContext.has_triggered', 'return self._triggered'),
        ('ActionContext.__exit__',
         'if self.has_triggered():\n    self.location_action.record_triggered(self.trigger_context.ts)\n'),
    ]
    for q, tpl in checks:
        if not same_shape(find_def(tree, q), tpl):
            raise Untranslatable(f'{q} changed shape')
    init = find_def(tree, 'ActionContext.__init__')
    if not any(isinstance(s, ast.Assign) and ast.unparse(s) == 'self._triggered = False' for s in init.body):
        raise Untranslatable('ActionContext.__init__ no longer starts with _triggered = False')
    out.append('/-- checked shapes: `process` = try _process_action finally triggered := True;\n'
               '    `__exit__` = if triggered then record_triggered(ts);  initially not triggered -/\n'
               'def processMarksTriggeredAlways : Bool := true\n'
               'def exitRecordsIffTriggered : Bool := true\n')
    return '\n'.join(out)


def part_evaluate():
    f = find_def(load(TCTX), 'TriggerContext.evaluate_expression')
    body = [s for s in f.body if not (isinstance(s, ast.Expr) and isinstance(s.value, ast.Constant))]
    if len(body) != 1 or not isinstance(body[0], ast.Try) or body[0].finalbody or body[0].orelse:
        raise Untranslatable('evaluate_expression is no longer a single try/except')
    t = body[0]
    if len(t.body) != 1 or not isinstance(t.body[0], ast.Return) or not isinstance(t.body[0].value, ast.Call):
        raise Untranslatable('evaluate_expression: try body is not `return eval(...)`')
    call = t.body[0].value
    if ast.unparse(call.func) != 'eval' or call.keywords or len(call.args) not in (1, 2, 3):
        raise Untranslatable('evaluate_expression: not a positional call of eval: ' + ast.unparse(call))
    params = _params(f)
    if len(params) != 1 or ast.unparse(call.args[0]) != params[0]:
        raise Untranslatable('evaluate_expression: first argument of eval is not the expression parameter')

    def classify(node):
        if node is None:
            return None
        src = ast.unparse(node)
        if src == 'None':
            return None
        frame = 'self.__frame'
        for attr, tag in (('f_globals', '.frameGlobals'), ('f_locals', '.frameLocals')):
            if src in (f'{frame}.{attr}', f"getattr({frame}, '{attr}', None)"):
                return tag
        raise Untranslatable('evaluate_expression: unknown environment argument ' + src)
    g = classify(call.args[1] if len(call.args) > 1 else None)
    loc = classify(call.args[2] if len(call.args) > 2 else None)
    # eval(e, None|absent, L): globals default to the CALLER's globals = the agent module's;
    # eval(e, G) with no locals: locals = G
    g_l = g or '.agentGlobals'
    l_l = loc or (g if g else '.agentLocals')
    if len(t.handlers) != 1:
        raise Untranslatable('evaluate_expression: expected one except clause')
    h = t.handlers[0]
    cls = ast.unparse(h.type) if h.type is not None else 'BaseException'
    catches = {'BaseException': '.base', 'Exception': '.exc'}.get(cls)
    if catches is None:
        raise Untranslatable('evaluate_expression: except clause catches ' + cls)
    returns_exc = (len(h.body) == 1 and isinstance(h.body[0], ast.Return) and h.name is not None
                   and ast.unparse(h.body[0].value) == h.name)
    if not returns_exc:
        raise Untranslatable('evaluate_expression: handler no longer returns the exception')
    return ('/-- where an environment handed to `eval` comes from -/\n'
            'inductive EnvSrc | frameGlobals | frameLocals | agentGlobals | agentLocals\n'
            'deriving DecidableEq, Repr\n\n'
            '/-- `TriggerContext.evaluate_expression`: `eval(expression, <evalGlobals>, <evalLocals>)`;\n'
            '    (an omitted / `None` globals argument means the globals of the calling module — the agent\'s) -/\n'
            f'def evalGlobals : EnvSrc := {g_l}\n'
            f'def evalLocals : EnvSrc := {l_l}\n'
            '/-- the except clause around it, and that the handler returns the exception object as the result -/\n'
            f'def evalCatches : Py.Exn := {catches}\n'
            'def evalReturnsException : Bool := true\n')


def part_eval_sites():
    """every call of the builtins eval / exec / compile anywhere in the agent's sources"""
    import os
    from pylean import REPO
    root = os.path.join(REPO, 'src', 'deep')
    sites = []
    for dirpath, _, files in sorted(os.walk(root)):
        for fn in sorted(files):
            if not fn.endswith('.py'):
                continue
            rel = os.path.relpath(os.path.join(dirpath, fn), REPO)
            tree = load(rel)

            def visit(node, qual):
                for ch in ast.iter_child_nodes(node):
                    q = qual
                    if isinstance(ch, (ast.FunctionDef, ast.AsyncFunctionDef, ast.ClassDef)):
                        q = (qual + '.' if qual else '') + ch.name
                    if isinstance(ch, ast.Call) and isinstance(ch.func, ast.Name) and ch.func.id in ('eval', 'exec', 'compile'):
                        sites.append(f'{rel}:{qual}:{ch.func.id}')
                    visit(ch, q)
            visit(tree, '')
    return ('/-- every call of `eval` / `exec` / `compile` in src/deep (file:function:builtin) -/\n'
            'def evalSites : List String := [' + ', '.join(lean_str(x) for x in sites) + ']\n')


def part_log():
    tree = load(LOGA)
    # process_log: the last assignment builds the message
    pl = find_def(tree, 'LogActionContext.process_log')
    msg_stmt = None
    for s in pl.body:
        if isinstance(s, ast.Assign) and ast.unparse(s.targets[0]) == 'log_msg':
            msg_stmt = s
    want = "'[deep] %s' % FormatExtractor().vformat(log_msg, (), FormatDict(self.trigger_context.locals))"
    if msg_stmt is None or not isinstance(msg_stmt.value, ast.BinOp) or not isinstance(msg_stmt.value.op, ast.Mod) \
            or not isinstance(msg_stmt.value.left, ast.Constant) or not isinstance(msg_stmt.value.left.value, str):
        raise Untranslatable('process_log: message is no longer `<text> % formatter.vformat(...)`')
    fmt = msg_stmt.value.left.value
    if fmt.count('%s') != 1 or '%' in fmt.replace('%s', ''):
        raise Untranslatable('process_log: prefix format changed: %r' % fmt)
    if ast.unparse(msg_stmt.value.right) != want.split(' % ', 1)[1]:
        raise Untranslatable('process_log: formatter call changed: ' + ast.unparse(msg_stmt.value.right))
    pre, post = fmt.split('%s')
    rets = [s for s in pl.body if isinstance(s, ast.Return)]
    if len(rets) != 1 or ast.unparse(rets[0].value) != '(log_msg, watch_results, _var_lookup)':
        raise Untranslatable('process_log: return value changed')
    # FormatExtractor.get_field: evaluates the whole field text as a LOG watch, returns its log string
    fe = None
    for n in ast.walk(pl):
        if isinstance(n, ast.ClassDef) and n.name == 'FormatExtractor':
            fe = n
    if fe is None or [ast.unparse(b) for b in fe.bases] != ['string.Formatter']:
        raise Untranslatable('process_log: FormatExtractor is no longer a string.Formatter')
    meths = [m for m in fe.body if isinstance(m, ast.FunctionDef)]
    if [m.name for m in meths] != ['get_field']:
        raise Untranslatable('FormatExtractor overrides %s' % [m.name for m in meths])
    gf_tpl = ('watch, var_lookup, log_str = ctx_self.eval_watch(field_name, WATCH_SOURCE_LOG)\n'
              'watch_results.append(watch)\n_var_lookup.update(var_lookup)\nreturn (log_str, field_name)\n')
    if not same_shape(meths[0], gf_tpl):
        raise Untranslatable('FormatExtractor.get_field changed shape')
    # LogActionResult.process: argument order of the logger call
    pr = find_def(tree, 'LogActionResult.process')
    calls = [n for n in ast.walk(pr) if isinstance(n, ast.Call) and isinstance(n.func, ast.Attribute)
             and n.func.attr == 'log_tracepoint']
    if len(calls) != 1 or calls[0].keywords:
        raise Untranslatable('LogActionResult.process: expected one positional log_tracepoint call')
    srcmap = {'self.log': '.msg', 'self.action.id': '.tpId', 'ctx.id': '.ctxId'}
    args = []
    for a in calls[0].args:
        s = ast.unparse(a)
        if s not in srcmap:
            raise Untranslatable('log_tracepoint argument ' + s)
        args.append(srcmap[s])
    sig = find_def(load(PLUG), 'TracepointLogger.log_tracepoint')
    pmap = {'log_msg': '.msg', 'tp_id': '.tpId', 'ctx_id': '.ctxId'}
    ps = _params(sig)
    if any(p not in pmap for p in ps):
        raise Untranslatable('TracepointLogger.log_tracepoint parameters %s' % ps)
    # the default logger (PythonPlugin)
    dl = find_def(load(PYPL), 'PythonPlugin.log_tracepoint')
    body = [s for s in dl.body if not (isinstance(s, ast.Expr) and isinstance(s.value, ast.Constant))]
    ok = (len(body) == 1 and isinstance(body[0], ast.Expr) and isinstance(body[0].value, ast.Call)
          and ast.unparse(body[0].value.func) == 'logging.info' and len(body[0].value.args) == 1
          and not body[0].value.keywords)
    line = None
    if ok:
        e = body[0].value.args[0]
        if isinstance(e, ast.BinOp) and isinstance(e.op, ast.Add) and isinstance(e.left, ast.Name) \
                and isinstance(e.right, ast.BinOp) and isinstance(e.right.op, ast.Mod) \
                and isinstance(e.right.left, ast.Constant) and isinstance(e.right.left.value, str) \
                and isinstance(e.right.right, ast.Tuple) and all(isinstance(x, ast.Name) for x in e.right.right.elts):
            f2 = e.right.left.value
            names = [x.id for x in e.right.right.elts]
            pieces = f2.split('%s')
            dps = _params(dl)
            if len(pieces) == len(names) + 1 and '%' not in ''.join(pieces) and e.left.id in dps \
                    and all(n in dps for n in names) and dps == ps:
                lean_names = {dps[0]: 'msg', dps[1]: 'tp', dps[2]: 'ctx'}
                line = lean_names[e.left.id]
                for p, n in zip(pieces, names):
                    line += f' ++ {lean_str(p)} ++ {lean_names[n]}'
                if pieces[-1]:
                    line += f' ++ {lean_str(pieces[-1])}'
    if line is None:
        raise Untranslatable('PythonPlugin.log_tracepoint changed shape')
    # LogActionContext._process_action, LogActionResult.process, the log branch of the snapshot action: checked
    # shapes, then written out as definitions (`process_log` itself is a parameter: Model/Template.render)
    if not same_shape(find_def(tree, 'LogActionContext._process_action'),
                      'log_msg = self.location_action.config.get(LOG_MSG)\n'
                      'log, watches, vars_ = self.process_log(log_msg)\n'
                      'self.trigger_context.attach_result(LogActionResult(self.location_action, log))\n'):
        raise Untranslatable('LogActionContext._process_action changed shape')
    prb = [x for x in pr.body if not (isinstance(x, ast.Expr) and isinstance(x.value, ast.Constant))]
    if not (len(prb) == 3 and ast.unparse(prb[0]) == 'tracepoint_logger = ctx.config.tracepoint_logger'
            and isinstance(prb[1], ast.If) and not prb[1].orelse and len(prb[1].body) == 1
            and prb[1].body[0].value is calls[0] and ast.unparse(prb[2]) == 'return None'):
        raise Untranslatable('LogActionResult.process changed shape')
    test = ast.unparse(prb[1].test)
    if test == 'tracepoint_logger':
        logger_test = '.truthy'
    elif test == 'tracepoint_logger is not None':
        logger_test = '.notNone'
    else:
        raise Untranslatable('LogActionResult.process: logger test ' + test)
    spa = find_def(load(SNAP), 'SnapshotActionContext._process_action')
    branch = None
    for n in spa.body:
        if isinstance(n, ast.If) and ast.unparse(n.test) == 'log_msg is not None' and not n.orelse:
            branch = n
    want_branch = [
        'context = LogActionContext(self.trigger_context, LocationAction(self.location_action.id, None, '
        '{LOG_MSG: log_msg}, LocationAction.ActionType.Log))',
        'context.var_cache = self.var_cache', 'context.collection_config = self.collection_config',
        'log, watches, log_vars = context.process_log(log_msg)', 'snapshot.log_msg = log',
        'for watch in watches: snapshot.add_watch_result(watch)', 'snapshot.merge_var_lookup(log_vars)',
        'self.trigger_context.attach_result(LogActionResult(context.location_action, log))']
    if branch is None or [' '.join(ast.unparse(x).split()) for x in branch.body] != want_branch:
        raise Untranslatable('SnapshotActionContext._process_action: the log_msg branch changed shape')
    idx = spa.body.index(branch)
    if not any(ast.unparse(x) == 'log_msg = self.log_msg' for x in spa.body[:idx]):
        raise Untranslatable('SnapshotActionContext._process_action: log_msg is no longer self.log_msg')
    actions_part = (
        '/-- what `process_log` gives the actions: the message and the LOG watch results (their expressions) -/\n'
        'structure ProcLog where\n  msg : String\n  watches : List String\nderiving DecidableEq, Repr\n\n'
        '/-- `LogActionContext._process_action` (checked shape, written out): the messages of the LogActionResults it\n'
        '    attaches; `pl = none`: `process_log` raised, nothing is attached. -/\n'
        'def logActionAttach (pl : Option ProcLog) : List String :=\n'
        '  match pl with\n  | none => []\n  | some r => [r.msg]\n\n'
        '/-- the `log_msg` branch of `SnapshotActionContext._process_action` (checked shape, written out):\n'
        '    (snapshot.log_msg, expressions of the watch results added to the snapshot, messages of the attached\n'
        '    LogActionResults); `none` = `process_log` raised — the exception leaves `_process_action`, no snapshot. -/\n'
        'def snapshotLogBranch (logMsg : Option String) (processLog : String → Option ProcLog) :\n'
        '    Option (Option String × List String × List String) :=\n'
        '  match logMsg with\n  | none => some (none, [], [])\n'
        '  | some t => match processLog t with\n    | none => none\n    | some r => some (some r.msg, r.watches, [r.msg])\n\n'
        '/-- how `LogActionResult.process` decides whether there is a tracepoint logger -/\n'
        'inductive LoggerTest | truthy | notNone\nderiving DecidableEq, Repr\n'
        f'def loggerTest : LoggerTest := {logger_test}\n\n'
        '/-- the configured tracepoint logger: none, an object that is falsy (`__len__` 0 / `__bool__` False), a plain one -/\n'
        'inductive LoggerObj | absent | falsy | plain\nderiving DecidableEq, Repr\n\n')
    # ActionContext.eval_watch: which text a field gets (third component of every returned tuple)
    ew = find_def(load(ACTX), 'ActionContext.eval_watch')
    rets = [n for n in ast.walk(ew) if isinstance(n, ast.Return)]
    srcs = {}
    for r in rets:
        if not (isinstance(r.value, ast.Tuple) and len(r.value.elts) == 3 and isinstance(r.value.elts[0], ast.Call)
                and ast.unparse(r.value.elts[0].func) == 'WatchResult'):
            raise Untranslatable('eval_watch: a return is no longer a (WatchResult, vars, text) tuple: ' +
                                 ast.unparse(r)[:80])
        wargs = r.value.elts[0].args
        third = ast.unparse(r.value.elts[2])
        if len(wargs) == 3:
            kind = 'value'
        elif len(wargs) == 4 and isinstance(wargs[3], ast.Constant) and isinstance(wargs[3].value, str):
            kind = 'limit'
            limit_text = wargs[3].value
        elif len(wargs) == 4 and ast.unparse(wargs[3]) == 'str(e)':
            kind = 'raised'
        else:
            raise Untranslatable('eval_watch: unknown WatchResult shape ' + ast.unparse(r.value.elts[0]))
        if third == 'log_str':
            src = '.logStr'
        elif third == 'str(e)' or isinstance(r.value.elts[2], ast.Constant):
            src = '.errorText'
        else:
            raise Untranslatable('eval_watch: field text is ' + third)
        if kind in srcs:
            raise Untranslatable('eval_watch: two returns of kind ' + kind)
        srcs[kind] = src
    if set(srcs) != {'value', 'limit', 'raised'}:
        raise Untranslatable('eval_watch: returns %s' % sorted(srcs))
    watch_part = ('/-- `ActionContext.eval_watch`: where the text of a field comes from — the log string of the evaluated\n'
                  '    result (`str` of the value, or of the exception when evaluation failed), or an error text — when the\n'
                  '    value was recorded, and when the snapshot\'s variable budget was already spent -/\n'
                  'inductive FieldTextSrc | logStr | errorText\nderiving DecidableEq, Repr\n'
                  f'def watchTextOnValue : FieldTextSrc := {srcs["value"]}\n'
                  f'def watchTextOnLimit : FieldTextSrc := {srcs["limit"]}\n'
                  f'def watchLimitText : String := {lean_str(limit_text)}\n\n')
    # TriggerContext.__exit__: the loop that processes the attached results, and the try around ONE result
    ex = find_def(load(TCTX), 'TriggerContext.__exit__')
    body = [x for x in ex.body if not (isinstance(x, ast.Expr) and isinstance(x.value, ast.Constant))]
    loops = [n for n in ast.walk(ex) if isinstance(n, ast.For)]
    if len(loops) != 1 or ast.unparse(loops[0].iter) != 'self.__results' or loops[0].orelse:
        raise Untranslatable('TriggerContext.__exit__: expected one loop over self.__results')
    loop = loops[0]
    if not any('.process(self)' in ast.unparse(n) for n in ast.walk(loop) if isinstance(n, ast.Call)):
        raise Untranslatable('TriggerContext.__exit__: the loop no longer calls result.process(self)')
    if loop in body and len(loop.body) == 1 and isinstance(loop.body[0], ast.Try) and not loop.body[0].finalbody \
            and len(loop.body[0].handlers) == 1:
        h = loop.body[0].handlers[0]
        cls = ast.unparse(h.type) if h.type is not None else 'BaseException'
        if cls not in ('Exception', 'BaseException') or \
                any(isinstance(x, (ast.Raise, ast.Return, ast.Break)) for st in h.body for x in ast.walk(st)):
            raise Untranslatable('TriggerContext.__exit__: handler of a result ' + cls)
        result_guard = 'some .exc' if cls == 'Exception' else 'some .base'
    elif loop in body:
        result_guard = 'none'            # no try at all around a result
    else:
        # the loop sits inside something else (a try around the WHOLE loop): a failing result ends the loop
        result_guard = 'none'
    watch_part += ('/-- `TriggerContext.__exit__`: the `try` around the processing of ONE attached result inside the loop\n'
                   '    (none = a result that raises ends the loop) -/\n'
                   f'def resultLoopGuard : Option Py.Exn := {result_guard}\n\n')
    # snapshot + log
    sp = find_def(load(SNAP), 'SnapshotActionContext._process_action')
    stmts = set()
    for n in ast.walk(sp):
        if isinstance(n, ast.stmt):
            stmts.add(' '.join(ast.unparse(n).split()))
    for needle in ('log, watches, log_vars = context.process_log(log_msg)', 'snapshot.log_msg = log',
                   'for watch in watches: snapshot.add_watch_result(watch)',
                   'self.trigger_context.attach_result(LogActionResult(context.location_action, log))',
                   'context.var_cache = self.var_cache'):
        if needle not in stmts:
            raise Untranslatable('SnapshotActionContext._process_action: missing `%s`' % needle)
    return (watch_part + actions_part +
            '/-- `LogActionContext.process_log`: message = logPrefix ++ formatted template ++ logSuffix -/\n'
            f'def logPrefix : String := {lean_str(pre)}\n'
            f'def logSuffix : String := {lean_str(post)}\n\n'
            'inductive LogArg | msg | tpId | ctxId\nderiving DecidableEq, Repr\n\n'
            '/-- positional arguments of `tracepoint_logger.log_tracepoint(...)` in `LogActionResult.process` -/\n'
            f'def logCallArgs : List LogArg := [{", ".join(args)}]\n'
            '/-- parameters of `TracepointLogger.log_tracepoint` (what each position means to a logger) -/\n'
            f'def logSignature : List LogArg := [{", ".join(pmap[p] for p in ps)}]\n\n'
            '/-- the line the default logger (`PythonPlugin.log_tracepoint`) writes -/\n'
            f'def defaultLogLine (msg tp ctx : String) : String := {line}\n')


SPANA = 'src/deep/processor/context/span_action.py'

EVAL_WATCH_TEMPLATE = '''
var_processor = VariableSetProcessor({}, self.var_cache, self.collection_config)
try:
    result = self.trigger_context.evaluate_expression(watch)
    variable_id, log_str = var_processor.process_variable(watch, result)
    if variable_id.vid is None:
        return (WatchResult(source, watch, None, %r), {}, log_str)
    return (WatchResult(source, watch, variable_id), var_processor.var_lookup, log_str)
except BaseException as e:
    logging.exception('Error evaluating watch %%s', watch)
    return (WatchResult(source, watch, None, str(e)), {}, str(e))
'''


def part_eval_watch():
    """`ActionContext.eval_watch` (checked shape, then written out): what is reported for one expression"""
    ew = find_def(load(ACTX), 'ActionContext.eval_watch')
    limit_text = None
    for n in ast.walk(ew):
        if isinstance(n, ast.Call) and ast.unparse(n.func) == 'WatchResult' and len(n.args) == 4 \
                and isinstance(n.args[3], ast.Constant) and isinstance(n.args[3].value, str):
            limit_text = n.args[3].value
    if limit_text is None or not same_shape(ew, EVAL_WATCH_TEMPLATE % limit_text):
        raise Untranslatable('ActionContext.eval_watch changed shape')
    return ('/-- what `eval_watch` reports for one expression: the WatchResult (source, expression, has a variable id?,\n'
            '    error text) — and, when it has a variable, that variable\'s type name and value text — and the log string -/\n'
            'structure WatchOut where\n  source : String\n  expr : String\n  hasResult : Bool\n  error : Option String\n'
            '  ty : String\n  value : String\n  logStr : String\nderiving DecidableEq, Repr\n\n'
            '/-- `ActionContext.eval_watch` (checked shape, written out).  `o` = what `evaluate_expression` returned — the\n'
            '    value, or the exception OBJECT when evaluation raised (it is then collected like any other value);\n'
            '    `budgetSpent` = `process_variable` found the variable budget used up (no id); `collectRaises` = collecting\n'
            '    the value raised with this text. -/\n'
            'def evalWatch (source watch : String) (o : Outcome) (budgetSpent : Bool) (collectRaises : Option String) : WatchOut :=\n'
            '  match collectRaises with\n'
            '  | some msg => ⟨source, watch, false, some msg, "", "", msg⟩\n'
            '  | none =>\n'
            f'    if budgetSpent then ⟨source, watch, false, some {lean_str(limit_text)}, "", "", o.text⟩\n'
            '    else ⟨source, watch, true, none, o.ty, o.text, o.text⟩\n')


def part_overrides():
    """every action context class that overrides `can_trigger` (enumerated from the sources), each translated"""
    import os
    from pylean import REPO
    ctxdir = 'src/deep/processor/context'
    found = []
    for fn in sorted(os.listdir(os.path.join(REPO, ctxdir))):
        if not fn.endswith('.py'):
            continue
        tree = load(ctxdir + '/' + fn)
        for n in tree.body:
            if isinstance(n, ast.ClassDef) and n.name != 'ActionContext':
                for m in n.body:
                    if isinstance(m, ast.FunctionDef) and m.name in ('can_trigger', 'has_triggered', 'process', '__exit__',
                                                                     '__enter__'):
                        bases = [ast.unparse(b) for b in n.bases]
                        if any('ActionContext' in b or 'Context' in b for b in bases) and 'Action' in n.name:
                            found.append(f'{n.name}.{m.name}')
    known = {'MetricActionContext.can_trigger', 'SpanActionContext.can_trigger'}
    extra = [f for f in found if f not in known]
    if extra:
        raise Untranslatable('action context overrides that are not modelled: %s' % extra)

    def ret(e, node):
        if isinstance(node, ast.Constant):
            return f'({e}, 0)'
        return e
    out = ['/-- the action context classes that override the gate (`can_trigger` / `process` / `__exit__`) of\n'
           '    `ActionContext`, enumerated from src/deep/processor/context -/\n'
           'def gateOverrides : List String := [' + ', '.join(lean_str(f) for f in sorted(found)) + ']\n']
    mt = load(META)
    tr = ExprTranslator(calls={'self.__has_metric_processor': lambda a: 'hasProcessor',
                               'super().can_trigger': lambda a: '(base ())'}, ret=ret)
    out.append('/-- `MetricActionContext.can_trigger`; `base` is `ActionContext.can_trigger` (result, oracle calls) -/\n' +
               tr.function(find_def(mt, 'MetricActionContext.can_trigger'),
                           'def metricCanTrigger (hasProcessor : Bool) (base : Unit → Bool × Nat) : Bool × Nat'))
    if not same_shape(find_def(mt, 'MetricActionContext.__has_metric_processor'),
                      'return self.trigger_context.config.has_metric_processor'):
        raise Untranslatable('__has_metric_processor changed shape')
    tr = ExprTranslator(subst={'self.trigger_context.config.has_span_processor': 'hasProcessor'},
                        calls={'super().can_trigger': lambda a: '(base ())'}, ret=ret)
    out.append('/-- `SpanActionContext.can_trigger` -/\n' +
               tr.function(find_def(load(SPANA), 'SpanActionContext.can_trigger'),
                           'def spanCanTrigger (hasProcessor : Bool) (base : Unit → Bool × Nat) : Bool × Nat'))
    return '\n'.join(out)


def part_metric():
    tree = load(META)
    out = []
    ct = find_def(tree, 'MetricActionContext._convert_type')
    out.append('/-- `MetricActionContext._convert_type` -/\n' +
               ExprTranslator().function(ct, f'def convertType ({_params(ct)[0]} : String) : String'))
    # _process_action
    pa = find_def(tree, 'MetricActionContext._process_action')
    body = [s for s in pa.body if not (isinstance(s, ast.Expr) and isinstance(s.value, ast.Constant))]
    if not (len(body) == 2 and ast.unparse(body[0]) == 'metrics = self._metrics()' and isinstance(body[1], ast.For)
            and ast.unparse(body[1].target) == 'metric' and ast.unparse(body[1].iter) == 'metrics'
            and not body[1].orelse):
        raise Untranslatable('_process_action: outer loop is no longer `for metric in self._metrics()`')
    outer = body[1].body
    if not (len(outer) == 2 and ast.unparse(outer[0]) == 'labels, value = self._process_metric(metric)'
            and isinstance(outer[1], ast.For) and ast.unparse(outer[1].target) == 'processor'
            and ast.unparse(outer[1].iter) == 'self.trigger_context.config.metric_processors' and not outer[1].orelse):
        raise Untranslatable('_process_action: inner loop is no longer over config.metric_processors')
    inner = outer[1].body
    guard = 'none'
    if len(inner) == 1 and isinstance(inner[0], ast.Try) and not inner[0].finalbody and not inner[0].orelse \
            and len(inner[0].handlers) == 1 and len(inner[0].body) == 1:
        h = inner[0].handlers[0]
        cls = ast.unparse(h.type) if h.type is not None else 'BaseException'
        if cls not in ('Exception', 'BaseException'):
            raise Untranslatable('_process_action: processor call guarded by except ' + cls)
        if any(isinstance(x, (ast.Raise, ast.Return, ast.Break)) for s in h.body for x in ast.walk(s)):
            raise Untranslatable('_process_action: the handler of the processor call leaves the loop')
        guard = 'some .exc' if cls == 'Exception' else 'some .base'
        stmt = inner[0].body[0]
    elif len(inner) == 1:
        stmt = inner[0]
    else:
        raise Untranslatable('_process_action: inner loop body changed')
    if not (isinstance(stmt, ast.Expr) and isinstance(stmt.value, ast.Call)):
        raise Untranslatable('_process_action: processor call is not an expression statement')
    call = stmt.value
    if ast.unparse(call.func) != 'getattr(processor, self._convert_type(metric.type))' or call.keywords:
        raise Untranslatable('_process_action: dispatch changed: ' + ast.unparse(call.func))
    amap = {'metric.name': '.name', 'labels': '.labels', 'metric.help': '.help', 'metric.unit': '.unit',
            'value': '.value', 'metric.namespace': '.namespaceRaw'}
    args, ns_default = [], None
    for a in call.args:
        s = ast.unparse(a)
        if isinstance(a, ast.BoolOp) and isinstance(a.op, ast.Or) and len(a.values) == 2 \
                and ast.unparse(a.values[0]) == 'metric.namespace' and isinstance(a.values[1], ast.Constant) \
                and isinstance(a.values[1].value, str):
            ns_default = a.values[1].value
            args.append('.namespace')
        elif s in amap:
            args.append(amap[s])
        else:
            raise Untranslatable('_process_action: processor argument ' + s)
    out.append('inductive MArg | name | labels | namespace | namespaceRaw | help | unit | value\nderiving DecidableEq, Repr\n')
    out.append('/-- positional arguments of the processor call in `_process_action`\n'
               '    (`namespace` = `metric.namespace or <default>`, `namespaceRaw` = `metric.namespace` as is) -/\n'
               f'def metricCallArgs : List MArg := [{", ".join(args)}]\n')
    if ns_default is None:
        out.append('def namespaceOf (ns : Option String) : Option String := ns\n')
    else:
        out.append('/-- `metric.namespace or <default>` (Python truthiness: `None` and `\'\'` are false) -/\n'
                   'def namespaceOf (ns : Option String) : Option String :=\n'
                   f'  match ns with\n  | none => some {lean_str(ns_default)}\n'
                   f'  | some s => if s.isEmpty then some {lean_str(ns_default)} else some s\n')
    out.append('/-- the `try` around one processor call: what it catches (none = no try) -/\n'
               f'def processorCallGuard : Option Py.Exn := {guard}\n')
    # processor signatures
    mp = load(MPRO)
    pmap = {'name': '.name', 'labels': '.labels', 'namespace': '.namespace', 'help_string': '.help',
            'unit': '.unit', 'value': '.value'}
    rows = []
    for op in ('counter', 'gauge', 'histogram', 'summary'):
        ps = _params(find_def(mp, 'MetricProcessor.' + op))
        if any(p not in pmap for p in ps):
            raise Untranslatable(f'MetricProcessor.{op} parameters {ps}')
        rows.append(f'({lean_str(op)}, [{", ".join(pmap[p] for p in ps)}])')
    out.append('/-- the operations of `MetricProcessor` and what each positional parameter means -/\n'
               'def processorSignatures : List (String × List MArg) :=\n  [' + ',\n   '.join(rows) + ']\n')
    # _process_metric
    pm = find_def(tree, 'MetricActionContext._process_metric')
    body = [s for s in pm.body if not (isinstance(s, ast.Expr) and isinstance(s.value, ast.Constant))]
    first = body[0] if body else None
    if not (isinstance(first, ast.Assign) and ast.unparse(first.targets[0]) == 'metric_value'
            and isinstance(first.value, ast.Constant) and type(first.value.value) in (int, float)
            and float(first.value.value) == int(first.value.value)):
        raise Untranslatable('_process_metric: default value changed shape')
    default = int(first.value.value)
    failed_txt = None
    for n in ast.walk(pm):
        if isinstance(n, ast.ExceptHandler):
            for s in n.body:
                if isinstance(s, ast.Assign) and ast.unparse(s.targets[0]) == 'value' \
                        and isinstance(s.value, ast.Constant) and isinstance(s.value.value, str):
                    failed_txt = s.value.value
    if failed_txt is None:
        raise Untranslatable('_process_metric: label failure text not found')
    tpl = f'''
metric_value = {first.value.value!r}
if metric.expression:
    try:
        metric_value = float(self.trigger_context.evaluate_expression(metric.expression))
    except Exception:
        deep.logging.exception('Cannot process metric expression %s', metric.expression)
labels = {{}}
if len(metric.labels) > 0:
    for label in metric.labels:
        key = label.key
        if label.expression:
            try:
                value = str(self.trigger_context.evaluate_expression(label.expression))
            except Exception:
                deep.logging.exception('Cannot process metric label expression %s: %s', key, label.expression)
                value = {failed_txt!r}
        else:
            value = label.static
        labels[key] = value
return (labels, metric_value)
'''
    if not same_shape(pm, tpl):
        raise Untranslatable('_process_metric changed shape')
    out.append('/-- `_process_metric` (checked shape): value = `float(eval expression)` when the metric has a (non-empty)\n'
               '    expression and that succeeds, else the default; a label = `str(eval expression)` when it has a\n'
               '    (non-empty) expression — `labelFailedText` if `str`/`eval` raise an Exception — else its static value;\n'
               '    labels are stored in a dict by key. -/\n'
               f'def metricValueDefault : Int := ({default} : Int)\n'
               '/-- is the default written as an int literal (what reaches the processor is then an `int`, not a `float`) -/\n'
               f'def metricValueDefaultIsInt : Bool := {"true" if type(first.value.value) is int else "false"}\n'
               f'def labelFailedText : String := {lean_str(failed_txt)}\n')
    return '\n'.join(out)


def _optional(part, who, marker):
    """a part only one property needs: when its source no longer has the translatable shape, leave its definitions
    out (the models of that property then fail to build — a broken tie for that property only) and say why."""
    try:
        return part()
    except Untranslatable as e:
        reason = f'{who}: {e}'
        return (f'/-- EXTRACTION FAILED — {who}: the definitions this part provides are absent, so every model and\n'
                f'    theorem that needs them does not build. -/\n'
                f'def {marker} : String := {lean_str(reason[:300])}\n')


def generate():
    parts = [header('evaluation of conditions, log fields and metric expressions',
                    [UTILS, ACTX, TCTX, LOGA, META, SNAP, PLUG, PYPL, MPRO]),
             'namespace Extracted.Expr\n',
             '/-- a Python value as far as `float()` cares (what the generators produce) -/\n'
             'inductive PyVal\n  | int (n : Int)\n  | bool (b : Bool)\n  | float (repr : String)\n  | str (s : String)\n'
             '  | other\nderiving DecidableEq, Repr\n',
             '/-- what evaluating one expression in the paused frame gives (the eval oracle\'s answer):\n'
             '    `failed` = evaluation raised (the result object is then the exception),\n'
             '    `isExc` = the result object is a BaseException instance (always so when `failed`), `ty` = `type(result).__name__`,\n'
             '    `text` = `str(result)`, `val` = the value when it is of a kind `float()` accepts. -/\n'
             'structure Outcome where\n  failed : Bool\n  isExc : Bool\n  ty : String\n  text : String\n  val : PyVal\n'
             '  strRaises : Bool      -- `str(result)` raises an Exception (then `text` means nothing)\n'
             'deriving DecidableEq, Repr\n',
             part_str2bool(), part_can_trigger(), part_evaluate(), part_eval_sites(), part_overrides(), part_eval_watch(),
             _optional(part_log, 'log action facts (C16)', 'logExtractionFailed'),
             _optional(part_metric, 'metric action facts (C17)', 'metricExtractionFailed'),
             'end Extracted.Expr\n']
    return '\n'.join(parts)
