"""Extracted/Frames.lean — what a snapshot says about the stack, the frame_type decision, the tracepoint echo and
the frame the watches are evaluated in (C02), regenerated from the current sources:

  SnapshotActionContext.should_collect_vars / watches / log_msg / _process_action   (snapshot_action.py)
  FrameCollector.collect / _process_frame / parse_short_name                         (frame_collector.py)
  ConfigService.is_app_frame                                                         (config_service.py)
  build_snapshot_action, LocationAction.tracepoint                                   (trigger.py)
  TracePointConfig (constructor, getters, line_no clamp)                             (tracepoint_config.py)
  StackFrame / Variable / VariableId constructors and getters                        (eventsnapshot.py)
  process_variable: what goes into Variable(...) and VariableId(...)                 (variable_processor.py)
  TriggerContext.evaluate_expression: whose globals / locals                         (trigger_context.py)
"""
import ast
import textwrap

from pylean import Translator, Untranslatable, load, find_def, same_shape, header, lean_str, module_constants

OUT = 'DeepModel/Extracted/Frames.lean'
SNAP = 'src/deep/processor/context/snapshot_action.py'
FC = 'src/deep/processor/frame_collector.py'
CFGSVC = 'src/deep/config/config_service.py'
TRIG = 'src/deep/api/tracepoint/trigger.py'
TPCFG = 'src/deep/api/tracepoint/tracepoint_config.py'
CONSTS = 'src/deep/api/tracepoint/constants.py'
EVSNAP = 'src/deep/api/tracepoint/eventsnapshot.py'
VP = 'src/deep/processor/variable_processor.py'
TC = 'src/deep/processor/context/trigger_context.py'

USED_CONSTS = ['FRAME_TYPE', 'STACK_TYPE', 'SINGLE_FRAME_TYPE', 'ALL_FRAME_TYPE', 'NO_FRAME_TYPE', 'STACK', 'LOG_MSG',
               'WATCHES', 'FIRE_COUNT', 'FIRE_PERIOD']
VALUE_CONSTS = ['SINGLE_FRAME_TYPE', 'ALL_FRAME_TYPE', 'NO_FRAME_TYPE', 'STACK']


def strip_doc(body):
    if body and isinstance(body[0], ast.Expr) and isinstance(body[0].value, ast.Constant) \
            and isinstance(body[0].value.value, str):
        return body[1:]
    return list(body)


class CfgTranslator(Translator):
    """adds: `k in d`, `d[k]`, `del d[k]` under an `if`, `x is None` for the config dicts named in `dicts`;
    `if NAME is not None:` as a match on an Option; tuple-unpacking assignment from a call."""

    def __init__(self, dicts=(), options=(), probes=None, **kw):
        super().__init__(**kw)
        self.dicts = set(dicts)
        self.options = set(options)
        self.probes = probes or {}       # python expression text -> Lean `Option` (none = evaluating it raises)
        self.caught = []                 # exception classes of the translated `try` statements

    def e_Compare(self, n):
        if len(n.ops) == 1 and isinstance(n.ops[0], (ast.In, ast.NotIn)) and isinstance(n.comparators[0], ast.Name) \
                and n.comparators[0].id in self.dicts:
            t = f'(Cfg.has {self.expr(n.comparators[0])} {self.expr(n.left)})'
            return t if isinstance(n.ops[0], ast.In) else f'(!{t})'
        return super().e_Compare(n)

    def e_Subscript(self, n):
        if isinstance(n.value, ast.Name) and n.value.id in self.dicts and not isinstance(n.slice, ast.Slice):
            return f'(Cfg.get {self.expr(n.value)} {self.expr(n.slice)})'
        return super().e_Subscript(n)

    def block(self, stmts, k):
        if stmts:
            s, rest = stmts[0], stmts[1:]
            if isinstance(s, ast.If) and not s.orelse and len(s.body) == 1 and isinstance(s.body[0], ast.Delete) \
                    and len(s.body[0].targets) == 1 and isinstance(s.body[0].targets[0], ast.Subscript) \
                    and isinstance(s.body[0].targets[0].value, ast.Name) \
                    and s.body[0].targets[0].value.id in self.dicts:
                t = s.body[0].targets[0]
                d = self.expr(t.value)
                return (f'let {d} := if {self.expr(s.test)} then (Cfg.del {d} {self.expr(t.slice)}) else {d}\n'
                        f'{self.block(rest, k)}')
            if isinstance(s, ast.If) and isinstance(s.test, ast.Compare) and len(s.test.ops) == 1 \
                    and isinstance(s.test.ops[0], ast.IsNot) and isinstance(s.test.left, ast.Name) \
                    and s.test.left.id in self.options and isinstance(s.test.comparators[0], ast.Constant) \
                    and s.test.comparators[0].value is None:
                v = self.names.get(s.test.left.id, s.test.left.id)
                after = self.block(rest, k) if (rest or k is not None) else None
                a = self.block(s.body, after)
                b = self.block(s.orelse, after)
                return (f'match {v} with\n| some {v} =>\n{textwrap.indent(a, "  ")}\n| none =>\n'
                        f'{textwrap.indent(b, "  ")}')
            if isinstance(s, ast.Try):
                # try: x = <probe>  except <all>: x = e      ==>  match on the outcome of the probe
                ok = (len(s.body) == 1 and isinstance(s.body[0], ast.Assign) and len(s.body[0].targets) == 1
                      and isinstance(s.body[0].targets[0], ast.Name) and ast.unparse(s.body[0].value) in self.probes
                      and len(s.handlers) == 1 and not s.orelse and not s.finalbody
                      and isinstance(s.handlers[0].type, ast.Name)
                      and s.handlers[0].type.id in ('BaseException', 'Exception'))
                if not ok:
                    raise Untranslatable('try statement shape: ' + ast.unparse(s)[:80])
                self.caught.append(s.handlers[0].type.id)
                x = self.names.get(s.body[0].targets[0].id, s.body[0].targets[0].id)
                after = self.block(rest, k) if (rest or k is not None) else None
                good = f'let {x} := (some got__)\n{after}'
                bad = self.block(list(s.handlers[0].body), after)
                return (f'match {self.probes[ast.unparse(s.body[0].value)]} with\n| some got__ =>\n'
                        f'{textwrap.indent(good, "  ")}\n| none =>\n{textwrap.indent(bad, "  ")}')
            if isinstance(s, ast.Assign) and len(s.targets) == 1 and isinstance(s.targets[0], ast.Tuple) \
                    and all(isinstance(e, ast.Name) for e in s.targets[0].elts) and isinstance(s.value, ast.Call):
                names = ', '.join(self.names.get(e.id, e.id) for e in s.targets[0].elts)
                return f'let ({names}) := {self.expr(s.value)}\n{self.block(rest, k)}'
        return super().block(stmts, k)


def getter_map(tree, cls, wanted):
    """{property -> constructor parameter} for plain getters `return self._x` with `self._x = param` in __init__."""
    init = find_def(tree, cls + '.__init__')
    params = [a.arg for a in init.args.args[1:]]
    stored = {}
    for s in init.body:
        if isinstance(s, ast.Assign) and len(s.targets) == 1 and isinstance(s.targets[0], ast.Attribute) \
                and ast.unparse(s.targets[0].value) == 'self' and isinstance(s.value, ast.Name):
            stored[s.targets[0].attr] = s.value.id
        if isinstance(s, ast.AnnAssign) and isinstance(s.target, ast.Attribute) \
                and ast.unparse(s.target.value) == 'self' and isinstance(s.value, ast.Name):
            stored[s.target.attr] = s.value.id
    out = []
    for p in wanted:
        g = find_def(tree, f'{cls}.{p}')
        body = strip_doc(g.body)
        if len(body) != 1 or not isinstance(body[0], ast.Return) or not isinstance(body[0].value, ast.Attribute) \
                or ast.unparse(body[0].value.value) != 'self':
            raise Untranslatable(f'{cls}.{p} is not a plain getter')
        attr = body[0].value.attr
        if attr not in stored:
            raise Untranslatable(f'{cls}.{p} returns self.{attr}, which __init__ does not set from a parameter')
        out.append((p, stored[attr]))
    return params, out


def ctor_args(call, params, what):
    """[(constructor parameter, source expression text)] of a constructor call."""
    out = []
    for i, a in enumerate(call.args):
        if i >= len(params):
            raise Untranslatable(f'{what}: too many positional arguments')
        out.append((params[i], a))
    for kw in call.keywords:
        if kw.arg not in params:
            raise Untranslatable(f'{what}: unknown keyword {kw.arg}')
        out.append((kw.arg, kw.value))
    return out


def table(name, rows, doc):
    body = ',\n   '.join(f'({lean_str(a)}, {lean_str(b)})' for a, b in rows)
    return f'/-- {doc} -/\ndef {name} : List (String × String) :=\n  [{body}]\n'


def hops(node, base):
    """number of `.f_back` steps from the expression `base`; None when the expression is something else."""
    n = 0
    while isinstance(node, ast.Attribute) and node.attr == 'f_back':
        node = node.value
        n += 1
    return n if ast.unparse(node) == base else None


def generate():
    consts = module_constants(load(CONSTS))
    snap, fc, trig, tpc = load(SNAP), load(FC), load(TRIG), load(TPCFG)
    evs, cfgsvc, vp, tc = load(EVSNAP), load(CFGSVC), load(VP), load(TC)
    parts = [header('frames, frame_type, tracepoint echo, watch frame',
                    [SNAP, FC, CFGSVC, TRIG, TPCFG, CONSTS, EVSNAP, VP, TC]).rstrip('\n'),
             'import DeepModel.Model.FramesBase\n', 'set_option linter.unusedVariables false\n',
             'namespace Extracted.Frames\nopen FrameBase\n']
    for c in USED_CONSTS:
        if not isinstance(consts.get(c), str):
            raise Untranslatable(f'constant {c} not found')
        parts.append(f'def {c} : String := {lean_str(consts[c])}')
    parts.append('')
    valnames = {c: f'(CfgVal.text {c})' for c in VALUE_CONSTS}

    # ---- should_collect_vars
    scv = find_def(snap, 'SnapshotActionContext.should_collect_vars')
    tr = Translator(names=valnames,
                    calls={'self.location_action.config.get': lambda a: f'(Cfg.getD config {a[0]} {a[1]})'})
    parts.append('/-- `SnapshotActionContext.should_collect_vars` -/')
    parts.append(tr.function(scv, 'def shouldCollectVars (config : Cfg) (current_frame_index : Int) : Bool'))

    # ---- watches / log_msg of the action
    w = find_def(snap, 'SnapshotActionContext.watches')
    if not same_shape(w, 'return self.location_action.config.get("watches", [])') or consts['WATCHES'] != 'watches':
        raise Untranslatable('SnapshotActionContext.watches changed shape')
    parts.append('/-- `SnapshotActionContext.watches` -/\ndef watchesOf (config : Cfg) : List String := '
                 'Cfg.getStrs config WATCHES\n')
    lm = find_def(snap, 'SnapshotActionContext.log_msg')
    if not same_shape(lm, 'return self.location_action.config.get(LOG_MSG, None)'):
        raise Untranslatable('SnapshotActionContext.log_msg changed shape')
    parts.append('/-- `SnapshotActionContext.log_msg` -/\ndef logMsgOf (config : Cfg) : CfgVal := '
                 'Cfg.getD config LOG_MSG CfgVal.null\n')

    # ---- _process_action: which frame is collected, and that every configured watch is evaluated in order
    pa = find_def(snap, 'SnapshotActionContext._process_action')
    body = strip_doc(pa.body)
    if ast.unparse(body[0]) != 'collector = FrameCollector(self, self.trigger_context.frame)' \
            or ast.unparse(body[1]) != 'frames, variables = collector.collect({}, self.var_cache)':
        raise Untranslatable('_process_action: collector construction changed')
    loop = body[3]
    if not (isinstance(loop, ast.For) and ast.unparse(loop.iter) == 'self.watches'
            and [ast.unparse(s) for s in loop.body] ==
            ['result, watch_lookup, _ = self.eval_watch(watch, WATCH_SOURCE_WATCH)',
             'snapshot.add_watch_result(result)', 'snapshot.merge_var_lookup(watch_lookup)']):
        raise Untranslatable('_process_action: watch loop changed')
    snapctor = body[2]
    if ast.unparse(snapctor) != ('snapshot = EventSnapshot(self.location_action.tracepoint, self.trigger_context.ts, '
                                 'self.trigger_context.resource, frames, variables)'):
        raise Untranslatable('_process_action: EventSnapshot construction changed')
    params, gm = getter_map(evs, 'EventSnapshot', ['tracepoint', 'frames', 'var_lookup'])
    if gm != [('tracepoint', 'tracepoint'), ('frames', 'frames'), ('var_lookup', 'var_lookup')] \
            or params[:5] != ['tracepoint', 'ts', 'resource', 'frames', 'var_lookup']:
        raise Untranslatable('EventSnapshot constructor/getters changed')
    tci = find_def(tc, 'TriggerContext.__init__')
    if 'self.__frame = frame' not in [ast.unparse(s) for s in tci.body]:
        raise Untranslatable('TriggerContext.__init__ no longer stores the frame as given')
    if not same_shape(find_def(tc, 'TriggerContext.frame'), 'return self.__frame'):
        raise Untranslatable('TriggerContext.frame is not a plain getter')

    # ---- evaluate_expression: whose globals and locals
    ee = find_def(tc, 'TriggerContext.evaluate_expression')
    b = strip_doc(ee.body)
    ok = (len(b) == 1 and isinstance(b[0], ast.Try) and len(b[0].body) == 1 and isinstance(b[0].body[0], ast.Return)
          and isinstance(b[0].body[0].value, ast.Call) and ast.unparse(b[0].body[0].value.func) == 'eval'
          and len(b[0].body[0].value.args) == 3 and ast.unparse(b[0].body[0].value.args[0]) == 'expression')
    if not ok:
        raise Untranslatable('evaluate_expression changed shape')
    g, l = b[0].body[0].value.args[1:]
    gh = None
    if isinstance(g, ast.Call) and ast.unparse(g.func) == 'getattr' and len(g.args) == 3 \
            and ast.unparse(g.args[1]) == "'f_globals'":
        gh = hops(g.args[0], 'self.__frame')
    elif isinstance(g, ast.Attribute) and g.attr == 'f_globals':
        gh = hops(g.value, 'self.__frame')
    lh = hops(l.value, 'self.__frame') if isinstance(l, ast.Attribute) and l.attr == 'f_locals' else None
    if lh is None:
        raise Untranslatable('evaluate_expression: locals argument is not f_locals of a frame: ' + ast.unparse(l))
    parts.append('/-- `evaluate_expression`: `eval(expression, <globals>, <locals>)` — how many `f_back` steps from the\n'
                 '    paused frame the locals (and the globals; `none` = not the globals of a frame) are taken -/')
    parts.append(f'def evalLocalsHops : Nat := {lh}')
    parts.append('def evalGlobalsHops : Option Nat := ' + ('none' if gh is None else f'some {gh}') + '\n')

    # ---- build_snapshot_action: the action config made from the tracepoint args
    bsa = find_def(trig, 'build_snapshot_action')
    ret = [s for s in bsa.body if isinstance(s, ast.Return) and isinstance(s.value, ast.Call)]
    if len(ret) != 1 or ast.unparse(ret[0].value.func) != 'LocationAction' or len(ret[0].value.args) != 4 \
            or not isinstance(ret[0].value.args[2], ast.Dict) \
            or ast.unparse(ret[0].value.args[3]) != 'LocationAction.ActionType.Snapshot':
        raise Untranslatable('build_snapshot_action changed shape')
    rows = []
    for k, v in zip(ret[0].value.args[2].keys, ret[0].value.args[2].values):
        if not isinstance(k, ast.Name) or k.id not in USED_CONSTS:
            raise Untranslatable('build_snapshot_action: config key ' + ast.unparse(k))
        if isinstance(v, ast.Name) and v.id == 'watches':
            val = '(CfgVal.strs watches)'
        elif isinstance(v, ast.Call) and ast.unparse(v.func) == 'args.get' and len(v.args) == 2 \
                and isinstance(v.args[0], ast.Name) and v.args[0].id in USED_CONSTS:
            d = v.args[1]
            if isinstance(d, ast.Name) and d.id in VALUE_CONSTS:
                dv = f'(CfgVal.text {d.id})'
            elif isinstance(d, ast.Constant) and isinstance(d.value, str):
                dv = f'(CfgVal.text {lean_str(d.value)})'
            elif isinstance(d, ast.Constant) and d.value is None:
                dv = 'CfgVal.null'
            else:
                raise Untranslatable('build_snapshot_action: default ' + ast.unparse(d))
            val = f'(Args.getD args {v.args[0].id} {dv})'
        else:
            raise Untranslatable('build_snapshot_action: value ' + ast.unparse(v))
        rows.append(f'({k.id}, {val})')
    parts.append('/-- the config dict `build_snapshot_action` gives the snapshot action -/\n'
                 'def snapshotConfig (args : Args) (watches : List String) : Cfg :=\n  [' +
                 ',\n   '.join(rows) + ']\n')

    # ---- TracePointConfig
    params, gm = getter_map(tpc, 'TracePointConfig', ['id', 'path', 'args', 'watches'])
    if params[:5] != ['tp_id', 'path', 'line_no', 'args', 'watches']:
        raise Untranslatable('TracePointConfig.__init__ parameters changed: %s' % params)
    parts.append('/-- `TracePointConfig` (fields named after the constructor parameters) -/\n'
                 'structure TracePointConfig where\n  tp_id : String\n  path : String\n  line_no : Int\n'
                 '  args : Cfg\n  watches : List String\nderiving Repr, DecidableEq\n')
    for p, src in gm:
        ty = {'id': 'String', 'path': 'String', 'args': 'Cfg', 'watches': 'List String'}[p]
        if src not in ('tp_id', 'path', 'args', 'watches') or \
                {'tp_id': 'String', 'path': 'String', 'args': 'Cfg', 'watches': 'List String'}[src] != ty:
            raise Untranslatable(f'TracePointConfig.{p} returns constructor parameter {src}')
        parts.append(f'/-- getter `TracePointConfig.{p}` -/\ndef TracePointConfig.get_{p} (t : TracePointConfig) : {ty} '
                     f':= t.{src}')
    ln = find_def(tpc, 'TracePointConfig.line_no')
    init = find_def(tpc, 'TracePointConfig.__init__')
    if 'self._line_no = line_no' not in [ast.unparse(s) for s in init.body]:
        raise Untranslatable('TracePointConfig.__init__ no longer stores line_no as given')
    parts.append('/-- getter `TracePointConfig.line_no` -/')
    parts.append(Translator(subst={'self._line_no': 't.line_no'}).function(
        ln, 'def TracePointConfig.get_line_no (t : TracePointConfig) : Int'))

    # ---- LocationAction.tracepoint
    tpp = find_def(trig, 'LocationAction.tracepoint')
    tr = CfgTranslator(dicts=['args'], none='CfgVal.null', subst={'self.__config': 'config', 'self.id': 'id',
                                                                  'self.__location.path': 'path',
                                                                  'self.__location.line': 'line'},
                       calls={'dict': lambda a: a[0],
                              'self.__config.get': lambda a: (f'(Cfg.getStrs config {a[0]})' if a[1] == '[]' else
                                                              (_ for _ in ()).throw(Untranslatable('watches default'))),
                              'TracePointConfig': lambda a: (f'(TracePointConfig.mk {" ".join(a[:5])})'
                                                             if len(a) == 6 and a[5] == '[]' else
                                                             (_ for _ in ()).throw(Untranslatable('TracePointConfig call')))})
    parts.append('/-- `LocationAction.tracepoint`: what a snapshot says about the tracepoint that fired -/')
    parts.append(tr.function(tpp, 'def tracepointOf (id path : String) (line : Int) (config : Cfg) : TracePointConfig'))

    # ---- StackFrame and _process_frame
    sf_params, sf_get = getter_map(evs, 'StackFrame', ['file_name', 'short_path', 'method_name', 'line_number',
                                                      'variables', 'class_name', 'app_frame'])
    parts.append(table('stackFrameGetters', sf_get, 'getter of `StackFrame` -> constructor parameter it returns'))
    parts.append('/-- `StackFrame` (fields named after the constructor parameters) -/\n'
                 'structure StackFrame (ρ : Type) where\n  file_name : String\n  short_path : String\n'
                 '  method_name : String\n  line_number : Int\n  variables : List ρ\n  class_name : Option String\n'
                 '  app_frame : Bool\nderiving Repr\n')
    pf = find_def(fc, 'FrameCollector._process_frame')
    body = strip_doc(pf.body)
    src = {}
    for s in body:
        if isinstance(s, ast.Assign) and len(s.targets) == 1 and isinstance(s.targets[0], ast.Name):
            src.setdefault(s.targets[0].id, ast.unparse(s.value))
    want = {'lineno': 'frame.f_lineno', 'filename': 'frame.f_code.co_filename', 'func_name': 'frame.f_code.co_name',
            'f_locals': 'frame.f_locals'}
    raw = {'frame.f_lineno': 'fr.f_lineno', 'frame.f_code.co_filename': 'fr.co_filename',
           'frame.f_code.co_name': 'fr.co_name'}
    ret = body[-1]
    if not (isinstance(ret, ast.Return) and isinstance(ret.value, ast.Call) and ast.unparse(ret.value.func) == 'StackFrame'):
        raise Untranslatable('_process_frame does not end in `return StackFrame(...)`')
    sp = body[-2]
    if not (isinstance(sp, ast.Assign) and isinstance(sp.targets[0], ast.Tuple) and len(sp.targets[0].elts) == 2
            and all(isinstance(e, ast.Name) for e in sp.targets[0].elts) and isinstance(sp.value, ast.Call)
            and ast.unparse(sp.value.func) == 'self.parse_short_name' and len(sp.value.args) == 1
            and isinstance(sp.value.args[0], ast.Name)):
        raise Untranslatable('_process_frame: parse_short_name call changed')
    sp_short, sp_app = (e.id for e in sp.targets[0].elts)
    fname_var = sp.value.args[0].id
    if src.get(fname_var) not in raw:
        raise Untranslatable('_process_frame: parse_short_name is given ' + str(src.get(fname_var)))
    fields = {}
    types = {'file_name': 'str', 'short_path': 'str', 'method_name': 'str', 'line_number': 'int',
             'variables': 'vars', 'class_name': 'cls', 'app_frame': 'bool'}
    for p, a in ctor_args(ret.value, sf_params, 'StackFrame(...)'):
        if p not in types:
            raise Untranslatable(f'_process_frame passes {p} to StackFrame')
        if not isinstance(a, ast.Name):
            raise Untranslatable(f'_process_frame: StackFrame argument {ast.unparse(a)}')
        n = a.id
        if n == sp_short:
            val, ty = 'sp.1', 'str'
        elif n == sp_app:
            val, ty = 'sp.2', 'bool'
        elif src.get(n) in raw:
            val, ty = raw[src[n]], ('int' if src[n] == 'frame.f_lineno' else 'str')
        elif n == 'var_ids':
            val, ty = 'var_ids', 'vars'
        elif n == 'class_name':
            val, ty = 'class_name', 'cls'
        else:
            raise Untranslatable(f'_process_frame: StackFrame({p}={n}) has no known source')
        if ty != types[p]:
            raise Untranslatable(f'_process_frame: StackFrame({p}={n}) mixes {ty} into {types[p]}')
        fields[p] = val
    if set(fields) != set(types):
        raise Untranslatable('_process_frame: StackFrame fields given: %s' % sorted(fields))
    # class name of `self`
    i0 = next((i for i, s in enumerate(body) if ast.unparse(s).startswith('_self = ')), None)
    if i0 is None or ast.unparse(body[i0 + 1]) != 'class_name = None' or not isinstance(body[i0 + 2], ast.If) \
            or src.get('f_locals') != 'frame.f_locals':
        raise Untranslatable('_process_frame: class-name rule changed shape')
    synth = ast.FunctionDef(name='cn', args=pf.args, body=body[i0:i0 + 3] + [ast.Return(ast.Name('class_name', ast.Load()))],
                            decorator_list=[], lineno=0, col_offset=0)

    def flget(a):
        if len(a) == 2 and a[1] == '(none : Option String)':
            return f'(localSelf {a[0]})'
        raise Untranslatable('f_locals.get default')
    tr = CfgTranslator(options=['_self'], probes={'_self.__class__.__name__': '_self'},
                       none='(none : Option String)', calls={'f_locals.get': flget})
    parts.append('/-- the class-name rule of `_process_frame`.  `localSelf n` = `none` when the frame has no local `n` or it is\n'
                 '    `None`, else `some p` with `p` the outcome of reading `<local>.__class__.__name__` (`none` = it raises) -/')
    parts.append(tr.function(synth, 'def classNameOf (localSelf : String → Option (Option String)) : Option String'))
    parts.append('/-- the exception class the class-name read is guarded with -/\ndef classNameCatches : List String := [' +
                 ', '.join(lean_str(c) for c in tr.caught) + ']\n')

    # ---- parse_short_name / is_app_frame
    iaf = find_def(cfgsvc, 'ConfigService.is_app_frame')
    tr = Translator(subst={'self.IN_APP_INCLUDE': 'IN_APP_INCLUDE', 'self.IN_APP_EXCLUDE': 'IN_APP_EXCLUDE',
                           'self.APP_ROOT': 'APP_ROOT'})

    def pair(e, node):
        if not isinstance(node, ast.Tuple) or len(node.elts) != 2:
            raise Untranslatable('is_app_frame returns ' + ast.unparse(node))
        snd = node.elts[1]
        second = 'none' if (isinstance(snd, ast.Constant) and snd.value is None) else f'some {tr.expr(snd)}'
        return f'({tr.expr(node.elts[0])}, {second})'
    tr.ret = pair
    parts.append('/-- `ConfigService.is_app_frame` -/')
    parts.append(tr.function(iaf, 'def isAppFrame (IN_APP_INCLUDE IN_APP_EXCLUDE : List String) (APP_ROOT : String) '
                                  '(filename : String) : Bool × Option String'))
    if not same_shape(find_def(snap, 'SnapshotActionContext.is_app_frame'),
                      'return self.trigger_context.config.is_app_frame(filename)'):
        raise Untranslatable('SnapshotActionContext.is_app_frame no longer delegates to the config service')
    psn = find_def(fc, 'FrameCollector.parse_short_name')
    tr = CfgTranslator(options=['match'], names={'match': 'match_'},
                       calls={'self.__source.is_app_frame':
                              lambda a: f'(isAppFrame IN_APP_INCLUDE IN_APP_EXCLUDE APP_ROOT {a[0]})'})
    parts.append('/-- `FrameCollector.parse_short_name` -/')
    parts.append(tr.function(psn, 'def parseShortName (IN_APP_INCLUDE IN_APP_EXCLUDE : List String) (APP_ROOT : String) '
                                  '(filename : String) : String × Bool'))
    flds = ', '.join(f'{p} := {fields[p]}' for p in types)
    parts.append('/-- the `StackFrame` `_process_frame` builds for one real frame -/\n'
                 'def processFrame {ρ : Type} (IN_APP_INCLUDE IN_APP_EXCLUDE : List String) (APP_ROOT : String) '
                 '(fr : RawFrame)\n    (var_ids : List ρ) (class_name : Option String) : StackFrame ρ :=\n'
                 f'  let sp := parseShortName IN_APP_INCLUDE IN_APP_EXCLUDE APP_ROOT {raw[src[fname_var]]}\n'
                 f'  {{ {flds} }}\n')

    # ---- collect: the walk
    col = find_def(fc, 'FrameCollector.collect')
    body = strip_doc(col.body)
    start = body[0]
    if not (isinstance(start, ast.Assign) and ast.unparse(start.targets[0]) == 'current_frame'):
        raise Untranslatable('collect: first statement')
    skip = hops(start.value, 'self.__frame')
    if skip is None:
        raise Untranslatable('collect starts at ' + ast.unparse(start.value))
    rest_tmpl = '''
collected_frames = []
while current_frame is not None:
    frame = self._process_frame(var_lookup, var_cache, current_frame, self.__source.should_collect_vars(len(collected_frames)))
    collected_frames.append(frame)
    current_frame = current_frame.f_back
return collected_frames, var_lookup
'''
    fake = ast.FunctionDef(name='x', args=col.args, body=body[1:], decorator_list=[], lineno=0, col_offset=0)
    if not same_shape(fake, rest_tmpl):
        raise Untranslatable('collect: the frame walk changed shape')
    parts.append('/-- `FrameCollector.collect`: `while current_frame is not None: … current_frame = current_frame.f_back`,\n'
                 '    frames appended in that order, index handed to `should_collect_vars` = number collected so far;\n'
                 '    the walk starts this many `f_back` steps from the paused frame -/')
    parts.append(f'def walkSkip : Nat := {skip}\n')

    # ---- process_variable: what goes into Variable(...) and VariableId(...)
    pv = find_def(vp, 'process_variable')
    vparams, vget = getter_map(evs, 'Variable', ['type', 'value', 'children', 'truncated'])
    iparams, iget = getter_map(evs, 'VariableId', ['vid', 'name', 'modifiers', 'original_name'])
    parts.append(table('variableGetters', vget, 'getter of `Variable` -> constructor parameter'))
    parts.append(table('variableIdGetters', iget, 'getter of `VariableId` -> constructor parameter'))
    vcall = icall = None
    srcs = {}
    for s in ast.walk(pv):
        if isinstance(s, ast.Assign) and len(s.targets) == 1:
            t = s.targets[0]
            if isinstance(t, ast.Name):
                srcs.setdefault(t.id, ast.unparse(s.value))
                if isinstance(s.value, ast.Call) and ast.unparse(s.value.func) == 'Variable':
                    vcall = s.value
                if isinstance(s.value, ast.Call) and ast.unparse(s.value.func) == 'VariableId' and t.id == 'variable_id':
                    icall = s.value
            elif isinstance(t, ast.Tuple):
                for i, e in enumerate(t.elts):
                    if isinstance(e, ast.Name):
                        srcs.setdefault(e.id, '%s[%d]' % (ast.unparse(s.value), i))
    if vcall is None or icall is None:
        raise Untranslatable('process_variable: Variable(...) / VariableId(...) not found')

    def resolve(a):
        t = ast.unparse(a)
        return srcs.get(t, t) if isinstance(a, ast.Name) and t in ('variable_type', 'modifiers', 'var_id',
                                                                     'variable_value_str', 'truncated') else t
    parts.append(table('variableSources', [(p, resolve(a)) for p, a in ctor_args(vcall, vparams, 'Variable(...)')],
                       'constructor parameter of `Variable` <- expression `process_variable` passes'))
    parts.append(table('variableIdSources', [(p, resolve(a)) for p, a in ctor_args(icall, iparams, 'VariableId(...)')],
                       'constructor parameter of `VariableId` <- expression `process_variable` passes'))
    parts.append('/-- `variable_type` in `process_variable` -/\ndef variableTypeSource : String := ' +
                 lean_str(srcs.get('variable_type', '?')) + '\n')
    parts.append('end Extracted.Frames\n')
    return '\n'.join(parts)
