"""Extracted/ConfigSvc.lean — what the tracepoint configuration service, the poll loop and the handler's update
listener do to the agent's configuration state (C12, C13), regenerated from the current sources.

Translated to Lean state transformers (harness/pystate.py on top of pylean):
  TracepointConfigService.__init__ (initial state), update_no_change, update_new_config, __trigger_update,
  add_custom, remove_custom, update_listeners (the argument handed to the listeners, and whether it is computed
  under the update lock), TriggerHandler.new_config, LongPoll.poll (hash sent in the request; NO_CHANGE / else
  dispatch).
Also translated, statement by statement (the poll thread, C12 "polling continues"):
  LongPoll.poll as a whole (`pollOnce`: request, `stub.poll` which may raise or hand back anything, the attribute read
  on the answer, the dispatch, the evaluation order `convert_response` before `update_new_config`, the submission of the
  apply task which a closed task handler refuses AFTER hash and configuration were stored — `updateNewConfigStore` /
  `triggerUpdateE`), RepeatedTimer._target as a guard skeleton (`timerSkeleton`: `_time` and `event.wait` evaluated
  outside the `try`, the function call inside it), RepeatedTimer.stop (`timerStopSetsEvent`, `timerStopJoins`),
  LongPoll.shutdown (`pollShutdownStopsTimer`).
Extracted as checked facts (constants the model is parametrised by):
  convert_response skips a tracepoint `build_trigger` cannot interpret; RepeatedTimer._target's loop survives
  `Exception`; RepeatedTimer.__init__ coerces the interval with float(); LongPoll.start polls `self.poll` with
  `config.POLL_TIMER` and guards the initial poll.
Checked shapes (Untranslatable when gone): Deep.register_tracepoint -> add_custom -> TracepointRegistration(tp_id),
  TracepointRegistration.unregister -> remove_custom(its own id), the listener forwards to new_config,
  Deep.__init__ hands the task handler to the config service.
"""
import ast

from pylean import Untranslatable, load, find_def, same_shape, header, lean_const, lean_str
from pystate import StateTranslator, Field, strip_doc, catch_classes, has_raise, lean_bool
import skeleton

OUT = 'DeepModel/Extracted/ConfigSvc.lean'
TPCS = 'src/deep/config/tracepoint_config.py'
DEEP = 'src/deep/api/deep.py'
POLL = 'src/deep/poll/poll.py'
TH = 'src/deep/processor/trigger_handler.py'
UTILS = 'src/deep/utils.py'
GRPC = 'src/deep/grpc/__init__.py'
CFGSVC = 'src/deep/config/config_service.py'

FIELDS = {
    '_last_update': Field('lastUpdate'),
    '_current_hash': Field('hash', opt=True),
    '_tracepoint_config': Field('polled'),
    '_custom': Field('custom'),
    '_custom_ids': Field('customIds'),
}
READS = {
    'self._last_update': 'st.lastUpdate',
    'self._current_hash': 'st.hash',
    'self._tracepoint_config': 'st.polled',
    'self._custom': 'st.custom',
    'self._custom_ids': 'st.customIds',
}

PRELUDE = '''
set_option linter.unusedVariables false

namespace Extracted.ConfigSvc
open Guard (Stmt Catch)

/-- one tracepoint as far as C12/C13 distinguish them: where it is, and a tag standing for everything else
    it was given (args, watches, metrics) -/
structure Trig where
  path : String
  line : Int
  tag : String
deriving Repr, DecidableEq

/-- registration handle: the uuid4 text, modelled as a fresh natural number -/
abbrev Handle := Nat

/-- a submitted `update_listeners` task: the `new_config` argument captured at submit time -/
structure ApplyTask where
  captured : List Trig
deriving Repr, DecidableEq

/-- fields of `TracepointConfigService` (plus the supply of fresh uuids and the submitted, not yet started
    `update_listeners` tasks) -/
structure Svc where
  hash : Option String
  lastUpdate : Int
  polled : List Trig
  custom : List Trig
  customIds : List Handle
  nextHandle : Handle
  queued : List ApplyTask
deriving Repr, DecidableEq

/-- `response.response_type` of a PollResponse: the two enum values, or anything else (proto3 enums are open) -/
inductive RespType where
  | noChange
  | update
  | other
deriving Repr, DecidableEq

/-- fields of `TriggerHandler` the listener touches -/
structure Handler where
  installed : List Trig
  stopped : Bool
deriving Repr, DecidableEq
'''


class CutTranslator(StateTranslator):
    """the same statements when the submission inside `self.__trigger_update(...)` is refused: that statement RAISES, so
    the block is CUT there — the statements after it are not executed.  Every way out of the function yields
    `(state, <how it ended>)`: `cut` at the raising call, `ret(expr)` at a return / the end of the function."""

    def __init__(self, cut, ret, **kw):
        super().__init__(FIELDS, subst=dict(READS), **kw)
        self.cut, self.ret = cut, ret

    def sblock(self, stmts, returns):
        st = self.state
        if not stmts:
            return f'({st}, {self.ret(None)})'
        s0 = stmts[0]
        if isinstance(s0, ast.Expr) and isinstance(s0.value, ast.Call) \
                and ast.unparse(s0.value.func) == 'self.__trigger_update':
            return f'({st}, {self.cut})'
        if isinstance(s0, ast.Return):
            return f'({st}, {self.ret(self.expr(s0.value) if s0.value is not None else None)})'
        return super().sblock(stmts, returns)


def st_tr(refused=None, **kw):
    """`refused`: None, or 'add' / 'remove' — the CutTranslator for that method"""
    if refused == 'add':
        return CutTranslator('none', lambda e: f'some {e}' if e is not None else 'none', **kw)
    if refused == 'remove':
        return CutTranslator('true', lambda e: 'false', **kw)
    return StateTranslator(FIELDS, subst=dict(READS), stmt_calls={
        'self.__trigger_update': lambda args: 'triggerUpdate st'}, **kw)


def gen_init(tp):
    init = find_def(tp, 'TracepointConfigService.__init__')
    vals = {}
    for s in strip_doc(init.body):
        if isinstance(s, ast.AnnAssign):
            tgt, val = s.target, s.value
        elif isinstance(s, ast.Assign) and len(s.targets) == 1:
            tgt, val = s.targets[0], s.value
        else:
            raise Untranslatable('TracepointConfigService.__init__: ' + ast.unparse(s)[:80])
        if not (isinstance(tgt, ast.Attribute) and ast.unparse(tgt.value) == 'self'):
            raise Untranslatable('TracepointConfigService.__init__: ' + ast.unparse(s)[:80])
        vals[tgt.attr] = val
    need = {'_custom', '_custom_ids', '_tracepoint_config', '_current_hash', '_last_update', '_task_handler',
            '_listeners', '_update_lock'}
    if set(vals) != need:
        raise Untranslatable('TracepointConfigService fields changed: %s' % sorted(set(vals) ^ need))
    for f in ('_custom', '_custom_ids', '_tracepoint_config', '_listeners'):
        if not (isinstance(vals[f], ast.List) and not vals[f].elts):
            raise Untranslatable(f'{f} does not start empty')
    if not (isinstance(vals['_current_hash'], ast.Constant) and vals['_current_hash'].value is None):
        raise Untranslatable('_current_hash does not start as None')
    if not (isinstance(vals['_last_update'], ast.Constant) and isinstance(vals['_last_update'].value, int)):
        raise Untranslatable('_last_update does not start as an int')
    if ast.unparse(vals['_update_lock']) != 'threading.Lock()':
        raise Untranslatable('_update_lock is not a threading.Lock()')
    return ('def Svc.init : Svc :=\n  { hash := none, lastUpdate := %s, polled := [], custom := [], customIds := [], '
            'nextHandle := 0, queued := [] }\n' % lean_const(vals['_last_update'].value))


def gen_trigger_update(tp):
    f = find_def(tp, 'TracepointConfigService.__trigger_update')
    ul = find_def(tp, 'TracepointConfigService.update_listeners')
    params = [a.arg for a in ul.args.args]
    if params != ['self', 'ts', 'old_hash', 'current_hash', 'old_config', 'new_config']:
        raise Untranslatable('update_listeners parameters changed: %s' % params)
    guard = [s for s in f.body if isinstance(s, ast.If)]
    if len(guard) != 1 or ast.unparse(guard[0].test) != 'self._task_handler is not None' or guard[0].orelse:
        raise Untranslatable('__trigger_update: no single `if self._task_handler is not None`')
    for s in f.body:
        if s is not guard[0] and not (isinstance(s, ast.Assign) and isinstance(s.targets[0], ast.Name)):
            raise Untranslatable('__trigger_update: ' + ast.unparse(s)[:80])
    subs = [n for n in ast.walk(guard[0]) if isinstance(n, ast.Call) and ast.unparse(n.func).endswith('submit_task')]
    if len(subs) != 1 or ast.unparse(subs[0].func) != 'self._task_handler.submit_task':
        raise Untranslatable('__trigger_update: not exactly one submit_task call')
    c = subs[0]
    if len(c.args) != 6 or ast.unparse(c.args[0]) != 'self.update_listeners' or c.keywords:
        raise Untranslatable('__trigger_update: submit_task(self.update_listeners, 5 args) expected')
    # nothing in __trigger_update calls update_listeners / a listener directly (it must go through the pool)
    for n in ast.walk(f):
        if isinstance(n, ast.Call) and ast.unparse(n.func) in ('self.update_listeners',):
            raise Untranslatable('__trigger_update calls update_listeners inline')
    captured = st_tr().expr(c.args[5])
    return ('/-- `__trigger_update`: `update_listeners` is submitted to the task handler (assumed set, see\n'
            '    Deep.__init__); its `new_config` argument is evaluated now -/\n'
            'def triggerUpdate (st : Svc) : Svc :=\n'
            f'  {{ st with queued := st.queued ++ [⟨{captured}⟩] }}\n')


def gen_add_custom(tp, refused=False):
    f = find_def(tp, 'TracepointConfigService.add_custom')
    params = [a.arg for a in f.args.args]
    if params != ['self', 'path', 'line', 'args', 'watches', 'metrics']:
        raise Untranslatable('add_custom parameters changed: %s' % params)
    body = strip_doc(f.body)
    if len(body) < 3 or ast.unparse(body[0]) != 'tp_id = str(uuid.uuid4())':
        raise Untranslatable('add_custom does not start by naming a fresh uuid (`tp_id = str(uuid.uuid4())`)')
    if ast.unparse(body[1]) != 'config = build_trigger(tp_id, path, line, args, watches, metrics)':
        raise Untranslatable('add_custom: second statement is ' + ast.unparse(body[1])[:80])
    tr = st_tr('add' if refused else None)
    rest = body[2:]
    guard = rest[0]
    if isinstance(guard, ast.If) and ast.unparse(guard.test) == 'config is None' and not guard.orelse \
            and guard.body and isinstance(guard.body[-1], ast.Return):
        none_arm = tr.sblock(list(guard.body), True)
        some_arm = tr.sblock(rest[1:], True)
    else:
        # no guard: the None that build_trigger returned is stored like a trigger
        none_arm = 'let config := noneTrig\n' + tr.sblock(rest, True)
        some_arm = tr.sblock(rest, True)
    ind = lambda t: '\n'.join('    ' + l for l in t.splitlines())   # noqa: E731
    if refused:
        return ('/-- `add_custom` on a closed task handler: the statements up to `self.__trigger_update(…)`, whose submission\n'
                '    is refused — the exception leaves `add_custom` THERE, the statements after it are not executed.\n'
                '    Second component: `some handle` = the call returned it, `none` = the refusal left the call -/\n'
                'def addCustomRefused (st : Svc) (built : Option Trig) : Svc × Option Handle :=\n'
                '  let tp_id := st.nextHandle\n  let st := { st with nextHandle := st.nextHandle + 1 }\n'
                '  match built with\n  | none =>\n' + ind(none_arm) + '\n  | some config =>\n' + ind(some_arm) + '\n')
    return ('/-- what a stored `None` looks like in the lists (only reachable when `add_custom` does not guard) -/\n'
            'def noneTrig : Trig := ⟨"<None>", 0, "<None>"⟩\n\n'
            '/-- `add_custom`; `built` is `build_trigger(tp_id, path, line, args, watches, metrics)` (None when the\n'
            '    arguments cannot be interpreted), `str(uuid.uuid4())` is a fresh handle -/\n'
            'def addCustom (st : Svc) (built : Option Trig) : Svc × Handle :=\n'
            '  let tp_id := st.nextHandle\n  let st := { st with nextHandle := st.nextHandle + 1 }\n'
            '  match built with\n  | none =>\n' + ind(none_arm) + '\n  | some config =>\n' + ind(some_arm) + '\n')


def gen_remove_custom(tp, refused=False):
    f = find_def(tp, 'TracepointConfigService.remove_custom')
    params = [a.arg for a in f.args.args]
    if params != ['self', '_id']:
        raise Untranslatable('remove_custom parameters changed: %s' % params)
    body = strip_doc(f.body)
    if len(body) != 1 or not isinstance(body[0], ast.For) or body[0].orelse:
        raise Untranslatable('remove_custom is not a single search loop')
    loop = body[0]
    if not (isinstance(loop.target, ast.Tuple) and len(loop.target.elts) == 2
            and all(isinstance(e, ast.Name) for e in loop.target.elts)):
        raise Untranslatable('remove_custom: loop target is not `idx, x`')
    idx, x = (e.id for e in loop.target.elts)
    it = loop.iter
    if not (isinstance(it, ast.Call) and ast.unparse(it.func) == 'enumerate' and len(it.args) == 1):
        raise Untranslatable('remove_custom: loop is not over enumerate(...)')
    src = ast.unparse(it.args[0])
    if src != 'self._custom_ids':
        raise Untranslatable(f'remove_custom searches {src}, not the list of registration ids (self._custom_ids)')
    if len(loop.body) != 1 or not isinstance(loop.body[0], ast.If) or loop.body[0].orelse:
        raise Untranslatable('remove_custom: loop body is not a single `if`')
    cond = loop.body[0]
    if not cond.body or not isinstance(cond.body[-1], ast.Return) or cond.body[-1].value is not None:
        raise Untranslatable('remove_custom: the match arm does not end with `return`')
    tr = st_tr('remove' if refused else None)
    test = tr.expr(cond.test)
    arm = tr.sblock(list(cond.body), False)
    arm = '\n'.join('    ' + l for l in arm.splitlines())
    if refused:
        return ('/-- `remove_custom` on a closed task handler: cut at the refused `self.__trigger_update(…)`; second component:\n'
                '    the refusal left the call -/\n'
                'def removeCustomRefused (st : Svc) (_id : Handle) : Svc × Bool :=\n'
                f'  match List.findIdx? (fun {x} => {test}) {READS[src]} with\n'
                '  | none => (st, false)\n'
                f'  | some {idx} =>\n{arm}\n')
    return ('/-- `remove_custom`: first index whose registration id equals `_id`; both parallel lists lose that\n'
            '    index -/\n'
            'def removeCustom (st : Svc) (_id : Handle) : Svc :=\n'
            f'  match List.findIdx? (fun {x} => {test}) {READS[src]} with\n'
            '  | none => st\n'
            f'  | some {idx} =>\n{arm}\n')


def gen_update_listeners(tp):
    """three regions of the task: statements before the lock is taken (`listenerPre`), statements under the lock
    before the listener loop (`listenerRead`), the argument evaluated at each listener call (`listenerArg`).
    The locals of the function (all lists of triggers) become the fields of a generated record `Locals`."""
    f = find_def(tp, 'TracepointConfigService.update_listeners')
    body = strip_doc(f.body)
    withs = [i for i, s in enumerate(body) if isinstance(s, ast.With)]
    locked = False
    pre, inner_body = [], body
    if withs:
        if len(withs) != 1 or withs[0] != len(body) - 1:
            raise Untranslatable('update_listeners: the `with` block is not the single last statement')
        w = body[-1]
        if len(w.items) != 1 or ast.unparse(w.items[0].context_expr) != 'self._update_lock' \
                or w.items[0].optional_vars is not None:
            raise Untranslatable('update_listeners: unexpected with-item ' + ast.unparse(w.items[0]))
        locked = True
        pre, inner_body = body[:-1], list(w.body)

    def split_lets(stmts, allow_loop):
        lets, loop = [], None
        for s in stmts:
            if isinstance(s, ast.Assign) and len(s.targets) == 1 and isinstance(s.targets[0], ast.Name):
                if ast.unparse(s.value) == 'self._listeners.copy()':
                    continue
                lets.append(s)
            elif allow_loop and isinstance(s, ast.For) and loop is None and s is stmts[-1]:
                loop = s
            else:
                raise Untranslatable('update_listeners: ' + ast.unparse(s)[:80])
        return lets, loop
    pre_lets, _ = split_lets(pre, False)
    in_lets, loop = split_lets(inner_body, True)
    if loop is None:
        raise Untranslatable('update_listeners: the listener loop is not the last statement')
    if ast.unparse(loop.iter) not in ('listeners_copy', 'self._listeners', 'self._listeners.copy()'):
        raise Untranslatable('update_listeners: loop over ' + ast.unparse(loop.iter))
    lv = loop.target.id
    contained = False
    inner = list(loop.body)
    if len(inner) == 1 and isinstance(inner[0], ast.Try):
        t = inner[0]
        if t.finalbody or t.orelse or len(t.handlers) != 1 or has_raise(t.handlers[0].body):
            raise Untranslatable('update_listeners: try shape')
        contained = catch_classes(t.handlers[0])[0]
        inner = list(t.body)
    if len(inner) != 1 or not (isinstance(inner[0], ast.Expr) and isinstance(inner[0].value, ast.Call)):
        raise Untranslatable('update_listeners: loop body is not one listener call')
    call = inner[0].value
    if ast.unparse(call.func) != f'{lv}.config_change' or len(call.args) != 5 or call.keywords:
        raise Untranslatable('update_listeners: ' + ast.unparse(call)[:80])
    names = ['new_config']
    for s2 in pre_lets + in_lets:
        if s2.targets[0].id not in names:
            names.append(s2.targets[0].id)
    tr = StateTranslator(FIELDS, subst=dict(READS), list_add=True, names={n: f'l.{n}' for n in names})

    def region(lets):
        return '\n  '.join([f'let l := {{ l with {x.targets[0].id} := {tr.expr(x.value)} }}' for x in lets] + ['l'])
    fields = '\n'.join(f'  {n} : List Trig' for n in names)
    init = ', '.join(f'{n} := ' + ('captured' if n == 'new_config' else '[]') for n in names)
    return ('/-- locals of `update_listeners` -/\n'
            f'structure Locals where\n{fields}\nderiving Repr, DecidableEq\n\n'
            '/-- on entry: `new_config` is the argument captured when the task was submitted -/\n'
            f'def Locals.init (captured : List Trig) : Locals := {{ {init} }}\n\n'
            '/-- `update_listeners`, statements BEFORE the update lock is taken -/\n'
            'def listenerPre (st : Svc) (l : Locals) : Locals :=\n  ' + region(pre_lets) + '\n\n'
            '/-- `update_listeners`, statements under the lock before the listener loop -/\n'
            'def listenerRead (st : Svc) (l : Locals) : Locals :=\n  ' + region(in_lets) + '\n\n'
            '/-- `update_listeners`, inside the loop: the 5th argument of `config_change`, evaluated when the\n'
            '    listener is called -/\n'
            'def listenerArg (st : Svc) (l : Locals) : List Trig :=\n  '
            + tr.expr(call.args[4]) + '\n\n'
            '/-- `listenerRead`, the listener calls and the install happen under `self._update_lock` -/\n'
            f'def applyLocked : Bool := {lean_bool(locked)}\n\n'
            '/-- a listener that raises `Exception` does not stop the others -/\n'
            f'def listenerFailureContained : Bool := {lean_bool(contained)}\n')


def gen_handler(th):
    lst = find_def(th, 'TracepointHandlerUpdateListener.config_change')
    if not same_shape(lst, 'self._handler.new_config(new_config)'):
        raise Untranslatable('TracepointHandlerUpdateListener.config_change no longer forwards new_config')
    init = find_def(th, 'TriggerHandler.__init__')
    if 'self._config.add_listener(TracepointHandlerUpdateListener(self))' not in [ast.unparse(s) for s in init.body]:
        raise Untranslatable('TriggerHandler.__init__ no longer registers its update listener')
    nc = find_def(th, 'TriggerHandler.new_config')
    tr = StateTranslator({'_tp_config': Field('installed')}, state='h', subst={'self.__stopped': 'h.stopped'})
    return ('/-- `TriggerHandler.new_config` (reached through `TracepointHandlerUpdateListener.config_change`) -/\n'
            + tr.method(nc, 'def newConfig (h : Handler) (new_config : List Trig) : Handler'))


def gen_poll(poll, tp):
    f = find_def(poll, 'LongPoll.poll')
    body = strip_doc(f.body)
    cur = find_def(tp, 'TracepointConfigService.current_hash')
    if not same_shape(cur, 'return self._current_hash'):
        raise Untranslatable('TracepointConfigService.current_hash is no longer a plain getter')
    req = stub = disp = None
    for i, s in enumerate(body):
        if isinstance(s, ast.Assign) and isinstance(s.value, ast.Call):
            fn = ast.unparse(s.value.func)
            if fn == 'PollRequest':
                req = (i, s.value)
            elif fn == 'stub.poll':
                stub = (i, s)
        if isinstance(s, ast.If):
            disp = (i, s)
    if not (req and stub and disp) or not (req[0] < stub[0] < disp[0]) or disp[0] != len(body) - 1:
        raise Untranslatable('LongPoll.poll: request / stub.poll / dispatch order changed')
    if ast.unparse(stub[1].targets[0]) != 'response' or ast.unparse(stub[1].value.args[0]) != 'request':
        raise Untranslatable('LongPoll.poll: response = stub.poll(request, ...) expected')
    for s in body[:disp[0]]:
        for n in ast.walk(s):
            if isinstance(n, ast.Call) and 'update_' in ast.unparse(n.func):
                raise Untranslatable('LongPoll.poll changes the configuration before the response is read')
    kw = {k.arg: ast.unparse(k.value) for k in req[1].keywords}
    if kw.get('current_hash') != 'self.config.tracepoints.current_hash':
        raise Untranslatable('PollRequest.current_hash is %r' % kw.get('current_hash'))
    tests = {'response.response_type == ResponseType.NO_CHANGE': '(rt == RespType.noChange)',
             'response.response_type == ResponseType.UPDATE': '(rt == RespType.update)'}
    sub = dict(tests)
    sub.update({'response.ts_nanos': 'ts', 'response.current_hash': 'h', 'convert_response(response.response)': 'cfg'})
    tr = StateTranslator(FIELDS, subst=sub, stmt_calls={
        'self.config.tracepoints.update_no_change': lambda a: f'updateNoChange st {a[0]}',
        'self.config.tracepoints.update_new_config': lambda a: f'updateNewConfig st {a[0]} {a[1]} {a[2]}'})
    text = tr.method(f, 'def pollDispatch (st : Svc) (rt : RespType) (ts : Int) (h : String) '
                        '(cfg : List Trig) : Svc', body=[disp[1]])

    def needs(stmts):
        """same if-chain, each arm replaced by: does it evaluate convert_response(response.response)"""
        if len(stmts) == 1 and isinstance(stmts[0], ast.If):
            i = stmts[0]
            t = ast.unparse(i.test)
            if t not in tests:
                raise Untranslatable('LongPoll.poll dispatches on ' + t)
            return f'if {tests[t]} then {needs(list(i.body))} else {needs(list(i.orelse))}'
        for x in stmts:
            if isinstance(x, ast.If):
                raise Untranslatable('LongPoll.poll: nested dispatch')
        return lean_bool(any('convert_response(' in ast.unparse(x) for x in stmts))
    return ('/-- `current_hash` of the `PollRequest` -/\n'
            'def requestHash (st : Svc) : Option String := st.hash\n\n'
            '/-- `LongPoll.poll` after the response arrived (a raising `stub.poll` or `convert_response` leaves\n'
            '    the state untouched: nothing before the dispatch writes to the service). `rt` is\n'
            '    `response.response_type`, `cfg` is `convert_response(response.response)` -/\n'
            + text + '\n'
            '/-- does the arm taken for `rt` evaluate `convert_response(response.response)` (which may raise) -/\n'
            f'def pollNeedsConfig (rt : RespType) : Bool :=\n  {needs([disp[1]])}\n')


def gen_convert(grpc):
    f = find_def(grpc, 'convert_response')
    loops = [s for s in f.body if isinstance(s, ast.For)]
    if len(loops) != 1:
        raise Untranslatable('convert_response: one loop expected')
    lb = [s for s in loops[0].body if not (isinstance(s, ast.Expr) and isinstance(s.value, ast.Constant))]

    def is_build(x):
        return (isinstance(x, ast.Assign) and ast.unparse(x.targets[0]) == 'trigger'
                and isinstance(x.value, ast.Call) and ast.unparse(x.value.func) == 'build_trigger')
    skip_conv = False
    first = lb[0]
    if isinstance(first, ast.Try):
        # try: trigger = build_trigger(...)  except Exception: log; continue
        if first.finalbody or first.orelse or len(first.body) != 1 or not is_build(first.body[0]) \
                or len(first.handlers) != 1 or has_raise(first.handlers[0].body):
            raise Untranslatable('convert_response: try around build_trigger has an unexpected shape')
        h = first.handlers[0]
        if not (h.body and isinstance(h.body[-1], ast.Continue)):
            raise Untranslatable('convert_response: the handler around build_trigger does not `continue`')
        skip_conv = catch_classes(h)[0]
    elif not is_build(first):
        raise Untranslatable('convert_response: loop does not start with trigger = build_trigger(...)')
    skip = (len(lb) > 1 and isinstance(lb[1], ast.If) and ast.unparse(lb[1].test) == 'trigger is None'
            and len(lb[1].body) == 1 and isinstance(lb[1].body[0], ast.Continue) and not lb[1].orelse)
    # no other try: anything else that raises aborts the whole response
    tries = [x for x in ast.walk(f) if isinstance(x, ast.Try)]
    if len(tries) > (1 if isinstance(first, ast.Try) else 0):
        raise Untranslatable('convert_response contains a try: statement the model does not know')
    return ('/-- `convert_response`: a tracepoint `build_trigger` returns None for is skipped (otherwise the\n'
            '    following `trigger.id` raises AttributeError and the whole response is lost) -/\n'
            f'def skipsUninterpretable : Bool := {lean_bool(skip)}\n\n'
            '/-- `convert_response`: a tracepoint whose conversion raises an `Exception` (metric of unknown type) is\n'
            '    skipped too (`try … except Exception: continue` around its build); otherwise the whole response is lost -/\n'
            f'def skipsUnconvertible : Bool := {lean_bool(skip_conv)}\n')


def gen_timer(utils, poll):
    t = find_def(utils, 'RepeatedTimer._target')
    body = strip_doc(t.body)
    if len(body) != 1 or not isinstance(body[0], ast.While) or body[0].orelse:
        raise Untranslatable('RepeatedTimer._target is not a single while loop')
    w = body[0]
    if ast.unparse(w.test) != 'not self.event.wait(self._time)':
        raise Untranslatable('RepeatedTimer._target loop test: ' + ast.unparse(w.test))
    exc = base = False
    inner = list(w.body)
    if len(inner) == 1 and isinstance(inner[0], ast.Try):
        tr = inner[0]
        if tr.finalbody or tr.orelse:
            raise Untranslatable('RepeatedTimer._target: try shape')
        for h in tr.handlers:
            if has_raise(h.body):
                raise Untranslatable('RepeatedTimer._target: handler re-raises')
            for n in ast.walk(h):
                if isinstance(n, (ast.Break, ast.Return)):
                    raise Untranslatable('RepeatedTimer._target: handler leaves the loop')
            e, b = catch_classes(h)
            exc, base = exc or e, base or b
        inner = list(tr.body)
    if len(inner) != 1 or ast.unparse(inner[0]) != 'self.function(*self.args, **self.kwargs)':
        raise Untranslatable('RepeatedTimer._target: loop body is not the function call')
    init = find_def(utils, 'RepeatedTimer.__init__')
    iv = [ast.unparse(s.value) for s in init.body
          if isinstance(s, ast.Assign) and ast.unparse(s.targets[0]) == 'self.interval']
    if len(iv) != 1:
        raise Untranslatable('RepeatedTimer.__init__: self.interval assigned %d times' % len(iv))
    coerced = iv[0] == 'float(interval)'
    if not coerced and iv[0] != 'interval':
        raise Untranslatable('RepeatedTimer.__init__: self.interval = ' + iv[0])
    tm = find_def(utils, 'RepeatedTimer._time')
    if not same_shape(tm, 'return self.interval - (time.time() - self.start_ts) % self.interval'):
        raise Untranslatable('RepeatedTimer._time changed')
    start = find_def(poll, 'LongPoll.start')
    src = [ast.unparse(s) for s in start.body]
    want = "self.timer = RepeatedTimer('Tracepoint Long Poll', self.config.POLL_TIMER, self.poll)"
    if want not in src or 'self.timer.start()' not in src or 'self.__initial_poll()' not in src:
        raise Untranslatable('LongPoll.start changed')
    ip = find_def(poll, 'LongPoll.__initial_poll')
    tries = [s for s in ip.body if isinstance(s, ast.Try)]
    guarded = (len(tries) == 1 and ast.unparse(tries[0].body[0]) == 'self.poll()'
               and any(catch_classes(h)[0] for h in tries[0].handlers))
    return ('/-- `RepeatedTimer._target`: `while not stopped: try: function() except <these>: log` -/\n'
            f'def timerCatchesException : Bool := {lean_bool(exc)}\n'
            f'def timerCatchesBase : Bool := {lean_bool(base)}\n\n'
            '/-- `RepeatedTimer.__init__` stores `float(interval)`: `_time` (evaluated outside the try) does\n'
            '    arithmetic on it, so a text interval (POLL_TIMER from the environment) needs the coercion -/\n'
            f'def intervalCoerced : Bool := {lean_bool(coerced)}\n\n'
            '/-- `LongPoll.start`: the first poll is made inline under `except Exception` -/\n'
            f'def initialPollGuarded : Bool := {lean_bool(guarded)}\n')


def gen_store(tp):
    """`update_new_config` split at its last statement, the submission of the apply task: everything before it is a
    plain store (`updateNewConfigStore`), the submission itself may be refused by a closed task handler."""
    f = find_def(tp, 'TracepointConfigService.update_new_config')
    body = strip_doc(f.body)
    if not body or not (isinstance(body[-1], ast.Expr) and isinstance(body[-1].value, ast.Call)
                        and ast.unparse(body[-1].value.func) == 'self.__trigger_update'):
        raise Untranslatable('update_new_config does not end with the submission of the apply task')
    for s in body[:-1]:
        for n in ast.walk(s):
            if isinstance(n, ast.Call):
                raise Untranslatable('update_new_config: call before the submission: ' + ast.unparse(n)[:60])
    return ('/-- `update_new_config` up to (not including) its last statement `self.__trigger_update(…)` -/\n'
            + st_tr().method(f, 'def updateNewConfigStore (st : Svc) (ts : Int) (new_hash : String) '
                                '(new_config : List Trig) : Svc', body=body[:-1])
            + '\n/-- `__trigger_update` when `submit_task` may refuse (`refused` = the exception a closed task handler\n'
              '    raises, none = the task is accepted): nothing is queued, the exception leaves the caller -/\n'
              'def triggerUpdateE (st : Svc) (refused : Option Py.Exn) : Svc × Option Py.Exn :=\n'
              '  match refused with\n  | none => (triggerUpdate st, none)\n  | some e => (st, some e)\n\n'
              '/-- `update_new_config` with that submission -/\n'
              'def updateNewConfigE (st : Svc) (refused : Option Py.Exn) (ts : Int) (new_hash : String) '
              '(new_config : List Trig) : Svc × Option Py.Exn :=\n'
              '  triggerUpdateE (updateNewConfigStore st ts new_hash new_config) refused\n')


POLL_ARGS = {'response.ts_nanos': 'ts', 'response.current_hash': 'h'}
POLL_TESTS = {'response.response_type == ResponseType.NO_CHANGE': '(rt == RespType.noChange)',
              'response.response_type == ResponseType.UPDATE': '(rt == RespType.update)'}


def gen_poll_program(poll):
    """LongPoll.poll statement by statement (`pollOnce`): how the call ends for every behaviour of the stub."""
    f = find_def(poll, 'LongPoll.poll')
    body = strip_doc(f.body)
    if len(body) != 4:
        raise Untranslatable('LongPoll.poll: stub / request / response / dispatch expected, got %d statements' % len(body))
    s_stub, s_req, s_resp, disp = body
    if not (isinstance(s_stub, ast.Assign) and ast.unparse(s_stub) == 'stub = PollConfigStub(self.grpc.channel)'):
        raise Untranslatable('LongPoll.poll: ' + ast.unparse(s_stub)[:80])
    if not (isinstance(s_req, ast.Assign) and ast.unparse(s_req.targets[0]) == 'request'
            and isinstance(s_req.value, ast.Call) and ast.unparse(s_req.value.func) == 'PollRequest'):
        raise Untranslatable('LongPoll.poll: ' + ast.unparse(s_req)[:80])
    if not (isinstance(s_resp, ast.Assign) and ast.unparse(s_resp.targets[0]) == 'response'
            and isinstance(s_resp.value, ast.Call) and ast.unparse(s_resp.value.func) == 'stub.poll'):
        raise Untranslatable('LongPoll.poll: ' + ast.unparse(s_resp)[:80])
    if not isinstance(disp, ast.If):
        raise Untranslatable('LongPoll.poll: the last statement is not the dispatch')
    for n in ast.walk(f):
        if isinstance(n, (ast.Try, ast.While, ast.For, ast.With)):
            raise Untranslatable('LongPoll.poll contains a try / loop / with the translation does not know')

    def arm(stmts, ind):
        pad = ' ' * ind
        real = [x for x in stmts if not (isinstance(x, ast.Expr) and isinstance(x.value, ast.Call)
                                         and ast.unparse(x.value.func).startswith('logging.'))]
        real = [x for x in real if not isinstance(x, ast.Pass)]
        if not real:
            return pad + '(st, none)'
        if len(real) == 1 and isinstance(real[0], ast.If):
            i = real[0]
            t = ast.unparse(i.test)
            if t not in POLL_TESTS:
                raise Untranslatable('LongPoll.poll dispatches on ' + t)
            return (f'{pad}if {POLL_TESTS[t]} then\n{arm(list(i.body), ind + 2)}\n{pad}else\n'
                    f'{arm(list(i.orelse), ind + 2)}')
        if len(real) == 1 and isinstance(real[0], ast.Expr) and isinstance(real[0].value, ast.Call):
            c = real[0].value
            fn = ast.unparse(c.func)
            args = [ast.unparse(a) for a in c.args]
            if c.keywords:
                raise Untranslatable('LongPoll.poll: keyword arguments in ' + ast.unparse(c)[:80])
            if fn == 'self.config.tracepoints.update_no_change' and len(args) == 1 and args[0] in POLL_ARGS:
                return f'{pad}(updateNoChange st {POLL_ARGS[args[0]]}, none)'
            if fn == 'self.config.tracepoints.update_new_config' and len(args) == 3 \
                    and args[2] == 'convert_response(response.response)' and args[0] in POLL_ARGS \
                    and args[1] in POLL_ARGS:
                # arguments are evaluated before the call: a conversion that raises leaves everything as it was
                return (f'{pad}match cfg with\n{pad}| none => (st, some Py.Exn.exc)\n'
                        f'{pad}| some cfg => updateNewConfigE st refused {POLL_ARGS[args[0]]} {POLL_ARGS[args[1]]} cfg')
        raise Untranslatable('LongPoll.poll: arm outside the subset: ' + '; '.join(ast.unparse(x)[:60] for x in real))
    # what is evaluated between the request being built and `stub.poll` being entered (its arguments): a failure there
    # (e.g. `self.grpc.metadata()` raising) leaves `poll` before any request reaches the stub
    pre_calls = [ast.unparse(n.func) for a in list(s_resp.value.args) + [k.value for k in s_resp.value.keywords]
                 for n in ast.walk(a) if isinstance(n, ast.Call)]
    pre_calls += [ast.unparse(n.func) for n in ast.walk(s_req.value) if isinstance(n, ast.Call) and n is not s_req.value]
    reads = ast.unparse(disp.test)
    if not reads.startswith('response.'):
        raise Untranslatable('LongPoll.poll: the dispatch does not start by reading the answer')
    return ('/-- what `stub.poll(request, …)` does: raises, hands back something that is not a PollResponse (reading\n'
            '    `response_type` off it raises AttributeError, an `Exception`), or an answer -/\n'
            'inductive StubOut where\n'
            '  /-- something evaluated before `stub.poll` is entered raises (' + ', '.join(sorted(set(pre_calls))) + '):\n'
            '      no request reaches the stub -/\n'
            '  | beforeSend (e : Py.Exn)\n  | raises (e : Py.Exn)\n  | garbage\n'
            '  | answer (rt : RespType) (ts : Int) (h : String)\nderiving Repr, DecidableEq\n\n'
            '/-- `LongPoll.poll`, statement by statement: the state it leaves and the exception that leaves it.\n'
            '    The request (carrying `requestHash st`) is built and sent first; `cfg` is\n'
            '    `convert_response(response.response)` (none = it raises an `Exception`), evaluated only in the arm that\n'
            '    uses it; `refused` is what `submit_task` raises when the task handler is closed. -/\n'
            'def pollOnce (st : Svc) (refused : Option Py.Exn) (out : StubOut) (cfg : Option (List Trig)) : '
            'Svc × Option Py.Exn :=\n'
            '  match out with\n  | .beforeSend e => (st, some e)\n  | .raises e => (st, some e)\n'
            '  | .garbage => (st, some Py.Exn.exc)\n'
            '  | .answer rt ts h =>\n' + arm([disp], 4) + '\n\n'
            '/-- does the request reach the stub (is `current_hash` reported) -/\n'
            'def StubOut.sendsRequest : StubOut → Bool\n  | .beforeSend _ => false\n  | _ => true\n\n'
            '/-- calls evaluated after the request was built and before `stub.poll` is entered -/\n'
            f'def pollPreSendCalls : List String := [{", ".join(lean_str(c) for c in sorted(set(pre_calls)))}]\n')


def gen_timer_skeleton(utils, poll):
    ctx = skeleton.Context.for_repo()
    sk = ctx.skeleton(UTILS, 'RepeatedTimer._target')
    t = find_def(utils, 'RepeatedTimer._target')
    w = strip_doc(t.body)[0]
    stop = [ast.unparse(s) for s in strip_doc(find_def(utils, 'RepeatedTimer.stop').body)]
    sets = 'self.event.set()' in stop
    joins = 'self.thread.join()' in stop and sets and stop.index('self.event.set()') < stop.index('self.thread.join()')
    start = [ast.unparse(s) for s in strip_doc(find_def(utils, 'RepeatedTimer.start').body)]
    if start != ['self.thread.start()']:
        raise Untranslatable('RepeatedTimer.start changed: %s' % start)
    init = [ast.unparse(s) for s in strip_doc(find_def(utils, 'RepeatedTimer.__init__').body)]
    if 'self.thread = Thread(target=self._target, name=self.name)' not in init or 'self.event = Event()' not in init:
        raise Untranslatable('RepeatedTimer.__init__: thread / event changed')
    sd = find_def(poll, 'LongPoll.shutdown')
    sdb = strip_doc(sd.body)
    stops = (len(sdb) >= 1 and isinstance(sdb[0], ast.If) and ast.unparse(sdb[0].test) == 'self.timer'
             and [ast.unparse(x) for x in sdb[0].body] == ['self.timer.stop()'] and not sdb[0].orelse)
    # the calls of the loop test that stand outside every `try` of the loop body
    return ('/-- `RepeatedTimer._target` as a guard skeleton (harness/skeleton.py): the calls of the loop test come first\n'
            '    in the loop body (and once more after the loop, for the test that ends it) -/\n'
            'def timerSkeleton : Guard.Stmt :=\n' + skeleton.to_lean(sk, 2) + '\n\n'
            '/-- source text of the loop test -/\n'
            f'def timerLoopId : String := {lean_str(ast.unparse(w.test))}\n\n'
            '/-- `RepeatedTimer.stop`: sets the event the loop test waits on, then joins the thread -/\n'
            f'def timerStopSetsEvent : Bool := {lean_bool(sets)}\n'
            f'def timerStopJoins : Bool := {lean_bool(joins)}\n\n'
            '/-- `LongPoll.shutdown` stops the timer it started -/\n'
            f'def pollShutdownStopsTimer : Bool := {lean_bool(stops)}\n')


def check_api(deep, cfgsvc, tp):
    reg = find_def(deep, 'Deep.register_tracepoint')
    tail = [ast.unparse(s) for s in reg.body[-2:]]
    if tail != ['tp_id = self.config.tracepoints.add_custom(path, line, args, watches, metrics)',
                'return TracepointRegistration(tp_id, self.config.tracepoints)']:
        raise Untranslatable('Deep.register_tracepoint changed: %s' % tail)
    ini = find_def(deep, 'TracepointRegistration.__init__')
    got = sorted(ast.unparse(s.target) + '=' + ast.unparse(s.value) for s in ini.body if isinstance(s, ast.AnnAssign))
    if got != ['self.__id=_id', 'self.__tpServ=tracepoints']:
        raise Untranslatable('TracepointRegistration.__init__ changed: %s' % got)
    if not same_shape(find_def(deep, 'TracepointRegistration.unregister'), 'self.__tpServ.remove_custom(self.__id)'):
        raise Untranslatable('TracepointRegistration.unregister changed')
    dinit = [ast.unparse(s) for s in find_def(deep, 'Deep.__init__').body]
    if 'self.config.set_task_handler(self.task_handler)' not in dinit:
        raise Untranslatable('Deep.__init__ no longer hands the task handler to the config service')
    if not same_shape(find_def(cfgsvc, 'ConfigService.set_task_handler'),
                      'self._tracepoint_config.set_task_handler(task_handler)'):
        raise Untranslatable('ConfigService.set_task_handler changed')
    if not same_shape(find_def(tp, 'TracepointConfigService.set_task_handler'), 'self._task_handler = task_handler'):
        raise Untranslatable('TracepointConfigService.set_task_handler changed')
    if not same_shape(find_def(tp, 'TracepointConfigService.add_listener'), 'self._listeners.append(listener)'):
        raise Untranslatable('TracepointConfigService.add_listener changed')


def generate():
    tp, deep, poll, th = load(TPCS), load(DEEP), load(POLL), load(TH)
    utils, grpc, cfgsvc = load(UTILS), load(GRPC), load(CFGSVC)
    check_api(deep, cfgsvc, tp)
    parts = [header('tracepoint configuration service, poll dispatch, update listener, poll timer',
                    [TPCS, DEEP, POLL, TH, UTILS, GRPC, CFGSVC]).replace(
        'import DeepModel.Py\n', 'import DeepModel.Py\nimport DeepModel.Model.Guard\n'), PRELUDE]
    parts.append(gen_init(tp))
    parts.append(gen_trigger_update(tp))
    parts.append('/-- `update_no_change` -/\n' + st_tr().method(
        find_def(tp, 'TracepointConfigService.update_no_change'),
        'def updateNoChange (st : Svc) (ts : Int) : Svc'))
    parts.append('/-- `update_new_config` -/\n' + st_tr().method(
        find_def(tp, 'TracepointConfigService.update_new_config'),
        'def updateNewConfig (st : Svc) (ts : Int) (new_hash : String) (new_config : List Trig) : Svc'))
    parts.append(gen_add_custom(tp))
    parts.append(gen_remove_custom(tp))
    parts.append(gen_update_listeners(tp))
    parts.append(gen_handler(th))
    parts.append(gen_poll(poll, tp))
    parts.append(gen_convert(grpc))
    parts.append(gen_timer(utils, poll))
    parts.append(gen_store(tp))
    parts.append(gen_add_custom(tp, refused=True))
    parts.append(gen_remove_custom(tp, refused=True))
    parts.append(gen_poll_program(poll))
    parts.append(gen_timer_skeleton(utils, poll))
    parts.append('end Extracted.ConfigSvc\n')
    return '\n'.join(parts)
