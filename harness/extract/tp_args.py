"""Extracted/TpArgs.lean — how argument VALUES are read as integers (C11 / C04): `TracePointConfig.get_arg`,
`get_arg_int` and the properties built on them (api/tracepoint/tracepoint_config.py), `LocationAction.__get_int`
(api/tracepoint/trigger.py), regenerated from /repo.

The values of a tracepoint's arguments are text when they come from the service (`map<string,string>`), but
`register_tracepoint` passes on whatever the program gave: None, bool, int, float.  What `int(value)` does with each
is Python's, not the agent's; it is written out here (`pyInt`) and exercised differentially.  For text, CPython first
maps every Unicode DECIMAL digit to its ASCII digit and every Unicode space to ' ' (anything else non-ASCII to '?') and
then parses ASCII — the two tables are read from the RUNNING interpreter's Unicode database (`unicodedata`), so the model
follows the interpreter the agent runs on.
"""
import ast
import sys
import unicodedata

from pylean import Untranslatable, load, find_def, same_shape, header, lean_str, module_constants

OUT = 'DeepModel/Extracted/TpArgs.lean'
TRIGGER = 'src/deep/api/tracepoint/trigger.py'
TPCFG = 'src/deep/api/tracepoint/tracepoint_config.py'
CONSTS = 'src/deep/api/tracepoint/constants.py'

GET_ARG = '''
if name in self._args:
    return self._args[name]
return default_value
'''
GET_ARG_INT = '''
try:
    return int(self.get_arg(name, default_value))
except ValueError:
    return default_value
'''
LOC_GET_INT = '''
try:
    return int(self.__config.get(name, default_value))
except ValueError:
    return default_value
'''


def nd_zeros():
    zs = []
    for c in range(128, 0x110000):
        ch = chr(c)
        if unicodedata.decimal(ch, None) == 0:
            if [unicodedata.decimal(chr(c + k), None) for k in range(10)] != list(range(10)):
                raise Untranslatable('Unicode decimal digits no longer come in runs of ten at U+%04X' % c)
            zs.append(c)
    return zs


def u_spaces():
    return [c for c in range(128, 0x110000) if chr(c).isspace()]


def default_text(node):
    """Lean ArgVal of a default written in the source"""
    if isinstance(node, ast.Constant) and node.value is None:
        return 'ArgVal.none'
    if isinstance(node, ast.Constant) and isinstance(node.value, bool):
        raise Untranslatable('bool default')
    if isinstance(node, ast.Constant) and isinstance(node.value, int):
        return f'(ArgVal.int ({node.value} : Int))'
    if isinstance(node, ast.Constant) and isinstance(node.value, str):
        return f'(ArgVal.str {lean_str(node.value)})'
    raise Untranslatable('default value is not a literal: ' + ast.unparse(node))


def generate():
    tp = load(TPCFG)
    trig = load(TRIGGER)
    consts = module_constants(load(CONSTS))
    if not same_shape(find_def(tp, 'TracePointConfig.get_arg'), GET_ARG):
        raise Untranslatable('TracePointConfig.get_arg changed shape')
    if not same_shape(find_def(tp, 'TracePointConfig.get_arg_int'), GET_ARG_INT):
        raise Untranslatable('TracePointConfig.get_arg_int changed shape')
    if not same_shape(find_def(trig, 'LocationAction.__get_int'), LOC_GET_INT):
        raise Untranslatable('LocationAction.__get_int changed shape')
    parts = [header('argument values read as integers', [TPCFG, TRIGGER, CONSTS]), 'namespace Extracted.TpArgs\n']
    zs, sp = nd_zeros(), u_spaces()
    parts.append('/-- code points of the digit ZERO of every Unicode decimal-digit run (each run is ten consecutive code points);\n'
                 f'    read from the running interpreter: unicodedata {unicodedata.unidata_version} -/\n'
                 'def ndZeros : List Nat :=\n  [' + ', '.join(str(z) for z in zs) + ']\n')
    parts.append('/-- non-ASCII code points for which `str.isspace()` holds -/\n'
                 'def uSpaces : List Nat :=\n  [' + ', '.join(str(z) for z in sp) + ']\n')
    parts.append(('''/-- a value found in a tracepoint's arguments / an action's config.  A finite float is given by its truncation toward
    zero (what `int(float)` returns; computed by the harness with `math.trunc`). -/
inductive ArgVal where
  | str (s : String)
  | none
  | bool (b : Bool)
  | int (i : Int)
  | floatFinite (trunc : Int)
  | floatNan
  | floatInf
  | other                       -- list, dict, object without `__int__`/`__index__`/`__trunc__`
deriving Repr, DecidableEq

/-- `int(v)`: a value, `ValueError` (the only class the agent catches here), or another exception by class name -/
inductive IntOutcome where
  | ok (i : Int)
  | valueError
  | raised (cls : String)
deriving Repr, DecidableEq

/-- CPython's `_PyUnicode_TransformDecimalAndSpaceToASCII`: ASCII unchanged, Unicode space -> ' ', Unicode decimal digit ->
    its ASCII digit, any other non-ASCII character -> '?' -/
def asciiOf (c : Char) : Char :=
  if c.toNat < 128 then c
  else if uSpaces.contains c.toNat then ' '
  else match ndZeros.find? (fun z => z ≤ c.toNat ∧ c.toNat < z + 10) with
    | some z => Char.ofNat (48 + (c.toNat - z))
    | none => '?'

def toAsciiDecimal (s : String) : String := String.ofList (s.toList.map asciiOf)

/-- `sys.get_int_max_str_digits()` of the interpreter the extraction ran on (0 = no limit): integer TEXT with more decimal
    digits raises ValueError (every digit counts, leading zeros too; sign, spaces, underscores do not) -/
def maxStrDigits : Nat := %d

def digitCount (s : String) : Nat := (s.toList.filter Char.isDigit).length

/-- `int(s)` of a `str` -/
def parseIntU (s : String) : Option Int :=
  if maxStrDigits != 0 && decide (digitCount (toAsciiDecimal s) > maxStrDigits) then none else Py.parseInt (toAsciiDecimal s)

def pyInt : ArgVal → IntOutcome
  | .str s => match parseIntU s with | some i => .ok i | none => .valueError
  | .none => .raised "TypeError"
  | .bool b => .ok (if b then 1 else 0)
  | .int i => .ok i
  | .floatFinite t => .ok t
  | .floatNan => .valueError
  | .floatInf => .raised "OverflowError"
  | .other => .raised "TypeError"

/-- `dict` with text keys, first binding wins -/
abbrev ArgMap := List (String × ArgVal)
''').replace('%d', str(sys.get_int_max_str_digits())))
    parts.append('/-- `TracePointConfig.get_arg`: `if name in self._args: return self._args[name]` / `return default_value` -/\n'
                 'def get_arg (args : ArgMap) (name : String) (default_value : ArgVal) : ArgVal :=\n'
                 '  if (args.lookup name).isSome then (args.lookup name).getD default_value else default_value\n')
    parts.append('/-- `TracePointConfig.get_arg_int`: `try: return int(self.get_arg(name, default_value))`\n'
                 '    `except ValueError: return default_value` — any other exception leaves the method (`.error cls`) -/\n'
                 'def get_arg_int (args : ArgMap) (name : String) (default_value : Int) : Except String Int :=\n'
                 '  match pyInt (get_arg args name (ArgVal.int default_value)) with\n'
                 '  | .ok i => .ok i\n  | .valueError => .ok default_value\n  | .raised cls => .error cls\n')
    parts.append('/-- `LocationAction.__get_int`: `try: return int(self.__config.get(name, default_value))`\n'
                 '    `except ValueError: return default_value` -/\n'
                 'def loc_get_int (config : ArgMap) (name : String) (default_value : Int) : Except String Int :=\n'
                 '  match pyInt ((config.lookup name).getD (ArgVal.int default_value)) with\n'
                 '  | .ok i => .ok i\n  | .valueError => .ok default_value\n  | .raised cls => .error cls\n')
    # the properties built on them: which key, which default
    for prop, fn in (('frame_type', 'get_arg'), ('stack_type', 'get_arg'), ('condition', 'get_arg'),
                     ('fire_count', 'get_arg_int')):
        p = find_def(tp, 'TracePointConfig.' + prop)
        rets = [s for s in p.body if isinstance(s, ast.Return)]
        if len(rets) != 1 or not isinstance(rets[0].value, ast.Call) or ast.unparse(rets[0].value.func) != 'self.' + fn \
                or len(rets[0].value.args) != 2 or not isinstance(rets[0].value.args[0], ast.Name):
            raise Untranslatable(f'TracePointConfig.{prop} changed shape')
        key, dflt = rets[0].value.args
        keyv = consts.get(key.id)
        if not isinstance(keyv, str):
            raise Untranslatable(f'TracePointConfig.{prop}: key {key.id} is not a text constant')
        if isinstance(dflt, ast.Name):
            if not isinstance(consts.get(dflt.id), str):
                raise Untranslatable(f'TracePointConfig.{prop}: default {dflt.id} is not a text constant')
            dflt = ast.Constant(consts[dflt.id])
        if fn == 'get_arg':
            parts.append(f'/-- `TracePointConfig.{prop}` -/\ndef tp_{prop} (args : ArgMap) : ArgVal := '
                         f'get_arg args {lean_str(keyv)} {default_text(dflt)}\n')
        else:
            if not (isinstance(dflt, ast.Constant) and isinstance(dflt.value, int) and not isinstance(dflt.value, bool)):
                raise Untranslatable(f'TracePointConfig.{prop}: default is not an int literal')
            parts.append(f'/-- `TracePointConfig.{prop}` -/\ndef tp_{prop} (args : ArgMap) : Except String Int := '
                         f'get_arg_int args {lean_str(keyv)} ({dflt.value} : Int)\n')
    for prop in ('fire_count', 'fire_period'):
        p = find_def(trig, 'LocationAction.' + prop)
        rets = [s for s in p.body if isinstance(s, ast.Return)]
        if len(rets) != 1 or not isinstance(rets[0].value, ast.Call) \
                or ast.unparse(rets[0].value.func) != 'self.__get_int' or len(rets[0].value.args) != 2:
            raise Untranslatable(f'LocationAction.{prop} changed shape')
        key, dflt = rets[0].value.args
        keyv = consts.get(key.id) if isinstance(key, ast.Name) else None
        if not isinstance(keyv, str) or not (isinstance(dflt, ast.Constant) and isinstance(dflt.value, int)):
            raise Untranslatable(f'LocationAction.{prop}: key/default changed')
        parts.append(f'/-- `LocationAction.{prop}` -/\ndef loc_{prop} (config : ArgMap) : Except String Int := '
                     f'loc_get_int config {lean_str(keyv)} ({dflt.value} : Int)\n')
    parts.append('end Extracted.TpArgs\n')
    return '\n'.join(parts)
