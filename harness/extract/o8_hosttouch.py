"""Extracted/HostTouch.lean — every operation of the agent's collection / evaluation code whose operand can ALIAS HOST
STATE (C01, first sentence: "same results, exceptions, output and final data").

A value aliases host state when it is derived from a frame (`frame`, `.f_locals`, `.f_globals`, `.f_back` — the f_locals
of a module-body or class-body frame IS the live namespace), from `eval(...)` of a tracepoint expression, or from such a
value by attribute access, subscripting, iteration, `getattr`, the dict/sequence access methods, or by being wrapped in
an agent object that carries it (`NodeValue(name, value)` …: the carrier counts as aliasing too — an over-approximation).
The taint is propagated inside each function, through `self.<attr>` of a class, and from call arguments to the
parameters of every analysed function of that name (fixed point).  For each operation on such a value one row:

    read    getattr|getitem|str|repr|len|number|iter|contains|eq|bool|hash|type|format|method:<name>
    write   setitem|delitem|setattr|delattr|method:<mutator>        <- must not exist (theorem C01.c01_no_host_writes)
    call    a host callable is CALLED            enter  `with <host object>`
    arith   an arithmetic dunder / abs / round   consume `next(<host iterator>)`      <- none of these is allowed
    pass    call:<callee>   the value is handed to code outside the analysed files; the callee is named (bare name,
            `self.m`, `local.m` = method of a local agent container/record, else the full dotted text) and must be on
            the REVIEWED list `HostTouch.allowedCallees` — anything else (`operator.setitem`, `dict.update`, `exec`,
            a helper in a file outside FILES, ctypes…) fails `c01_host_touch_in_table`.
  Functions have a RETURN summary (fixed point over their `return`s; properties too), so the value of
  `self.trigger_context.evaluate_expression(..)` / `.locals` stays host-aliased in the caller.
  Known limits (disclosed, not guessed away): `iter` rows (for / list() / tuple() / sorted()…) CONSUME the value when it is
  a one-shot iterator — the collector restricts them by exact type name (C05's LIST_LIKE_TYPES), which this table does not
  see (hosts `one_shot` of the differential oracle do); methods are resolved by bare name (a host object's method that
  has the name of an agent method is taken for the agent's); no aliasing through containers beyond one subscript.

Raise `Untranslatable` for syntax the walker does not know (never guessed).  Trusted: this analysis (names resolved by
simple name).  Dynamic cross-check: the recording host `spy` of harness/hostprogs.py (one corpus scenario of props/c01.py):
every dunder the real agent touches on it while `trace_call` is active must be explained by a row of the table (Lean driver
op `host_touch`) and must be a side-effect-free protocol (oracle).
"""
import ast

import pylean
from pylean import Untranslatable, lean_str

OUT = 'DeepModel/Extracted/HostTouch.lean'

FILES = ['src/deep/processor/frame_collector.py', 'src/deep/processor/variable_processor.py',
         'src/deep/processor/variable_set_processor.py', 'src/deep/processor/bfs/__init__.py',
         'src/deep/processor/context/trigger_context.py', 'src/deep/processor/context/action_context.py',
         'src/deep/processor/context/snapshot_action.py', 'src/deep/processor/context/log_action.py',
         'src/deep/processor/context/metric_action.py', 'src/deep/processor/context/span_action.py',
         'src/deep/processor/context/callback_context.py', 'src/deep/processor/trigger_handler.py']
ROOT_ATTRS = {'f_locals', 'f_globals', 'f_back'}
FRESH = {'str', 'repr', 'len', 'id', 'type', 'isinstance', 'hash', 'bool', 'int', 'float', 'hasattr', 'callable', 'issubclass'}
ITER_BUILTINS = {'list', 'tuple', 'iter', 'sorted', 'reversed', 'enumerate', 'zip', 'set', 'frozenset', 'dict', 'sum', 'any',
                 'all', 'min', 'max', 'map', 'filter'}
ARITH_BUILTINS = {'abs', 'round', 'divmod', 'pow'}
READ_PROTO = {'str': 'str', 'repr': 'repr', 'len': 'len', 'hash': 'hash', 'bool': 'bool', 'id': 'type', 'type': 'type',
              'isinstance': 'type', 'issubclass': 'type', 'callable': 'type', 'hasattr': 'getattr', 'getattr': 'getattr',
              'dir': 'getattr', 'vars': 'getattr', 'int': 'number', 'float': 'number', 'format': 'format'}
MUTATORS = {'pop', 'popitem', 'clear', 'update', 'setdefault', 'append', 'extend', 'insert', 'remove', 'sort', 'reverse',
            'add', 'discard', 'appendleft', 'popleft', 'rotate', 'send', 'throw', 'close', 'write', 'seek', 'truncate',
            '__setitem__', '__delitem__', '__setattr__', '__delattr__', '__next__', 'difference_update',
            'intersection_update', 'symmetric_difference_update'}


# callback parameters: `breadth_first_search(root, consumer)` is called with `VariableSetProcessor.search_function`
CALLBACK_EDGES = {'consumer': ['search_function']}


class Fn:
    def __init__(self, rel, qual, node, cls):
        self.rel, self.qual, self.node, self.cls = rel, qual, node, cls
        a = node.args
        self.params = [x.arg for x in a.posonlyargs + a.args] + [x.arg for x in a.kwonlyargs]
        self.is_method = cls is not None and self.params[:1] == ['self']
        self.key = rel[len('src/'):] + ':' + qual
        self.ret = 0                # level of what the function can return (fixed point over its `return`s)
        self.is_property = any(ast.unparse(d) in ('property', 'abc.abstractproperty') for d in node.decorator_list)
        self.locals = set(self.params) | {n.id for n in ast.walk(node) if isinstance(n, ast.Name) and isinstance(n.ctx, ast.Store)}
        self.tainted = {}
        for x in a.posonlyargs + a.args + a.kwonlyargs:
            ann = ast.unparse(x.annotation) if x.annotation is not None else ''
            if x.arg == 'frame' or 'FrameType' in ann:
                self.tainted[x.arg] = 2


def functions():
    out = []
    for rel in FILES:
        try:
            tree = pylean.load(rel)
        except FileNotFoundError:
            continue

        def walk(body, prefix, cls):
            for n in body:
                if isinstance(n, (ast.FunctionDef, ast.AsyncFunctionDef)):
                    out.append(Fn(rel, prefix + n.name, n, cls))
                    walk(n.body, prefix + n.name + '.', None)
                elif isinstance(n, ast.ClassDef):
                    walk(n.body, prefix + n.name + '.', prefix + n.name)
                elif isinstance(n, (ast.If, ast.Try, ast.With, ast.For, ast.While)):
                    for fld in ('body', 'orelse', 'finalbody'):
                        walk(getattr(n, fld, []) or [], prefix, cls)
        walk(tree.body, '', None)
    return out


class Walker:
    """one pass over one function; `self.changed` when a new taint fact (parameter / self attribute) was learnt"""

    def __init__(self, fn, by_name, self_attrs, rows):
        self.fn, self.by_name, self.self_attrs, self.rows = fn, by_name, self_attrs, rows
        self.env = dict(fn.tainted)
        self.changed = False

    # ------------------------------------------------------------------ taint of an expression
    def t(self, e):
        """0 = agent value; 2 = ALIASES host state; 1 = CARRIER: an agent object / fresh container that holds such values"""
        if e is None or isinstance(e, (ast.Constant, ast.Lambda)):
            return 0
        if isinstance(e, ast.Name):
            return self.env.get(e.id, 0)
        if isinstance(e, ast.Attribute):
            if e.attr in ROOT_ATTRS:
                return 2
            if isinstance(e.value, ast.Name) and e.value.id == 'self' and self.fn.cls:
                return self.self_attrs.get((self.fn.rel, self.fn.cls, e.attr), 0)
            # what is read OUT OF a carrier (`node.value`, `node_value.value`) may be the host value itself
            base = self.t(e.value)
            props = [g for g in self.by_name.get(e.attr, []) if g.is_property]
            if base == 1 and props:
                # a property of an agent carrier class: what it returns is known (Node.depth is a number, Node.value is the
                # host value); an attribute that is not a known property is taken to be the host value
                return 2 if max(g.ret for g in props) else 0
            lv = 2 if base else 0
            return max([lv] + [g.ret for g in props])
        if isinstance(e, ast.Subscript):
            return 2 if self.t(e.value) else 0          # an item of an agent-built container may be the host value
        if isinstance(e, ast.Starred):
            return self.t(e.value)
        if isinstance(e, ast.Call):
            f = e.func
            args = list(e.args) + [k.value for k in e.keywords]
            amax = max([self.t(a) for a in args] + [0])
            if isinstance(f, ast.Name):
                if f.id == 'eval':
                    return 2
                if f.id in FRESH:
                    return 0
                if f.id == 'getattr' or f.id in ITER_BUILTINS or f.id == 'next':
                    return amax
                return max([min(amax, 1)] + [g.ret for g in self.by_name.get(f.id, [])])
            if isinstance(f, ast.Attribute):
                rets = [g.ret for g in self.by_name.get(f.attr, []) if not g.is_property]
                r = self.t(f.value)
                if r:
                    r = 0 if f.attr in ('startswith', 'endswith', 'format', 'join', 'lower', 'upper', 'strip', 'split') else r
                    return max([r] + rets)
                return max([min(amax, 1)] + rets)
            return 2 if self.t(f) == 2 else min(amax, 1)
        if isinstance(e, ast.IfExp):
            return max(self.t(e.body), self.t(e.orelse))
        if isinstance(e, ast.BoolOp):
            return max(self.t(v) for v in e.values)
        if isinstance(e, (ast.Tuple, ast.List, ast.Set)):
            return min(max([self.t(v) for v in e.elts] + [0]), 1)
        if isinstance(e, ast.Dict):
            return min(max([self.t(v) for v in e.values if v is not None] + [0]), 1)
        if isinstance(e, (ast.ListComp, ast.SetComp, ast.GeneratorExp)):
            self.bind_generators(e.generators)
            return min(self.t(e.elt), 1)
        if isinstance(e, ast.DictComp):
            self.bind_generators(e.generators)
            return min(self.t(e.value), 1)
        if isinstance(e, ast.NamedExpr):
            lv = self.t(e.value)
            if lv:
                self.bind(e.target, lv)
            return lv
        if isinstance(e, (ast.BinOp, ast.UnaryOp, ast.Compare, ast.JoinedStr, ast.FormattedValue, ast.Await, ast.Yield,
                          ast.YieldFrom, ast.Slice)):
            return 0
        raise Untranslatable(f'host-touch analysis: expression {type(e).__name__} in {self.fn.key}')

    def bind_generators(self, gens):
        for g in gens:
            if self.t(g.iter):
                self.bind(g.target, self.t(g.iter))

    def bind(self, target, lv=2):
        if isinstance(target, ast.Name):
            if self.env.get(target.id, 0) < lv:
                self.env[target.id] = lv
        elif isinstance(target, (ast.Tuple, ast.List)):
            for x in target.elts:
                self.bind(x, lv)
        elif isinstance(target, ast.Starred):
            self.bind(target.value, lv)
        elif isinstance(target, ast.Attribute) and isinstance(target.value, ast.Name) and target.value.id == 'self' \
                and self.fn.cls:
            k = (self.fn.rel, self.fn.cls, target.attr)
            if self.self_attrs.get(k, 0) < lv:
                self.self_attrs[k] = lv
                self.changed = True

    # ------------------------------------------------------------------ rows
    def row(self, kind, proto, node):
        self.rows.add((self.fn.key, kind, proto, ' '.join(ast.unparse(node).split())[:60]))

    def ops(self, e):
        """record the operations of expression `e` (recursively) whose operand aliases host state"""
        for n in ast.walk(e):
            if isinstance(n, (ast.ListComp, ast.SetComp, ast.GeneratorExp, ast.DictComp)):
                self.bind_generators(n.generators)
        for n in ast.walk(e):
            if isinstance(n, ast.Attribute) and isinstance(n.ctx, ast.Load) and self.t(n.value) \
                    and not (isinstance(n.value, ast.Name) and n.value.id == 'self'):
                self.row('read', 'getattr', n)
            elif isinstance(n, ast.Subscript) and isinstance(n.ctx, ast.Load) and self.t(n.value):
                self.row('read', 'getitem', n)
            elif isinstance(n, ast.Call):
                self.call(n)
            elif isinstance(n, ast.Compare):
                operands = [n.left] + list(n.comparators)
                for op, l, r in zip(n.ops, operands, operands[1:]):
                    if isinstance(op, (ast.In, ast.NotIn)) and self.t(r):
                        self.row('read', 'contains', n)
                    elif isinstance(op, (ast.Eq, ast.NotEq, ast.Lt, ast.LtE, ast.Gt, ast.GtE)) and (self.t(l) or self.t(r)):
                        self.row('read', 'eq', n)
            elif isinstance(n, ast.BoolOp) and any(self.t(v) for v in n.values[:-1]):
                self.row('read', 'bool', n)
            elif isinstance(n, ast.UnaryOp) and isinstance(n.op, ast.Not) and self.t(n.operand):
                self.row('read', 'bool', n)
            elif isinstance(n, ast.IfExp) and self.t(n.test):
                self.row('read', 'bool', n)
            elif isinstance(n, ast.FormattedValue) and self.t(n.value):
                self.row('read', 'format', n)
            elif isinstance(n, ast.BinOp) and isinstance(n.op, ast.Mod) and self.t(n.right) and not self.t(n.left):
                self.row('read', 'str', n)
            elif isinstance(n, ast.BinOp) and (self.t(n.left) == 2 or self.t(n.right) == 2):
                self.row('arith', type(n.op).__name__, n)
            elif isinstance(n, ast.UnaryOp) and not isinstance(n.op, ast.Not) and self.t(n.operand) == 2:
                self.row('arith', type(n.op).__name__, n)
            elif isinstance(n, (ast.ListComp, ast.SetComp, ast.GeneratorExp, ast.DictComp)):
                for g in n.generators:
                    if self.t(g.iter):
                        self.row('read', 'iter', g.iter)
            elif isinstance(n, ast.Starred) and self.t(n.value):
                self.row('read', 'iter', n)

    def call(self, n):
        f = n.func
        args = list(n.args)
        kws = {k.arg: k.value for k in n.keywords if k.arg}
        tainted_args = [a for a in args + list(kws.values()) if self.t(a)]
        if not isinstance(f, ast.Attribute) and self.t(f) == 2:
            self.row('call', 'call', n)                 # CALLING a host callable runs host code with side effects
            return
        if isinstance(f, ast.Name):
            if f.id == 'next' and tainted_args:
                self.row('consume', 'next', n)          # advances a host iterator
                return
            if f.id in ARITH_BUILTINS and tainted_args:
                self.row('arith', f.id, n)
                return
            if f.id in READ_PROTO and tainted_args:
                self.row('read', READ_PROTO[f.id], n)
                return
            if f.id in ITER_BUILTINS and tainted_args:
                self.row('read', 'iter', n)
                return
            if f.id in ('setattr', 'delattr') and args and self.t(args[0]):
                self.row('write', 'setattr' if f.id == 'setattr' else 'delattr', n)
                return
            name = f.id
            skip_self = False
        elif isinstance(f, ast.Attribute):
            if self.t(f.value) == 2:
                self.row('write' if f.attr in MUTATORS else 'read', 'method:' + f.attr, n)
            name = f.attr
            skip_self = True
        else:
            return
        if not tainted_args:
            return
        targets = self.by_name.get(name, [])
        if name in CALLBACK_EDGES:
            # a callback parameter: the functions handed in for it (declared; checked to exist — never guessed)
            targets = [g for c in CALLBACK_EDGES[name] for g in self.by_name.get(c, [])]
            if not targets:
                raise Untranslatable(f'host-touch analysis: no function {CALLBACK_EDGES[name]} for the callback `{name}`')
            skip_self = True
        if name[:1].isupper():                     # a constructor: the parameters of __init__ of that class
            targets = [g for g in self.by_name.get('__init__', []) if g.cls and g.cls.split('.')[-1] == name]
            skip_self = True
        if not targets:
            self.row('pass', 'call:' + self.callee(f), n)
            return
        for g in targets:
            params = g.params[1:] if (g.is_method and skip_self) else g.params
            for i, a in enumerate(args):
                if i < len(params) and g.tainted.get(params[i], 0) < self.t(a):
                    g.tainted[params[i]] = self.t(a)
                    self.changed = True
            for k, a in kws.items():
                if k in g.params and g.tainted.get(k, 0) < self.t(a):
                    g.tainted[k] = self.t(a)
                    self.changed = True

    def callee(self, f):
        """how the callee of a `pass` row is named: a bare name; `self.<method>`; `local.<method>` for a method of a local
        variable / parameter of the function (an agent container or record); otherwise the full dotted text
        (`operator.setitem`, `dict.update`, `os.path.basename`, `ctypes.pythonapi.PyFrame_LocalsToFast`)"""
        if isinstance(f, ast.Name):
            return f.id
        root = f
        while isinstance(root, (ast.Attribute, ast.Subscript, ast.Call)):
            root = root.value if not isinstance(root, ast.Call) else root.func
        if isinstance(root, ast.Name):
            if root.id == 'self':
                return 'self.' + f.attr
            if root.id in self.fn.locals:
                return 'local.' + f.attr
        return ' '.join(ast.unparse(f).split())[:60]

    # ------------------------------------------------------------------ statements
    def target_ops(self, tgt, deleting=False):
        if isinstance(tgt, ast.Subscript) and self.hostish(tgt.value):
            self.row('write', 'delitem' if deleting else 'setitem', tgt)
        elif isinstance(tgt, ast.Attribute) and self.hostish(tgt.value) \
                and not (isinstance(tgt.value, ast.Name) and tgt.value.id == 'self'):
            self.row('write', 'delattr' if deleting else 'setattr', tgt)
        elif isinstance(tgt, (ast.Tuple, ast.List)):
            for x in tgt.elts:
                self.target_ops(x, deleting)
        if isinstance(tgt, (ast.Subscript, ast.Attribute)):
            self.ops(tgt.value)
            if isinstance(tgt, ast.Subscript):
                self.ops(tgt.slice)

    def hostish(self, base):
        """the base of a store/delete is host state: it aliases it, or it is something read OUT OF a carrier
        (`node.value[k] = …`); a carrier itself (the agent's own queue, list of nodes, record) is the agent's to change"""
        lv = self.t(base)
        if lv == 2:
            return True
        if lv == 1 and isinstance(base, (ast.Attribute, ast.Subscript)):
            root = base
            while isinstance(root, (ast.Attribute, ast.Subscript)):
                root = root.value
            return not (isinstance(root, ast.Name) and root.id == 'self')
        return False

    def stmts(self, body):
        for s in body:
            self.stmt(s)

    def stmt(self, s):
        if isinstance(s, (ast.FunctionDef, ast.AsyncFunctionDef, ast.ClassDef, ast.Import, ast.ImportFrom, ast.Pass,
                          ast.Break, ast.Continue, ast.Global, ast.Nonlocal)):
            return
        if isinstance(s, ast.Expr):
            self.ops(s.value)
        elif isinstance(s, ast.Assign):
            self.ops(s.value)
            for tg in s.targets:
                self.target_ops(tg)
                if self.t(s.value):
                    self.bind(tg, self.t(s.value))
        elif isinstance(s, ast.AnnAssign):
            if s.value is not None:
                self.ops(s.value)
                self.target_ops(s.target)
                if self.t(s.value):
                    self.bind(s.target, self.t(s.value))
        elif isinstance(s, ast.AugAssign):
            self.ops(s.value)
            self.target_ops(s.target)
            if isinstance(s.target, ast.Name) and self.env.get(s.target.id, 0) == 2:
                self.row('write', 'method:__iadd__', s)       # in-place operator on a host-aliased object
            if self.t(s.value):
                self.bind(s.target, min(self.t(s.value), 1) if isinstance(s.target, ast.Name) and self.env.get(s.target.id, 0) < 2
                          else self.t(s.value))
        elif isinstance(s, ast.Delete):
            for tg in s.targets:
                self.target_ops(tg, deleting=True)
        elif isinstance(s, ast.Return):
            if s.value is not None:
                self.ops(s.value)
                if self.t(s.value) > self.fn.ret:
                    self.fn.ret = self.t(s.value)
                    self.changed = True
        elif isinstance(s, (ast.If, ast.While)):
            self.ops(s.test)
            if self.t(s.test):
                self.row('read', 'bool', s.test)
            self.stmts(s.body)
            self.stmts(s.orelse)
        elif isinstance(s, (ast.For, ast.AsyncFor)):
            self.ops(s.iter)
            if self.t(s.iter):
                self.row('read', 'iter', s.iter)
                self.bind(s.target, self.t(s.iter))
            self.stmts(s.body)
            self.stmts(s.orelse)
        elif isinstance(s, (ast.With, ast.AsyncWith)):
            for it in s.items:
                self.ops(it.context_expr)
                if self.t(it.context_expr) == 2:
                    self.row('enter', 'with', it.context_expr)      # host __enter__/__exit__
                if it.optional_vars is not None and self.t(it.context_expr):
                    self.bind(it.optional_vars, self.t(it.context_expr))
            self.stmts(s.body)
        elif isinstance(s, ast.Try):
            self.stmts(s.body)
            for h in s.handlers:
                self.stmts(h.body)
            self.stmts(s.orelse)
            self.stmts(s.finalbody)
        elif isinstance(s, ast.Raise):
            if s.exc is not None:
                self.ops(s.exc)
        elif isinstance(s, ast.Assert):
            self.ops(s.test)
        else:
            raise Untranslatable(f'host-touch analysis: statement {type(s).__name__} in {self.fn.key}')


def analyse():
    fns = functions()
    by_name = {}
    for f in fns:
        by_name.setdefault(f.node.name, []).append(f)
    self_attrs = {}
    rows = set()
    for _ in range(12):
        changed = False
        rows = set()
        for f in fns:
            w = Walker(f, by_name, self_attrs, rows)
            for _i in range(3):                 # locals bound late in a loop body reach earlier statements
                w.stmts(f.node.body)
            changed = changed or w.changed
        if not changed:
            break
    else:
        raise Untranslatable('host-touch analysis: no fixed point')
    roots = sorted(f'{f.key}({", ".join(k + ("" if v == 2 else "~") for k, v in sorted(f.tainted.items()))})'
                   for f in fns if f.tainted)
    return sorted(rows), roots, sorted(f'{r[len("src/"):]}:{c}.{a}' + ('' if v == 2 else '~') for (r, c, a), v in self_attrs.items())


def generate():
    rows, roots, attrs = analyse()
    out = [pylean.header('host-touching operations of the collection / evaluation code (harness/extract/o8_hosttouch.py)',
                         FILES),
           'import DeepModel.Model.HostTouchBase\n', 'namespace Extracted.HostTouch\nopen _root_.HostTouch\n',
           '/-- functions with parameters that can alias host state (taint fixed point) -/',
           'def roots : List String :=\n  [' + ',\n   '.join(lean_str(r) for r in roots) + ']\n',
           '/-- `self.<attr>` fields that can hold a host-aliased value -/',
           'def carrierFields : List String :=\n  [' + ',\n   '.join(lean_str(r) for r in attrs) + ']\n',
           '/-- (function, kind, protocol, source text) of every operation on a value that can alias host state -/',
           'def ops : List Op :=\n  [' + ',\n   '.join(
               f'⟨{lean_str(fn)}, Kind.{kind}, {lean_str(proto)}, {lean_str(text)}⟩' for fn, kind, proto, text in rows) + ']\n',
           'end Extracted.HostTouch\n']
    return '\n'.join(out)


if __name__ == '__main__':
    rows, roots, attrs = analyse()
    for r in rows:
        print(r)
    print(len(rows), 'rows;', len(roots), 'root functions;', attrs)
