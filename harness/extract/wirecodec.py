"""Extracted/WireCodec.lean — the protobuf WIRE codecs of the messages the agent sends (C08 "survives serialisation"),
generated from the DESCRIPTORS of the installed deepproto package (field numbers, field types, labels, presence, oneofs,
map entries are read here on every run — nothing of it is typed in by hand).

Per message M of wire.MSG_ORDER (VariableID, Variable, StackFrame, WatchResult, KeyValue, TracePointConfig, Snapshot,
Resource, PollRequest — the structures `P<M>` of Extracted/Wire.lean):
  * `enc<M> : P<M> -> List Rec`   one emitter per modelled field, in field-number order (what upb writes);
  * `dec<M>Recs / dec<M>`        one reader per field.
The emitter / reader chosen per field is decided by the descriptor: type (string, bytes, uint32, uint64, fixed64, bool,
enum, message), label (repeated), presence (proto3 implicit presence drops a default value, `optional` / message fields /
oneof members are written whenever set), real oneofs (a member is written only when no later member is set — the
constructor keeps the last one given), map fields (entry message key = 1, value = 2, both always written).
The recursive AnyValue / ArrayValue / KeyValueList / KeyValue family is emitted from a template after checking the
descriptor has the expected members; its field numbers are the descriptor's.
`wireSchema` is the table the codecs were generated from (tripwire theorems in Props/C08.lean pin it).
A field type / label this generator has no emitter for raises Untranslatable.
"""
from pylean import Untranslatable, header, lean_str
import wire

OUT = 'DeepModel/Extracted/WireCodec.lean'

TYPE_NAMES = {1: 'double', 3: 'int64', 4: 'uint64', 6: 'fixed64', 8: 'bool', 9: 'string', 11: 'message', 12: 'bytes',
              13: 'uint32', 14: 'enum'}


def real_oneof(f):
    o = f.containing_oneof
    return o is not None and len(o.fields) > 1


def label_of(f):
    if f.message_type is not None and f.message_type.GetOptions().map_entry:
        return 'map'
    if f.is_repeated:
        return 'repeated'
    if real_oneof(f):
        return 'oneof:' + f.containing_oneof.name
    if f.has_presence:
        return 'optional'
    return 'implicit'


def schema_row(d):
    return [(f.number, f.name, TYPE_NAMES.get(f.type, str(f.type)) + (':' + f.message_type.name if f.message_type is not None else ''),
             label_of(f)) for f in sorted(d.fields, key=lambda f: f.number)]


ANY_EXPECT = [('string_value', 9, None), ('bool_value', 8, None), ('int_value', 3, None), ('double_value', 1, None),
              ('array_value', 11, 'ArrayValue'), ('kvlist_value', 11, 'KeyValueList'), ('bytes_value', 12, None)]


def any_family(cpb):
    """field numbers of the AnyValue family, after checking its shape"""
    d = cpb.AnyValue.DESCRIPTOR
    got = [(f.name, f.type, f.message_type.name if f.message_type is not None else None) for f in d.fields]
    if sorted(got) != sorted(ANY_EXPECT):
        raise Untranslatable(f'AnyValue members changed: {got}')
    for f in d.fields:
        if f.containing_oneof is None or f.containing_oneof.name != 'value' or f.is_repeated:
            raise Untranslatable(f'AnyValue.{f.name} is not a member of the oneof `value`')
    no = {f.name: f.number for f in d.fields}
    av = cpb.ArrayValue.DESCRIPTOR.fields
    kl = cpb.KeyValueList.DESCRIPTOR.fields
    kv = cpb.KeyValue.DESCRIPTOR
    if len(av) != 1 or not av[0].is_repeated or av[0].message_type is None or av[0].message_type.name != 'AnyValue':
        raise Untranslatable('ArrayValue is no longer `repeated AnyValue values`')
    if len(kl) != 1 or not kl[0].is_repeated or kl[0].message_type is None or kl[0].message_type.name != 'KeyValue':
        raise Untranslatable('KeyValueList is no longer `repeated KeyValue values`')
    k, v = kv.fields_by_name.get('key'), kv.fields_by_name.get('value')
    if len(kv.fields) != 2 or k is None or v is None or k.type != 9 or k.has_presence or v.message_type is None \
            or v.message_type.name != 'AnyValue' or v.is_repeated:
        raise Untranslatable('KeyValue is no longer {string key; AnyValue value}')
    no.update(array_values=av[0].number, kvlist_values=kl[0].number, kv_key=k.number, kv_value=v.number)
    return no


ANY_TEMPLATE = '''
/-! ### AnyValue / ArrayValue / KeyValueList / KeyValue (recursive) -/

mutual
  /-- the records of an `AnyValue` message (`pyNone` is no message: nothing) -/
  def encAny : PAnyValue → List Rec
    | .pyNone => []
    | .empty => []
    | .string_value t => [⟨@string_value@, .len (utf8Enc t)⟩]
    | .bool_value b => [⟨@bool_value@, .varint (if b then 1 else 0)⟩]
    | .int_value i => [⟨@int_value@, .varint (i64ToU i)⟩]
    | .double_value bits => [⟨@double_value@, .fixed64 bits⟩]
    | .array_value vs => [⟨@array_value@, .len (encRecs (encAnyList vs))⟩]
    | .kvlist_value kvs => [⟨@kvlist_value@, .len (encRecs (encKVList kvs))⟩]
    | .bytes_value b => [⟨@bytes_value@, .len b⟩]
  /-- `ArrayValue.values` -/
  def encAnyList : PAnyList → List Rec
    | .nil => []
    | .cons v r => ⟨@array_values@, .len (encRecs (encAny v))⟩ :: encAnyList r
  /-- `KeyValueList.values`, each a `KeyValue` (value unset when `pyNone`) -/
  def encKVList : PKVList → List Rec
    | .nil => []
    | .cons k v r =>
      ⟨@kvlist_values@, .len (encRecs (fld @kv_key@ (pStr k) ++
          (match v with
           | .pyNone => []
           | v => [⟨@kv_value@, .len (encRecs (encAny v))⟩])))⟩ :: encKVList r
end

/-- a record that sets a member of the oneof `AnyValue.value` -/
def anyMember (r : Rec) : Bool :=
  match r.fno, r.p with
  | @string_value@, .len _ => true
  | @bool_value@, .varint _ => true
  | @int_value@, .varint _ => true
  | @double_value@, .fixed64 _ => true
  | @array_value@, .len _ => true
  | @kvlist_value@, .len _ => true
  | @bytes_value@, .len _ => true
  | _, _ => false

/-- a `KeyValue` message, its value read by `dec` -/
def decKVWith (dec : Bytes → Option PAnyValue) (bs : Bytes) : Option (Text × PAnyValue) :=
  match decRecs bs with
  | none => none
  | some rs =>
    match dStr (sel @kv_key@ rs), dOptMsg dec (sel @kv_value@ rs) with
    | some k, some v => some (k, v.getD .pyNone)
    | _, _ => none

/-- an `AnyValue` message; the fuel bounds the nesting depth (a nested message is shorter than its parent, so
    `bytes + 1` always suffices: `decAny`) -/
def decAnyF : Nat → Bytes → Option PAnyValue
  | 0, _ => none
  | f + 1, bs =>
    match decRecs bs with
    | none => none
    | some rs =>
      match (rs.filter anyMember).getLast? with
      | none => some .empty
      | some r =>
        match r.fno, r.p with
        | @string_value@, .len b => (utf8Dec b).map .string_value
        | @bool_value@, .varint n => some (.bool_value (n != 0))
        | @int_value@, .varint n => some (.int_value (uToI64 n))
        | @double_value@, .fixed64 n => some (.double_value n)
        | @array_value@, .len b =>
          match decRecs b with
          | none => none
          | some rs' =>
            (allSome (decAnyF f) (allLen (sel @array_values@ rs'))).map (fun vs => .array_value (PAnyList.ofList vs))
        | @kvlist_value@, .len b =>
          match decRecs b with
          | none => none
          | some rs' =>
            (allSome (decKVWith (decAnyF f)) (allLen (sel @kvlist_values@ rs'))).map
              (fun kvs => .kvlist_value (PKVList.ofList kvs))
        | @bytes_value@, .len b => some (.bytes_value b)
        | _, _ => none

def decAny (bs : Bytes) : Option PAnyValue := decAnyF (bs.length + 1) bs

/-- a singular `AnyValue` field: unset when `pyNone` -/
def pAny : PAnyValue → List Payload
  | .pyNone => []
  | v => [.len (encRecs (encAny v))]

def dAny (ps : List Payload) : Option PAnyValue :=
  match lastLen ps with
  | none => some .pyNone
  | some b => decAny b
'''


def field_codec(msg, f, ptype, later_oneof):
    """(emitter expression over `m`, reader expression over `rs`, reader is Option-valued)"""
    n = f.number
    x = f'm.{wire.ident(f.name)}'
    ps = f'(sel {n} rs)'
    T = f.type
    mt = f.message_type
    if mt is not None and mt.GetOptions().map_entry:
        k, v = mt.fields_by_name['key'], mt.fields_by_name['value']
        if (k.number, v.number, k.type) != (1, 2, 9):
            raise Untranslatable(f'{msg}.{f.name}: map entry is not (string key = 1, value = 2)')
        if v.type == 9:
            return f'pRepMsg ({x}.map encStrEntry)', f'dRepMsg decStrEntry {ps}', True
        if v.type == 11 and v.message_type.name in wire.MSG_ORDER:
            vm = v.message_type.name
            return f'pRepMsg ({x}.map (encMsgEntry enc{vm}))', f'dRepMsg (decMsgEntry dec{vm}) {ps}', True
        raise Untranslatable(f'{msg}.{f.name}: map value type {v.type}')
    if T == 11:
        if mt.name == 'AnyValue':
            if f.is_repeated:
                raise Untranslatable(f'{msg}.{f.name}: repeated AnyValue outside ArrayValue')
            e, d, o = f'pAny {x}', f'dAny {ps}', True
        elif mt.name not in wire.MSG_ORDER:
            raise Untranslatable(f'{msg}.{f.name}: message type {mt.name} has no codec')
        elif f.is_repeated:
            return f'pRepMsg ({x}.map enc{mt.name})', f'dRepMsg dec{mt.name} {ps}', True
        else:
            e, d, o = f'pOptMsg ({x}.map enc{mt.name})', f'dOptMsg dec{mt.name} {ps}', True
    elif T == 9:
        if f.is_repeated:
            return f'pRepStr {x}', f'dRepStr {ps}', True
        e, d, o = (f'pOptStr {x}', f'dOptStr {ps}', True) if f.has_presence else (f'pStr {x}', f'dStr {ps}', True)
    elif T == 12 and not f.is_repeated and not f.has_presence and ptype == ('opt', 'Bytes'):
        e, d, o = f'pBytes ({x}.getD [])', f'(some (dBytes {ps}))', False
    elif T in (13, 4) and not f.is_repeated:
        if f.has_presence:
            if T != 13:
                raise Untranslatable(f'{msg}.{f.name}: optional uint64')
            e, d, o = f'pOptUInt {x}', f'dOptU32 {ps}', False
        else:
            e, d, o = f'pUInt {x}', f'{"dU32" if T == 13 else "dU64"} {ps}', False
    elif T == 6 and not f.is_repeated and not f.has_presence:
        e, d, o = f'pFixed64 {x}', f'dFixed64 {ps}', False
    elif T == 8 and not f.is_repeated and f.has_presence:
        e, d, o = f'pOptBool {x}', f'dOptBool {ps}', False
    elif T == 14 and not f.is_repeated and not f.has_presence:
        e, d, o = f'pEnum {x}', f'dEnum {ps}', False
    else:
        raise Untranslatable(f'{msg}.{f.name}: no emitter for type {T} (repeated={f.is_repeated}, presence={f.has_presence})')
    if later_oneof:
        cond = ' || '.join(f'm.{wire.ident(g)}.isSome' for g in later_oneof)
        e = f'(if {cond} then [] else {e})'
    if real_oneof(f):
        if not o or not f.has_presence:
            raise Untranslatable(f'{msg}.{f.name}: a oneof member of this type has no last-member-wins reader')
        members = '[' + ', '.join(str(g.number) for g in sorted(f.containing_oneof.fields, key=lambda g: g.number)) + ']'
        d = f'oneofPick {members} {n} rs ({d})'
    return e, d, o


def generate():
    msgs, tpb, cpb = wire.proto_messages()
    parts = [header('protobuf wire codecs of the messages the agent sends, from the installed descriptors (C08)',
                    ['site-packages/deepproto (descriptors)']).replace('import DeepModel.Py\n', ''),
             'import DeepModel.Extracted.Wire\nimport DeepModel.Model.WireBytes\n',
             'namespace Extracted.Wire\nopen _root_.Wire\n']
    rows = []
    extra = {'AnyValue': cpb.AnyValue.DESCRIPTOR, 'ArrayValue': cpb.ArrayValue.DESCRIPTOR,
             'KeyValueList': cpb.KeyValueList.DESCRIPTOR}
    for name in wire.MSG_ORDER:
        rows.append((name, schema_row(msgs[name].DESCRIPTOR)))
    for name, d in extra.items():
        rows.append((name, schema_row(d)))
    parts.append('/-- the descriptors the codecs below were generated from: (message, [(number, name, type, label)]) -/\n'
                 'def wireSchema : List (String × List (Nat × String × String × String)) :=\n  [' + ',\n   '.join(
                     f'({lean_str(n)}, [' + ', '.join(
                         f'({no}, {lean_str(fn)}, {lean_str(ty)}, {lean_str(lb)})' for no, fn, ty, lb in r) + '])'
                     for n, r in rows) + ']\n')
    nos = any_family(cpb)
    any_text = ANY_TEMPLATE
    for k, v in nos.items():
        any_text = any_text.replace(f'@{k}@', str(v))
    if '@' in any_text:
        raise Untranslatable('AnyValue template has unfilled field numbers')
    any_done = False
    for name in wire.MSG_ORDER:
        d = msgs[name].DESCRIPTOR
        if name == 'KeyValue' and not any_done:
            parts.append(any_text)
            any_done = True
        fields = sorted(d.fields, key=lambda f: f.number)
        known = set(wire.MSG_ORDER)
        encs, binds, inits = [], [], []
        for f in fields:
            ft = wire.field_type(f, known)
            if ft is None:
                continue                              # not modelled (listed in protoUnmodelled): never set by the agent
            later = []
            if real_oneof(f):
                later = [g.name for g in f.containing_oneof.fields if g.number > f.number]
            e, dd, opt = field_codec(name, f, ft[0], later)
            encs.append(f'fld {f.number} ({e})')
            v = wire.local_ident(f.name) + '_v'
            if opt:
                binds.append(f'  ({dd}).bind fun {v} =>')
                inits.append(f'{wire.ident(f.name)} := {v}')
            else:
                inits.append(f'{wire.ident(f.name)} := {dd}')
        parts.append(f'/-- `{d.full_name}` on the wire -/\n'
                     f'def enc{name} (m : P{name}) : List Rec :=\n  ' + ' ++\n  '.join(encs) + '\n')
        parts.append(f'def dec{name}Recs (rs : List Rec) : Option P{name} :=\n' + '\n'.join(binds) + '\n'
                     '  some { ' + ', '.join(inits) + ' }\n')
        parts.append(f'def dec{name} (bs : Bytes) : Option P{name} := (decRecs bs).bind dec{name}Recs\n')
    if not any_done:
        raise Untranslatable('KeyValue is not among the messages')
    parts.append('end Extracted.Wire\n')
    return '\n'.join(parts)
